"""Generic facility for C18: a small path-splitting symbolic executor.

`SymExec.run(stmts, env)` executes a list of simple statements (assignments, augmented assignments,
`if`, `return` / `continue` / `break` / `raise`, logging calls) on *every* path and returns one
`Leaf` per path: how the path ended, the ordered tuple of branch facts that hold on it, the final
environment (local name -> `Poly`) and the returned value.  Because every path is enumerated there
is no merge: `if c: x = a / else: x = b`, `x = a if c else b`, an early `return`/`continue` and the
same code moved into a private helper (any number of `return`s) all produce the same leaves.

  * values are `terms.Poly` normal forms (commutative / associative / distributive arithmetic);
    `min` / `max`, calls, boolean expressions become *structured atoms*: the atom's name embeds the
    normal forms of its operands and `SymExec.struct[name]` holds the parts for destructuring;
  * locals are always substituted (flow-sensitively: the environment of the path), so introduced /
    inlined locals, renamed locals and `x = x + e` vs `x += e` are invisible;
  * branch conditions are canonical (`a < b` == `b > a` == `not a >= b`; De Morgan; `not (x is None)`
    == `x is not None`), a conjunction contributes one fact per conjunct; operands are the normal
    forms of the operand expressions.  Order comparisons are totalised, i.e. values are assumed not
    to be NaN (the caller states that assumption);
  * conditional expressions are lifted to `if` statements, calls of private helpers of the same
    class / module are lifted to temporaries and executed (callee paths multiply the caller's);
  * `try: … except KeyError / LookupError: …` (no `finally`) is read for the one exception that is modelled: a
    keyed read `p[k]` of a watched parameter inside the protected statements forks the path into "k in p" and
    "k not in p"; the second runs the handler in place of the rest of the protected block (`SymExec._try`).  A
    lookup in the summarised loop's body whose handler is *outside* the loop ends the iteration in the leaf kind
    `escape` (the exception leaves the loop: the caller's rule reports it).  Any other `try` fails closed;
  * anything else (loops, `with`, `assert`, unknown expression statements, starred targets)
    raises AnalysisError: the caller fails closed.

Two kinds of statements executed for their effect are read (everything else of that kind still fails closed):

  * an in-place change of a *watched* parameter (`SymExec.watch`: the containers the caller hands over by
    reference) or of something reached through it — a mutating method call, `p &= …`, `p[k] = …`, `del p[k]` —
    is recorded in `SymExec.arg_mutations` and execution goes on (the caller's rule reports it);
  * `xs.append(e)` / `xs.add(e)` inside the summarised loop on a local that is an empty list / set at the loop's
    entry: the local becomes loop-carried (a chain of `push` atoms per path), and `sum(f(x) for x in xs)` /
    `sum(xs)` after the loop is the *derived accumulator* `Σxs[f($)]` whose per-path increment is f applied to
    the elements the path pushed (`SymExec.derive_sums`), so `acc += e` and "collect, then sum" have the same
    leaves.  A collection that forgets multiplicity (a set, `set(xs)`) whose elements do not carry the loop item
    is recorded in `SymExec.collapsing`.
"""
from __future__ import annotations

import ast
import copy
import dataclasses
from dataclasses import dataclass
from typing import Any, Callable

from ..engine.report import AnalysisError
from ..engine.resolver import FuncInfo, Program
from ..engine.terms import Poly, TermEval
from ..engine.util import is_logging_call, u

Fact = Any
Env = dict[str, Poly]
NONE = Poly.atom("None")

_NEG = {"is": "isnot", "isnot": "is", "==": "!=", "!=": "==", "in": "notin", "notin": "in",
        "truthy": "falsy", "falsy": "truthy"}


def cjoin(kind: str, kids: Any) -> Fact:
    flat: set[Fact] = set()
    for k in kids:
        if isinstance(k, tuple) and k and k[0] == kind:
            flat |= set(k[1])
        else:
            flat.add(k)
    absorbing = ("const", kind == "or")  # True absorbs an `or`, False an `and`
    if absorbing in flat:
        return absorbing
    flat.discard(("const", kind == "and"))  # the neutral element
    if not flat:
        return ("const", kind == "and")
    if len(flat) == 1:
        return next(iter(flat))
    return (kind, frozenset(flat))


def cneg(c: Fact) -> Fact:
    k = c[0]
    if k == "and":
        return cjoin("or", [cneg(x) for x in c[1]])
    if k == "or":
        return cjoin("and", [cneg(x) for x in c[1]])
    if k == "<":
        return ("<=", c[2], c[1])
    if k == "<=":
        return ("<", c[2], c[1])
    if k == "const":
        return ("const", not c[1])
    if k in _NEG:
        return (_NEG[k],) + tuple(c[1:])
    raise AnalysisError(f"cannot negate condition {c!r}")


def facts_of(c: Fact) -> tuple[Fact, ...]:
    """Atomic facts established by a condition being true (conjuncts are split)."""
    if c[0] == "and":
        return tuple(sorted(c[1], key=repr))
    return (c,)


@dataclass
class Leaf:
    kind: str  # fall | return | continue | break | raise | escape (a caught exception leaves the summarised loop)
    facts: tuple[Fact, ...]
    env: Env
    value: Poly | None = None
    node: ast.AST | None = None


@dataclass
class LoopRecord:
    """One `for` loop met on a path: the loop as read (fused with a private generator, if it iterates
    one), the function that holds it, the state at its entry, and every path of one iteration."""
    node: ast.For          # as analysed (possibly fused)
    orig: ast.For          # the statement in the source tree
    fn: FuncInfo
    pre_env: Env
    facts: tuple[Fact, ...]
    iter_term: str
    assigned: list[str]
    leaves: list[Leaf]
    colls: dict[str, str] = dataclasses.field(default_factory=dict)  # local filled by append / add in the loop -> "list" | "set"


@dataclass
class SumSpec:
    """`sum(ELT for TARGET in COLL)` (ELT / TARGET None: `sum(COLL)`) met after the loop that fills COLL."""
    coll: str
    target: ast.AST | None
    elt: ast.AST | None
    env: Env
    dedupe: str | None  # the wrapper that forgets multiplicity on the way into the sum (`set(xs)`), if any
    node: ast.AST


@dataclass
class TryFrame:
    """One `try` whose protected statements are being executed: the handler a lookup error runs, and where
    execution goes on after the statement."""
    node: ast.Try
    handler: ast.ExceptHandler
    outer: tuple["TryFrame", ...]
    depth: int      # len(fn_stack) where the `try` stands
    in_loop: bool   # the `try` stands inside the summarised loop's body
    nxt: Any
    ctl: Any


LOOKUP_ERRORS = {"KeyError", "LookupError"}
COLLECT = {"append": "list", "add": "set"}
# methods that change a set / dict / list in place
INPLACE = ("pop", "popitem", "clear", "update", "setdefault", "__setitem__", "__delitem__", "add", "discard", "remove",
           "append", "extend", "insert", "sort", "reverse", "intersection_update", "difference_update",
           "symmetric_difference_update", "__iand__", "__ior__", "__isub__", "__ixor__")

SEQ_WRAPPERS = ("sorted", "list", "tuple", "set", "frozenset")

CallHook = Callable[["SymExec", str, str | None, list[Poly], dict[str, Poly], ast.Call], "Poly | None"]


class SymExec:
    def __init__(self, prog: Program, fn: FuncInfo, call_hook: CallHook | None = None,
                 max_depth: int = 3, max_leaves: int = 400, item_atom: str = "ITEM") -> None:
        self.item_atom = item_atom
        self.loops: list[LoopRecord] = []
        self.closures: dict[tuple[str, str], FuncInfo] = {}  # (enclosing function, name) -> nested def met on a path
        self._in_loop = False
        self.prog = prog
        self.fn_stack = [fn]
        self.call_hook = call_hook
        self.max_depth = max_depth
        self.max_leaves = max_leaves
        self.struct: dict[str, tuple[Any, ...]] = {}
        self._te = TermEval(atom_hook=self._hook)
        self._tmp = 0
        self._n_leaves = 0
        self.used: set[str] = set()  # quals of the helpers that were executed / fused
        self.watch: tuple[str, ...] = ()  # parameters of the analysed function that are the caller's own containers
        self.arg_mutations: list[tuple[str, str, ast.AST, tuple[Fact, ...]]] = []  # (parameter, statement, node, facts)
        self.sums: dict[str, SumSpec] = {}  # derived accumulator -> the sum over a collected local it stands for
        self.collapsing: list[tuple[str, str, ast.AST]] = []  # (collection, why multiplicity is lost, node)
        self._colls: dict[str, str] = {}
        self._coll_fn: FuncInfo | None = None
        self._handlers: tuple[TryFrame, ...] = ()  # the `try` statements whose protected block is being executed
        self.escape_to: dict[int, ast.Try] = {}  # id(statement of an `escape` leaf) -> the `try` that catches it

    # ------------------------------------------------------------------ values
    def mk(self, name: str, parts: tuple[Any, ...]) -> Poly:
        self.struct[name] = parts
        return Poly.atom(name)

    def parts(self, p: Poly | None, kind: str | None = None) -> tuple[Any, ...] | None:
        a = p.as_atom() if p is not None else None
        st = self.struct.get(a) if a is not None else None
        if st is None or (kind is not None and st[0] != kind):
            return None
        return st

    def ev(self, e: ast.AST, env: Env) -> Poly:
        old = self._te.env
        self._te.env = env
        try:
            return self._te.ev(e)
        finally:
            self._te.env = old

    def _name_of(self, base: Poly) -> str:
        a = base.as_atom()
        return a if a is not None else f"({base!r})"

    def _hook(self, e: ast.AST, te: TermEval) -> Poly | None:  # noqa: C901
        if isinstance(e, ast.Constant):
            if e.value is None:
                return NONE
            if isinstance(e.value, (str, bytes)):
                return Poly.atom(repr(e.value))
            return None
        if isinstance(e, (ast.BoolOp, ast.Compare)) or (isinstance(e, ast.UnaryOp) and isinstance(e.op, ast.Not)):
            c = self.cond(e, te.env)
            return self.mk(f"<{fmt(c)}>", ("cond", c))
        if isinstance(e, ast.Attribute):
            return Poly.atom(f"{self._name_of(te.ev(e.value))}.{e.attr}")
        if isinstance(e, ast.Subscript):
            if isinstance(e.slice, ast.Slice) or any(isinstance(x, ast.Slice) for x in ast.walk(e.slice)):
                return Poly.atom(te.text(e))
            base = te.ev(e.value)
            st, idx = self.parts(base, "tuple"), te.ev(e.slice).const_value()
            if st is not None and idx is not None and idx.denominator == 1 and -len(st[1]) <= idx < len(st[1]):
                return st[1][int(idx)]  # (a, b)[0] is a
            return Poly.atom(f"{self._name_of(base)}[{te.ev(e.slice)!r}]")
        if isinstance(e, ast.Call):
            return self._call(e, te)
        if isinstance(e, ast.Tuple) and not any(isinstance(x, ast.Starred) for x in e.elts):
            elts = [te.ev(x) for x in e.elts]
            return self.mk(f"({', '.join(repr(x) for x in elts)},)", ("tuple", elts))
        if isinstance(e, (ast.NamedExpr, ast.Await, ast.Yield, ast.YieldFrom)):
            raise AnalysisError(f"unsupported expression `{u(e)}`")
        return None

    def _call(self, e: ast.Call, te: TermEval) -> Poly:
        if any(isinstance(a, ast.Starred) for a in e.args) or any(k.arg is None for k in e.keywords):
            return Poly.atom(te.text(e))
        if u(e.func) in ("sum", "math.fsum", "fsum") and len(e.args) == 1 and not e.keywords and not self._in_loop:
            got = self._collected_sum(e.args[0], te, e)
            if got is not None:
                return got
        args = [te.ev(a) for a in e.args]
        kws = {k.arg: te.ev(k.value) for k in e.keywords if k.arg is not None}
        f = e.func
        recv: str | None = None
        if isinstance(f, ast.Attribute):
            recv = self._name_of(te.ev(f.value))
            fname = f"{recv}.{f.attr}"
        elif isinstance(f, ast.Subscript) and isinstance(f.value, ast.Name):
            fname = f.value.id  # Generic[T](...) constructs the same object
        else:
            fname = u(f)
        if self.call_hook is not None:
            got = self.call_hook(self, fname, recv, args, kws, e)
            if got is not None:
                return got
        if fname in ("min", "max") and len(args) >= 2 and not kws:
            consts = [a.const_value() for a in args]
            if all(c is not None for c in consts):
                return Poly.const(min(consts) if fname == "min" else max(consts))  # type: ignore[type-var]
            return self.mk(f"{fname}({', '.join(sorted(repr(a) for a in args))})", (fname, args))
        if fname == "float" and len(args) == 1 and not kws:
            return args[0]
        if fname in ("math.isclose", "isclose") and len(args) == 2:
            args = sorted(args, key=repr)  # symmetric in its two operands
        text = ", ".join([repr(a) for a in args] + [f"{k}={v!r}" for k, v in sorted(kws.items())])
        return self.mk(f"{fname}({text})", ("call", fname, tuple(args), kws))

    # ------------------------------------------------------------------ collected contributions
    def _empty_coll(self, p: Poly | None) -> str | None:
        """"list" / "set" when `p` is a freshly built empty list / set."""
        if p is None:
            return None
        if p.as_atom() == "[]":
            return "list"
        st = self.parts(p, "call")
        if st is not None and st[1] in ("list", "set") and not st[2] and not st[3]:
            return str(st[1])
        return None

    def _coll_of(self, it: ast.AST, te: TermEval) -> tuple[str, str | None] | None:
        """(collected local, deduplicating wrapper or None) when `it` iterates what a summarised loop collected."""
        dedupe: str | None = None
        while isinstance(it, ast.Call) and len(it.args) == 1 and not it.keywords and (
                u(it.func) in SEQ_WRAPPERS or u(it.func) == "dict.fromkeys"):
            if u(it.func) in ("set", "frozenset", "dict.fromkeys"):
                dedupe = u(it.func)
            it = it.args[0]
        if not isinstance(it, (ast.Name, ast.Attribute, ast.Subscript)):
            return None
        a = te.ev(it).as_atom()
        if a is not None and a.endswith("@loop") and any(a[:-len("@loop")] in r.colls for r in self.loops):
            return a[:-len("@loop")], dedupe
        return None

    def _bind_target(self, target: ast.AST, value: Poly, env: Env) -> Env:
        env2 = dict(env)
        if isinstance(target, ast.Name):
            env2[target.id] = value
            return env2
        st = self.parts(value, "tuple")
        if isinstance(target, (ast.Tuple, ast.List)) and all(isinstance(x, ast.Name) for x in target.elts) \
                and st is not None and len(st[1]) == len(target.elts):
            for x, xv in zip(target.elts, st[1]):
                env2[x.id] = xv  # type: ignore[attr-defined]
            return env2
        raise AnalysisError(f"{self.fn_stack[-1].qual}: a collected element `{value!r}` does not unpack into `{u(target)}`")

    def _collected_sum(self, arg: ast.AST, te: TermEval, call: ast.Call) -> Poly | None:
        target = elt = None
        if isinstance(arg, (ast.GeneratorExp, ast.ListComp)):
            if len(arg.generators) != 1:
                return None
            g = arg.generators[0]
            found = self._coll_of(g.iter, te)
            if found is None:
                return None
            if g.ifs or g.is_async:
                raise AnalysisError(f"{self.fn_stack[-1].qual}: filtered sum over collected contributions `{u(call)[:80]}`")
            target, elt = g.target, arg.elt
        else:
            found = self._coll_of(arg, te)
            if found is None:
                return None
        coll, dedupe = found
        shape = "$"
        if target is not None and elt is not None:
            if isinstance(target, ast.Name):
                ph = Poly.atom("$")
            elif isinstance(target, (ast.Tuple, ast.List)):
                elts = [Poly.atom(f"${i}") for i in range(len(target.elts))]
                ph = self.mk(f"({', '.join(repr(x) for x in elts)},)", ("tuple", elts))
            else:
                raise AnalysisError(f"{self.fn_stack[-1].qual}: unsupported target in `{u(call)[:80]}`")
            shape = repr(self.ev(elt, self._bind_target(target, ph, te.env)))
        key = f"Σ{coll}[{shape}]" if dedupe is None else f"Σ{dedupe}({coll})[{shape}]"
        self.sums.setdefault(key, SumSpec(coll, target, elt, dict(te.env), dedupe, call))
        return Poly.atom(f"{key}@loop")

    def pushes(self, p: Poly, coll: str) -> list[tuple[Poly, ast.AST]]:
        """The elements (with the statement that adds each) one path of an iteration appends to `coll`."""
        out: list[tuple[Poly, ast.AST]] = []
        while p != Poly.atom(f"{coll}@0"):
            st = self.parts(p, "push")
            if st is None:
                raise AnalysisError(f"{self.fn_stack[0].qual}: `{coll}` is filled and rebound in the loop")
            out.append((st[2], st[3]))
            p = st[1]
        return out[::-1]

    def derive_sums(self, rec: LoopRecord) -> None:
        """Make every `sum(… over a local the loop of `rec` collected)` met so far a loop-carried variable of
        `rec`: 0 at the loop's entry, and on each path of an iteration old value + the summand of each pushed
        element.  Collections that lose multiplicity are noted in `self.collapsing`."""
        for key, spec in self.sums.items():
            if spec.coll not in rec.colls or key in rec.assigned:
                continue
            for x in rec.leaves:
                total = Poly.atom(f"{key}@0")
                for elem, node in self.pushes(x.env[spec.coll], spec.coll):
                    if spec.target is None or spec.elt is None:
                        total = total + elem
                    else:
                        total = total + self.ev(spec.elt, self._bind_target(spec.target, elem, spec.env))
                    st = self.parts(elem, "tuple")
                    keyed = elem == Poly.atom(self.item_atom) or (
                        st is not None and any(c == Poly.atom(self.item_atom) for c in st[1]))
                    if rec.colls[spec.coll] == "set":
                        why, at = f"`{' '.join(u(node).split())[:80]}` fills a set", node
                    elif spec.dedupe:
                        why, at = f"`{' '.join(u(spec.node).split())[:80]}` sums `{spec.dedupe}(…)` of what was collected", spec.node
                    else:
                        continue
                    if not keyed and (spec.coll, why) not in [(c_, w_) for c_, w_, _n in self.collapsing]:
                        self.collapsing.append((spec.coll, why, at))
                x.env[key] = total
            rec.assigned.append(key)
            rec.pre_env[key] = Poly.const(0)

    def _rooted(self, p: Poly) -> str | None:
        """The watched parameter `p` is, or is reached through (`param[k]`, `param.attr`)."""
        a = p.as_atom()
        if a is None:
            return None
        return next((w for w in self.watch if a == w or a.startswith((w + "[", w + "."))), None)

    def _mutated(self, param: str, s: ast.AST, facts: tuple[Fact, ...]) -> None:
        self.arg_mutations.append((param, " ".join(u(s).split())[:100], s, facts))

    # ------------------------------------------------------------------ conditions
    def cond(self, e: ast.AST, env: Env) -> Fact:
        if isinstance(e, ast.BoolOp):
            return cjoin("and" if isinstance(e.op, ast.And) else "or", [self.cond(v, env) for v in e.values])
        if isinstance(e, ast.UnaryOp) and isinstance(e.op, ast.Not):
            return cneg(self.cond(e.operand, env))
        if isinstance(e, ast.Compare):
            out = []
            left = e.left
            for op, right in zip(e.ops, e.comparators):
                if isinstance(op, (ast.In, ast.NotIn)) and isinstance(right, (ast.Tuple, ast.List)) \
                        and isinstance(left, ast.Constant) and left.value is None \
                        and not any(isinstance(x, ast.Starred) for x in right.elts):
                    # `None in (a, b, c)`: one of them is None
                    c = cjoin("or", [("is", frozenset((repr(self.ev(x, env)), "None"))) for x in right.elts])
                    out.append(c if isinstance(op, ast.In) else cneg(c))
                    left = right
                    continue
                lp, rp = self.ev(left, env), self.ev(right, env)
                folded = self._fold(lp, op, rp)
                out.append(folded if folded is not None else self._cmp(repr(lp), op, repr(rp)))
                left = right
            return cjoin("and", out)
        if isinstance(e, ast.Constant) and isinstance(e.value, bool):
            return ("const", e.value)
        if isinstance(e, ast.Call) and isinstance(e.func, ast.Name) and e.func.id in ("any", "all") and len(e.args) == 1 \
                and not e.keywords and isinstance(e.args[0], (ast.GeneratorExp, ast.ListComp)):
            # any(P(v) for v in (a, b, c)) over a literal sequence is P(a) or P(b) or P(c)
            g = e.args[0]
            gen = g.generators[0]
            if len(g.generators) == 1 and isinstance(gen.iter, (ast.Tuple, ast.List)) and isinstance(gen.target, ast.Name) \
                    and not gen.is_async and not any(isinstance(x, ast.Starred) for x in gen.iter.elts):
                kids = []
                for x in gen.iter.elts:
                    env2 = dict(env)
                    env2[gen.target.id] = self.ev(x, env)
                    c = cjoin("and", [self.cond(i, env2) for i in gen.ifs] + [self.cond(g.elt, env2)])
                    if e.func.id == "all" and gen.ifs:
                        c = cjoin("or", [cneg(cjoin("and", [self.cond(i, env2) for i in gen.ifs])), self.cond(g.elt, env2)])
                    kids.append(c)
                return cjoin("or" if e.func.id == "any" else "and", kids)
        p = self.ev(e, env)
        st = self.parts(p, "cond")
        if st is not None:
            return st[1]
        cv = p.const_value()
        if cv is not None:
            return ("const", cv != 0)
        return ("truthy", repr(p))

    def _fold(self, a: Poly, op: ast.cmpop, b: Poly) -> Fact | None:
        """Identity / equality tests decided by the values themselves (x is x; a tuple is not None)."""
        if not isinstance(op, (ast.Is, ast.IsNot, ast.Eq, ast.NotEq)):
            return None
        positive = isinstance(op, (ast.Is, ast.Eq))

        def not_none(p: Poly) -> bool:
            # a number, the result of arithmetic (anything but one opaque atom), or a constructed value
            st = self.parts(p)
            return p.const_value() is not None or p.as_atom() is None or (
                st is not None and st[0] in ("tuple", "Sample", "wrap", "cond", "min", "max"))

        if a == b and (a == NONE or isinstance(op, (ast.Is, ast.IsNot))):
            return ("const", positive)
        if (a == NONE and not_none(b)) or (b == NONE and not_none(a)):
            return ("const", not positive)
        return None

    @staticmethod
    def _cmp(a: str, op: ast.cmpop, b: str) -> Fact:
        if isinstance(op, ast.Is):
            return ("is", frozenset((a, b)))
        if isinstance(op, ast.IsNot):
            return ("isnot", frozenset((a, b)))
        if isinstance(op, ast.Eq):
            return ("==", frozenset((a, b)))
        if isinstance(op, ast.NotEq):
            return ("!=", frozenset((a, b)))
        if isinstance(op, ast.In):
            return ("in", a, b)
        if isinstance(op, ast.NotIn):
            return ("notin", a, b)
        if isinstance(op, ast.Lt):
            return ("<", a, b)
        if isinstance(op, ast.Gt):
            return ("<", b, a)
        if isinstance(op, ast.LtE):
            return ("<=", a, b)
        if isinstance(op, ast.GtE):
            return ("<=", b, a)
        raise AnalysisError(f"unsupported comparison {type(op).__name__}")

    # ------------------------------------------------------------------ try / except of lookup errors
    @staticmethod
    def _caught(h: ast.ExceptHandler) -> set[str] | None:
        """The exception class names a handler names (None: bare / not plain names)."""
        t = h.type
        elts = list(t.elts) if isinstance(t, ast.Tuple) else [t] if t is not None else []
        names = {x.id if isinstance(x, ast.Name) else x.attr if isinstance(x, ast.Attribute) else "" for x in elts}
        return names if names and "" not in names else None

    def _try(self, s: ast.Try, env: Env, facts: tuple[Fact, ...], nxt: Any, ctl: Any) -> None:
        fn = self.fn_stack[-1]
        caught = [self._caught(h) for h in s.handlers]
        if s.finalbody or not s.handlers or any(c is None or not c <= LOOKUP_ERRORS | {"IndexError"} for c in caught):
            raise AnalysisError(f"{fn.qual}: unsupported statement `{u(s)[:60]}` (Try: only handlers of KeyError / "
                                "LookupError without `finally` are read)")
        handler = next((h for h, c in zip(s.handlers, caught) if c is not None and c & LOOKUP_ERRORS), None)
        if handler is None:
            raise AnalysisError(f"{fn.qual}: unsupported statement `{u(s)[:60]}` (Try without a KeyError handler)")
        outer = self._handlers
        frame = TryFrame(s, handler, outer, len(self.fn_stack), self._in_loop, nxt, ctl)
        orelse = self.prep(list(s.orelse))

        def after(e2: Env, f2: tuple[Fact, ...]) -> None:
            # what follows the protected block (`else:` and the rest) is not protected by this `try`
            cur = self._handlers
            self._handlers = outer
            try:
                self._block(orelse, e2, f2, nxt, ctl)
            finally:
                self._handlers = cur

        def out(kind: str, val: Poly | None, e2: Env, f2: tuple[Fact, ...], node: ast.AST) -> None:
            # `return` / `continue` / `break` leave the protected block: what the enclosing executor goes on with
            # (a helper's caller after `return`) is not protected by this `try` either
            cur = self._handlers
            self._handlers = outer
            try:
                ctl(kind, val, e2, f2, node)
            finally:
                self._handlers = cur

        frame.ctl = out
        self._handlers = outer + (frame,)
        try:
            self._block(self.prep(list(s.body)), env, facts, after, out)
        finally:
            self._handlers = outer

    def _lookup_raises(self, s: ast.stmt, key: str, env: Env, facts: tuple[Fact, ...], ctl: Any) -> None:
        """The path on which a keyed read in statement `s` (inside a protected block) finds no entry."""
        frame = self._handlers[-1]
        if self._in_loop and not frame.in_loop:
            # the handler stands outside the loop: this iteration is the loop's last one
            self.escape_to[id(s)] = frame.node
            return ctl("escape", None, env, facts, s)
        if len(self.fn_stack) != frame.depth:
            raise AnalysisError(f"{self.fn_stack[-1].qual}: a lookup error raised in a helper is caught in its caller (shape not read)")
        cur = self._handlers
        self._handlers = frame.outer
        try:
            env2 = dict(env)
            if frame.handler.name:
                env2[frame.handler.name] = Poly.atom(f"KeyError({key})")
            self._block(self.prep(list(frame.handler.body)), env2, facts, frame.nxt, frame.ctl)
        finally:
            self._handlers = cur

    def _guard_lookups(self, s: ast.stmt, env: Env, facts: tuple[Fact, ...], ctl: Any) -> tuple[Fact, ...] | None:
        """Inside a protected block: fork on every keyed read `p[k]` of a watched container that statement `s`
        itself evaluates.  Returns the facts of the path on which every read succeeds (None: there is none)."""
        if isinstance(s, (ast.Assign, ast.AnnAssign, ast.AugAssign, ast.Return, ast.Expr)):
            roots = [s.value] if s.value is not None else []
        elif isinstance(s, (ast.If, ast.Assert)):
            roots = [s.test]
        elif isinstance(s, ast.For):
            roots = [s.iter]
        else:
            roots = []
        fn = self.fn_stack[-1]
        for root in roots:
            lazy: set[int] = set()  # nodes that are evaluated only under a condition inside the expression
            for n in ast.walk(root):
                if isinstance(n, ast.BoolOp):
                    lazy |= {id(x) for v in n.values[1:] for x in ast.walk(v)}
                elif isinstance(n, ast.IfExp):
                    lazy |= {id(x) for v in (n.body, n.orelse) for x in ast.walk(v)}
                elif isinstance(n, (ast.Lambda, ast.ListComp, ast.SetComp, ast.DictComp, ast.GeneratorExp)):
                    lazy |= {id(x) for x in ast.walk(n)} - {id(n)}
            for n in ast.walk(root):
                if not (isinstance(n, ast.Subscript) and isinstance(n.ctx, ast.Load)) or isinstance(n.slice, ast.Slice):
                    continue
                if id(n) in lazy:
                    raise AnalysisError(f"{fn.qual}: a lookup inside `try` is evaluated conditionally: `{u(root)[:60]}`")
                base = self.ev(n.value, env)
                if self.parts(base, "tuple") is not None:
                    continue
                if self._rooted(base) is None:
                    raise AnalysisError(f"{fn.qual}: lookup `{u(n)[:60]}` inside `try … except KeyError` is not read")
                key, name = repr(self.ev(n.slice, env)), self._name_of(base)
                present = ("in", key, name)
                if present in facts:
                    continue
                if cneg(present) not in facts:
                    self._lookup_raises(s, key, env, facts + (cneg(present),), ctl)
                    facts = facts + (present,)
                else:
                    self._lookup_raises(s, key, env, facts, ctl)
                    return None
        return facts

    # ------------------------------------------------------------------ helper resolution
    def _helper(self, call: ast.Call) -> FuncInfo | None:
        fn = self.fn_stack[-1]
        f = call.func
        if isinstance(f, ast.Name) and (fn.qual, f.id) in self.closures:
            return self.closures[(fn.qual, f.id)]
        if isinstance(f, ast.Name) and f.id.startswith("_") and f.id in fn.module.functions:
            return fn.module.functions[f.id]
        if isinstance(f, ast.Attribute) and isinstance(f.value, ast.Name) and fn.cls is not None \
                and f.attr.startswith("_") and not f.attr.startswith("__"):
            if f.value.id in ("self", "cls") or f.value.id == fn.cls.name:
                m = self.prog.resolve_method(fn.cls, f.attr)
                if m is not None and not any(f.attr in sub.methods for sub in self.prog.subclasses(fn.cls)):
                    return m
        return None

    def _is_helper_call(self, n: ast.AST) -> bool:
        if not isinstance(n, ast.Call) or len(self.fn_stack) > self.max_depth:
            return False
        h = self._helper(n)
        return h is not None and not h.is_async and all(h is not f for f in self.fn_stack) \
            and self._bind(h, n, {}) is not None

    def _bind(self, h: FuncInfo, call: ast.Call, env: Env) -> Env | None:
        got = self.bind_ast(h, call)
        if got is None:
            return None
        return {n: self.ev(v, env if from_call else {}) for n, (v, from_call) in got.items()}

    @staticmethod
    def bind_ast(h: FuncInfo, call: ast.Call) -> dict[str, tuple[ast.AST, bool]] | None:
        """parameter -> (argument expression, written at the call site? (else: the default))."""
        a = h.node.args
        names = [x.arg for x in a.posonlyargs + a.args]
        static = any(isinstance(d, ast.Name) and d.id == "staticmethod" for d in h.node.decorator_list)
        if h.cls is not None and not static and names:
            names = names[1:]
        if any(not (isinstance(d, ast.Name) and d.id in ("staticmethod", "classmethod", "override"))
               for d in h.node.decorator_list):
            return None
        if a.vararg or a.kwarg or any(isinstance(x, ast.Starred) for x in call.args) \
                or any(k.arg is None for k in call.keywords) or len(call.args) > len(names):
            return None
        out: dict[str, tuple[ast.AST, bool]] = {}
        for n, v in zip(names, call.args):
            out[n] = (v, True)
        for k in call.keywords:
            if k.arg not in names + [x.arg for x in a.kwonlyargs]:
                return None
            out[k.arg] = (k.value, True)  # type: ignore[index]
        defaults: dict[str, ast.AST] = dict(zip(names[len(names) - len(a.defaults):], a.defaults))
        for x, d in zip(a.kwonlyargs, a.kw_defaults):
            if d is not None:
                defaults[x.arg] = d
        for n in names + [x.arg for x in a.kwonlyargs]:
            if n not in out:
                if n not in defaults:
                    return None
                out[n] = (defaults[n], False)
        return out

    # ------------------------------------------------------------------ preprocessing
    @staticmethod
    def _walk_expr(e: ast.AST) -> list[ast.AST]:
        """Sub-expressions evaluated as part of `e` (not lambda bodies / comprehensions)."""
        out = []
        stack = [e]
        while stack:
            cur = stack.pop()
            out.append(cur)
            if isinstance(cur, (ast.Lambda, ast.ListComp, ast.SetComp, ast.DictComp, ast.GeneratorExp)):
                continue
            stack.extend(reversed(list(ast.iter_child_nodes(cur))))
        return out

    @staticmethod
    def _swap(root: ast.AST, old: ast.AST, new: ast.AST) -> None:
        for n in ast.walk(root):
            for field, value in ast.iter_fields(n):
                if value is old:
                    setattr(n, field, new)
                elif isinstance(value, list):
                    for i, item in enumerate(value):
                        if item is old:
                            value[i] = new

    def _lift_calls(self, holder: ast.AST, root: ast.AST, whole_ok: bool) -> list[ast.stmt]:
        """Helper calls inside expression `root` (a field of `holder`) become temporaries."""
        pre: list[ast.stmt] = []
        while True:
            calls = [n for n in self._walk_expr(root) if self._is_helper_call(n) and not (whole_ok and n is root)]
            calls = [c for c in calls if not any(x is not c and self._is_helper_call(x) for x in self._walk_expr(c))]
            if not calls:
                return pre
            c = calls[0]
            self._tmp += 1
            name = f"__h{self._tmp}"
            tmp = ast.copy_location(ast.Name(id=name, ctx=ast.Load()), c)
            if c is root:
                for field, value in ast.iter_fields(holder):
                    if value is root:
                        setattr(holder, field, tmp)
                root = tmp
            else:
                self._swap(root, c, tmp)
            pre.append(ast.copy_location(ast.Assign(targets=[ast.Name(id=name, ctx=ast.Store())], value=c), c))

    def _lift_walrus(self, holder: ast.AST, field: str) -> list[ast.stmt]:
        """`(x := e)` inside the expression `holder.field` becomes `x = e` before the statement (analysis only:
        the bound expression is pure here, so evaluating it unconditionally changes nothing that is looked at)."""
        pre: list[ast.stmt] = []
        while True:
            root = getattr(holder, field)
            w = [n for n in self._walk_expr(root) if isinstance(n, ast.NamedExpr)]
            w = [n for n in w if not any(isinstance(x, ast.NamedExpr) and x is not n for x in self._walk_expr(n.value))]
            if not w:
                return pre
            n = w[0]
            name = ast.copy_location(ast.Name(id=n.target.id, ctx=ast.Load()), n)
            if n is root:
                setattr(holder, field, name)
            else:
                self._swap(root, n, name)
            pre.append(ast.copy_location(ast.Assign(targets=[ast.Name(id=n.target.id, ctx=ast.Store())], value=n.value), n))

    def prep(self, stmts: list[ast.stmt]) -> list[ast.stmt]:
        return self._prep(copy.deepcopy(stmts))

    def _prep(self, stmts: list[ast.stmt]) -> list[ast.stmt]:
        out: list[ast.stmt] = []
        fn = self.fn_stack[-1]
        for s in stmts:  # nested defs are known before the calls that follow them are looked at
            if isinstance(s, ast.FunctionDef) and not s.decorator_list:
                self.closures.setdefault((fn.qual, s.name), FuncInfo(s.name, fn.module, s, None, fn))
        for s in stmts:
            if isinstance(s, ast.Expr) and isinstance(s.value, ast.Constant):
                continue
            if isinstance(s, (ast.Assign, ast.AnnAssign, ast.AugAssign, ast.Return, ast.Expr)) and s.value is not None \
                    and any(isinstance(n, ast.NamedExpr) for n in self._walk_expr(s.value)):
                out.extend(self._prep(self._lift_walrus(s, "value") + [s]))
                continue
            if isinstance(s, ast.If) and isinstance(s.test, ast.BoolOp) and any(
                    isinstance(n, ast.NamedExpr) or self._is_helper_call(n) for v in s.test.values[1:] for n in self._walk_expr(v)):
                # short-circuit evaluation is kept: a later operand that binds a name or calls a helper is only
                # evaluated where the earlier operands let it be
                first, rest = s.test.values[0], s.test.values[1:]
                rest_test = rest[0] if len(rest) == 1 else ast.copy_location(ast.BoolOp(op=s.test.op, values=rest), s.test)
                inner = ast.copy_location(ast.If(test=rest_test, body=copy.deepcopy(s.body), orelse=copy.deepcopy(s.orelse)), s)
                if isinstance(s.test.op, ast.Or):
                    node = ast.copy_location(ast.If(test=first, body=s.body, orelse=[inner]), s)
                else:
                    node = ast.copy_location(ast.If(test=first, body=[inner], orelse=s.orelse), s)
                out.extend(self._prep([node]))
                continue
            if isinstance(s, (ast.If, ast.Assert)) and any(isinstance(n, ast.NamedExpr) for n in self._walk_expr(s.test)):
                out.extend(self._prep(self._lift_walrus(s, "test") + [s]))
                continue
            if isinstance(s, (ast.Assign, ast.AnnAssign, ast.AugAssign, ast.Return, ast.Expr)) and s.value is not None:
                ifx = [n for n in self._walk_expr(s.value) if isinstance(n, ast.IfExp)]
                if ifx:
                    idx = [i for i, n in enumerate(self._walk_expr(s.value)) if n is ifx[0]][0]
                    arms = []
                    for pick in ("body", "orelse"):
                        s2 = copy.deepcopy(s)
                        x = self._walk_expr(s2.value)[idx]
                        if x is s2.value:
                            s2.value = getattr(x, pick)
                        else:
                            self._swap(s2.value, x, getattr(x, pick))
                        arms.append(s2)
                    node = ast.copy_location(ast.If(test=copy.deepcopy(ifx[0].test), body=[arms[0]], orelse=[arms[1]]), s)
                    out.extend(self._prep([node]))
                    continue
                whole_ok = isinstance(s, (ast.Assign, ast.AnnAssign, ast.Expr))
                out.extend(self._lift_calls(s, s.value, whole_ok))
                out.append(s)
            elif isinstance(s, ast.If):
                out.extend(self._lift_calls(s, s.test, False))
                s.body = self._prep(s.body)
                s.orelse = self._prep(s.orelse)
                out.append(s)
            else:
                out.append(s)
        return out

    # ------------------------------------------------------------------ execution
    def run(self, stmts: list[ast.stmt], env: Env, facts: tuple[Fact, ...] = ()) -> list[Leaf]:
        leaves: list[Leaf] = []

        def fall(env2: Env, facts2: tuple[Fact, ...]) -> None:
            self._leaf(leaves, Leaf("fall", facts2, env2))

        def ctl(kind: str, val: Poly | None, env2: Env, facts2: tuple[Fact, ...], node: ast.AST) -> None:
            self._leaf(leaves, Leaf(kind, facts2, env2, val, node))

        self._block(self.prep(stmts), dict(env), facts, fall, ctl)
        return leaves

    def _leaf(self, leaves: list[Leaf], leaf: Leaf) -> None:
        self._n_leaves += 1
        if self._n_leaves > self.max_leaves:
            raise AnalysisError(f"{self.fn_stack[0].qual}: too many paths")
        leaves.append(leaf)

    def _block(self, stmts: list[ast.stmt], env: Env, facts: tuple[Fact, ...], k: Any, ctl: Any) -> None:
        if not stmts:
            k(env, facts)
            return
        rest = stmts[1:]
        self._stmt(stmts[0], env, facts, lambda e2, f2: self._block(rest, e2, f2, k, ctl), ctl)

    def _assign(self, s: ast.stmt, targets: list[ast.AST], value: ast.AST, env: Env, facts: tuple[Fact, ...],
                nxt: Any, ctl: Any) -> None:
        def bind(v: Poly, f2: tuple[Fact, ...]) -> None:
            env2 = dict(env)
            for t in targets:
                if isinstance(t, ast.Name):
                    env2[t.id] = v
                    continue
                st = self.parts(v, "tuple")
                if isinstance(t, (ast.Tuple, ast.List)) and all(isinstance(x, ast.Name) for x in t.elts) \
                        and st is not None and len(st[1]) == len(t.elts):
                    for x, xv in zip(t.elts, st[1]):
                        env2[x.id] = xv  # type: ignore[attr-defined]
                    continue
                param = self._rooted(self.ev(t.value, env)) if isinstance(t, (ast.Subscript, ast.Attribute)) else None
                if param is not None:
                    self._mutated(param, s, f2)
                    continue
                raise AnalysisError(f"{self.fn_stack[-1].qual}: unsupported assignment `{u(s)[:80]}`")
            nxt(env2, f2)

        if isinstance(value, ast.Call) and self._is_helper_call(value):
            self._run_helper(value, env, facts, bind, ctl)
        else:
            bind(self.ev(value, env), facts)

    def _run_helper(self, call: ast.Call, env: Env, facts: tuple[Fact, ...], on_value: Any, ctl: Any) -> None:
        h = self._helper(call)
        assert h is not None
        self.used.add(h.qual)
        henv = self._bind(h, call, env)
        assert henv is not None
        if h.outer is not None:  # closure: free variables are the caller's
            henv = {**env, **henv}
        self.fn_stack.append(h)
        try:
            body = self.prep(list(h.node.body))
        finally:
            self.fn_stack.pop()

        def hctl(kind: str, val: Poly | None, _e: Env, f2: tuple[Fact, ...], node: ast.AST) -> None:
            if kind == "return":
                self._outside(h, lambda: on_value(val if val is not None else NONE, f2))
            elif kind in ("raise", "escape"):
                self._outside(h, lambda: ctl(kind, None, env, f2, node))
            else:
                raise AnalysisError(f"{h.qual}: `{kind}` outside a loop")

        self.fn_stack.append(h)
        try:
            self._block(body, henv, facts, lambda _e, f2: self._outside(h, lambda: on_value(NONE, f2)), hctl)
        finally:
            self.fn_stack.pop()

    def _outside(self, h: FuncInfo, thunk: Callable[[], None]) -> None:
        """Run the caller's continuation with the caller on top of the function stack."""
        assert self.fn_stack[-1] is h
        self.fn_stack.pop()
        try:
            thunk()
        finally:
            self.fn_stack.append(h)

    def _loop(self, s: ast.For, env: Env, facts: tuple[Fact, ...], nxt: Any, ctl: Any) -> None:
        """A `for` loop is summarised, not unrolled: every path of ONE iteration is executed from a state
        in which each name the body assigns holds an unknown carried value `name@0`; after the loop those
        names hold `name@loop`.  The record is kept in `self.loops` for the caller's rules.  Works in
        whichever function (the analysed one or a helper executed in line) the loop lives."""
        fn = self.fn_stack[-1]
        if self._in_loop:
            raise AnalysisError(f"{fn.qual}: nested loop")
        loop = s
        for _ in range(3):  # a loop over a private generator is read together with the generator's loop
            fused = fuse_generator_loop(self, loop)
            if fused is loop:
                break
            loop = fused
        if s.orelse or loop.orelse or not isinstance(loop.target, ast.Name):
            raise AnalysisError(f"{fn.qual}: unsupported loop shape `{u(s).splitlines()[0][:60]}`")
        assigned = sorted({n.id for b in loop.body for n in ast.walk(b)
                           if isinstance(n, ast.Name) and isinstance(n.ctx, (ast.Store, ast.Del))})
        if loop.target.id in assigned:
            raise AnalysisError(f"{fn.qual}: loop variable rebound in the loop")
        colls: dict[str, str] = {}
        for b in loop.body:
            for n in ast.walk(b):
                if isinstance(n, ast.Expr) and isinstance(n.value, ast.Call) and isinstance(n.value.func, ast.Attribute) \
                        and isinstance(n.value.func.value, ast.Name) and n.value.func.attr in COLLECT \
                        and self._empty_coll(env.get(n.value.func.value.id)) == COLLECT[n.value.func.attr]:
                    colls[n.value.func.value.id] = COLLECT[n.value.func.attr]
        assigned = sorted(set(assigned) | set(colls))
        it: ast.AST = loop.iter
        while isinstance(it, ast.Call) and u(it.func) in SEQ_WRAPPERS and len(it.args) == 1 and not it.keywords:
            it = it.args[0]
        iter_term = repr(self.ev(it, env))
        env0 = dict(env)
        for v in assigned:
            env0[v] = Poly.atom(f"{v}@0")
        env0[loop.target.id] = Poly.atom(self.item_atom)
        leaves: list[Leaf] = []
        self._in_loop, self._colls, self._coll_fn = True, colls, fn
        try:
            self._block(self.prep(list(loop.body)), env0, (),
                        lambda e2, f2: self._leaf(leaves, Leaf("fall", f2, e2)),
                        lambda kind, val, e2, f2, node: self._leaf(leaves, Leaf(kind, f2, e2, val, node)))
        finally:
            self._in_loop, self._colls, self._coll_fn = False, {}, None
        self.loops.append(LoopRecord(loop, s, fn, dict(env), facts, iter_term, assigned, leaves, colls))
        env1 = dict(env)
        for v in assigned + [loop.target.id]:
            env1[v] = Poly.atom(f"{v}@loop")
        nxt(env1, facts)

    def _stmt(self, s: ast.stmt, env: Env, facts: tuple[Fact, ...], nxt: Any, ctl: Any) -> None:  # noqa: C901
        if isinstance(s, ast.Try):
            return self._try(s, env, facts, nxt, ctl)
        if self._handlers:
            if isinstance(s, ast.Raise):
                raise AnalysisError(f"{self.fn_stack[-1].qual}: `raise` inside a `try` (shape not read)")
            guarded = self._guard_lookups(s, env, facts, ctl)
            if guarded is None:
                return None
            facts = guarded
        if isinstance(s, ast.Pass):
            return nxt(env, facts)
        if isinstance(s, ast.FunctionDef) and not s.decorator_list:
            # a nested closure: executed in line where it is called, seeing the caller's variables
            fn = self.fn_stack[-1]
            self.closures.setdefault((fn.qual, s.name), FuncInfo(s.name, fn.module, s, None, fn))
            env2 = dict(env)
            env2.pop(s.name, None)
            return nxt(env2, facts)
        if isinstance(s, ast.Expr):
            if isinstance(s.value, ast.Constant) or (isinstance(s.value, ast.Call) and is_logging_call(s.value)):
                return nxt(env, facts)
            if isinstance(s.value, ast.Call) and self._is_helper_call(s.value):
                # a private helper called for its effect: its body must itself be executable here (bindings,
                # branches, logging), so it has no effect on the state the rules look at; its paths count
                return self._run_helper(s.value, env, facts, lambda _v, f2: nxt(env, f2), ctl)
            c = s.value
            if isinstance(c, ast.Call) and isinstance(c.func, ast.Attribute) and not c.keywords \
                    and not any(isinstance(a, ast.Starred) for a in c.args):
                if isinstance(c.func.value, ast.Name) and c.func.value.id in self._colls and c.func.attr in COLLECT \
                        and self.fn_stack[-1] is self._coll_fn and len(c.args) == 1 \
                        and COLLECT[c.func.attr] == self._colls[c.func.value.id]:
                    # one more contribution collected by this iteration
                    name = c.func.value.id
                    old, elem = env[name], self.ev(c.args[0], env)
                    env2 = dict(env)
                    env2[name] = self.mk(f"push({old!r}, {elem!r})", ("push", old, elem, s))
                    return nxt(env2, facts)
                param = self._rooted(self.ev(c.func.value, env)) if c.func.attr in INPLACE else None
                if param is not None:
                    self._mutated(param, s, facts)
                    return nxt(env, facts)
            raise AnalysisError(f"{self.fn_stack[-1].qual}: unsupported expression statement `{u(s)[:80]}`")
        if isinstance(s, ast.Assign):
            return self._assign(s, list(s.targets), s.value, env, facts, nxt, ctl)
        if isinstance(s, ast.AnnAssign):
            if s.value is None:
                return nxt(env, facts)
            return self._assign(s, [s.target], s.value, env, facts, nxt, ctl)
        if isinstance(s, ast.AugAssign):
            param = self._rooted(self.ev(s.target, env)) if isinstance(s.target, (ast.Name, ast.Subscript, ast.Attribute)) else None
            if param is not None and (not isinstance(s.target, ast.Name)
                                      or isinstance(s.op, (ast.BitAnd, ast.BitOr, ast.BitXor, ast.Sub))):
                self._mutated(param, s, facts)  # `p &= …` works in place on a set; `p[k] += …` stores into p
                return nxt(env, facts)
            if not isinstance(s.target, ast.Name):
                raise AnalysisError(f"{self.fn_stack[-1].qual}: unsupported augmented assignment `{u(s)[:80]}`")
            val = self.ev(ast.BinOp(left=ast.Name(id=s.target.id, ctx=ast.Load()), op=s.op, right=s.value), env)
            env2 = dict(env)
            env2[s.target.id] = val
            return nxt(env2, facts)
        if isinstance(s, ast.If):
            c = self.cond(s.test, env)
            for branch, cc in ((s.body, c), (s.orelse, cneg(c))):
                fs = facts_of(cc)
                if ("const", False) in fs:
                    continue  # infeasible
                fs = tuple(f for f in fs if f != ("const", True) and f not in facts)
                self._block(branch, env, facts + fs, nxt, ctl)
            return None
        if isinstance(s, ast.Return):
            return ctl("return", self.ev(s.value, env) if s.value is not None else NONE, env, facts, s)
        if isinstance(s, ast.Continue):
            return ctl("continue", None, env, facts, s)
        if isinstance(s, ast.Break):
            return ctl("break", None, env, facts, s)
        if isinstance(s, ast.Raise):
            return ctl("raise", None, env, facts, s)
        if isinstance(s, ast.Assert):
            # the passing side learns the asserted facts; the failing side raises (unless already known to hold)
            c = self.cond(s.test, env)
            fs = facts_of(c)
            if ("const", False) not in fs:
                self._block([], env, facts + tuple(f for f in fs if f != ("const", True) and f not in facts), nxt, ctl)
            if not all(f == ("const", True) or f in facts for f in fs):
                ctl("raise", None, env, facts + facts_of(cneg(c)), s)
            return None
        if isinstance(s, ast.For):
            return self._loop(s, env, facts, nxt, ctl)
        if isinstance(s, ast.Delete) and all(isinstance(t, (ast.Subscript, ast.Attribute)) for t in s.targets):
            params = [self._rooted(self.ev(t.value, env)) for t in s.targets]  # type: ignore[attr-defined]
            if all(p is not None for p in params):
                self._mutated(str(params[0]), s, facts)
                return nxt(env, facts)
        raise AnalysisError(f"{self.fn_stack[-1].qual}: unsupported statement `{u(s)[:60]}` "
                            f"({type(s).__name__})")


MUTATORS = ("pop", "popitem", "clear", "update", "setdefault", "__setitem__", "__delitem__", "add", "discard", "remove",
            "append", "extend", "insert")


class EffectExec(SymExec):
    """SymExec for code that acts on object state: statements executed for their effect are kept, in
    execution order, among the facts of the path instead of being refused —

      ("store", container, key, value)      `container[key] = value`
      ("effect", "recv.method", recv, args) `recv.method(args…)` as a statement (any other call: recv None)

    and a container is *versioned*: once a path has stored into it / called a mutating method on it, later
    reads through it (`c[k]`, `c.get(k)`, `c.attr`) are written `c@n…`, so a value read before the store and a
    value read after it are different terms whatever local names carry them (a comparison against the
    entry that was just overwritten is not a comparison against the old entry)."""

    _cur: tuple[Fact, ...] = ()

    def mutations(self, name: str, facts: tuple[Fact, ...] | None = None) -> int:
        fs = self._cur if facts is None else facts
        return sum(1 for f in fs if isinstance(f, tuple) and f and (
            (f[0] == "store" and f[1] == name)
            or (f[0] == "effect" and f[2] == name and f[1].rsplit(".", 1)[-1] in MUTATORS)))

    def _name_of(self, base: Poly) -> str:
        a = super()._name_of(base)
        n = self.mutations(a)
        return f"{a}@{n}" if n else a

    def cond(self, e: ast.AST, env: Env) -> Fact:
        """A helper's `return True` / `return False` tested by the caller decides the branch."""
        c = super().cond(e, env)
        if isinstance(c, tuple) and len(c) == 2 and c[0] in ("truthy", "falsy") and c[1] in ("True", "False"):
            return ("const", (c[0] == "truthy") == (c[1] == "True"))
        if isinstance(c, tuple) and len(c) == 2 and c[0] in ("truthy", "falsy") and c[1] == "None":
            return ("const", c[0] == "falsy")
        return c

    def _stmt(self, s: ast.stmt, env: Env, facts: tuple[Fact, ...], nxt: Any, ctl: Any) -> None:
        if self._handlers and not isinstance(s, (ast.Try, ast.Raise)):
            guarded = self._guard_lookups(s, env, facts, ctl)
            if guarded is None:
                return None
            facts = guarded
        self._cur = facts  # every evaluation of a statement happens before its continuation runs
        if isinstance(s, ast.Expr) and isinstance(s.value, ast.Call) and not is_logging_call(s.value) \
                and not self._is_helper_call(s.value):
            c = s.value
            if any(isinstance(a, ast.Starred) for a in c.args) or any(k.arg is None for k in c.keywords):
                raise AnalysisError(f"{self.fn_stack[-1].qual}: unsupported expression statement `{u(s)[:80]}`")
            args = tuple(repr(self.ev(a, env)) for a in c.args) + tuple(
                f"{k.arg}={self.ev(k.value, env)!r}" for k in c.keywords)
            if isinstance(c.func, ast.Attribute):
                recv = SymExec._name_of(self, self.ev(c.func.value, env))
                return nxt(env, facts + (("effect", f"{recv}.{c.func.attr}", recv, args),))
            return nxt(env, facts + (("effect", u(c.func), None, args),))
        if isinstance(s, ast.Assign) and len(s.targets) == 1 and isinstance(s.targets[0], ast.Subscript) \
                and not isinstance(s.targets[0].slice, ast.Slice):
            t = s.targets[0]
            base = SymExec._name_of(self, self.ev(t.value, env))
            key = repr(self.ev(t.slice, env))

            def stored(v: Poly, f2: tuple[Fact, ...]) -> None:
                nxt(env, f2 + (("store", base, key, repr(v)),))

            if isinstance(s.value, ast.Call) and self._is_helper_call(s.value):
                return self._run_helper(s.value, env, facts, stored, ctl)
            return stored(self.ev(s.value, env), facts)
        return super()._stmt(s, env, facts, nxt, ctl)


def fmt(c: Fact) -> str:
    """Deterministic text of a canonical condition."""
    if isinstance(c, tuple) and c and c[0] in ("and", "or"):
        return f"{c[0]}(" + ", ".join(sorted(fmt(k) for k in c[1])) + ")"
    if isinstance(c, tuple) and len(c) == 2 and isinstance(c[1], frozenset):
        return f"{c[0]}(" + ", ".join(sorted(map(str, c[1]))) + ")"
    if isinstance(c, tuple):
        return f"{c[0]}(" + ", ".join(map(str, c[1:])) + ")"
    return str(c)


def interval(sym: SymExec, p: Poly) -> tuple[Any, Any, Poly | None]:
    """(lo, hi, core): `p` == core clamped to [lo, hi] by a nest of min / max with constants
    (None = unbounded on that side; core None = p is the constant lo == hi)."""
    c = p.const_value()
    if c is not None:
        return c, c, None
    st = sym.parts(p)
    if st is not None and st[0] in ("min", "max"):
        consts = [x.const_value() for x in st[1] if x.const_value() is not None]
        others = [x for x in st[1] if x.const_value() is None]
        if len(others) == 1 and consts:
            lo, hi, core = interval(sym, others[0])
            if st[0] == "max":
                k = max(consts)
                lo = k if lo is None else max(lo, k)
                hi = None if hi is None else max(hi, k)
            else:
                k = min(consts)
                hi = k if hi is None else min(hi, k)
                lo = None if lo is None else min(lo, k)
            return lo, hi, core
    return None, None, p


def div_atom(p: Poly, a: str) -> Poly | None:
    """p / a for an atom a dividing every monomial of p (else None)."""
    out: dict[Any, Any] = {}
    for m, c in p.terms.items():
        d = dict(m)
        if d.get(a, 0) < 1:
            return None
        d[a] -= 1
        m2 = tuple(sorted((n, e) for n, e in d.items() if e != 0))
        out[m2] = out.get(m2, 0) + c
    return Poly(out)


def div_linear(p: Poly, x: str, r: Poly) -> Poly | None:
    """p / (x − r) by synthetic division in the atom x (r free of x); None unless exact."""
    coeffs: dict[int, Poly] = {}
    for m, c in p.terms.items():
        d = dict(m)
        k = d.pop(x, 0)
        if k < 0:
            return None
        coeffs[k] = coeffs.get(k, Poly()) + Poly({tuple(sorted(d.items())): c})
    q, carry = Poly(), Poly()
    for k in range(max(coeffs, default=0), 0, -1):
        carry = coeffs.get(k, Poly()) + r * carry
        q = q + carry * (Poly({((x, k - 1),): 1}) if k > 1 else Poly.const(1))  # type: ignore[dict-item]
    rem = coeffs.get(0, Poly()) + r * carry
    return q if rem.is_zero() else None


class _SubstNames(ast.NodeTransformer):
    def __init__(self, mapping: dict[str, ast.AST], rename: dict[str, str]) -> None:
        self.mapping, self.rename = mapping, rename

    def visit_Name(self, node: ast.Name) -> ast.AST:  # noqa: N802
        if node.id in self.mapping and isinstance(node.ctx, ast.Load):
            return ast.copy_location(copy.deepcopy(self.mapping[node.id]), node)
        if node.id in self.rename:
            node.id = self.rename[node.id]
        return node


def fuse_generator_loop(sym: SymExec, loop: ast.For) -> ast.For:
    """`for T in _gen(args): BODY` where the private helper `_gen` is a generator whose body is one
    loop with every `yield E` in tail position of an iteration  ->  the generator's loop with
    `T = E; BODY` in place of each `yield E` (what the two coroutines do together, turn by turn; a
    `continue` of BODY resumes the generator after the yield, i.e. at the end of its iteration).
    Any other generator shape raises AnalysisError; a loop over anything else is returned as is."""
    call = loop.iter
    if not isinstance(call, ast.Call):
        return loop
    h = sym._helper(call)
    if h is None or not any(isinstance(n, (ast.Yield, ast.YieldFrom)) for s in h.node.body for n in ast.walk(s)):
        return loop
    body = [s for s in h.node.body if not (isinstance(s, ast.Expr) and isinstance(s.value, ast.Constant))]
    binds = sym.bind_ast(h, call)
    if len(body) != 1 or not isinstance(body[0], ast.For) or body[0].orelse or binds is None or h.is_async:
        raise AnalysisError(f"{h.qual}: unsupported generator shape")
    g: ast.For = copy.deepcopy(body[0])
    stored = {n.id for n in ast.walk(g) if isinstance(n, ast.Name) and isinstance(n.ctx, (ast.Store, ast.Del))}
    if stored & set(binds):
        raise AnalysisError(f"{h.qual}: a parameter is rebound in the generator")
    tag = h.name.strip("_")
    g = _SubstNames({k: v for k, (v, _c) in binds.items()}, {n: f"{n}__{tag}" for n in stored}).visit(g)

    def weave(suite: list[ast.stmt], tail: bool) -> list[ast.stmt]:
        out: list[ast.stmt] = []
        for i, s in enumerate(suite):
            last = tail and i == len(suite) - 1
            if isinstance(s, ast.Expr) and isinstance(s.value, ast.Yield):
                if not last or s.value.value is None:
                    raise AnalysisError(f"{h.qual}: `yield` is not the last action of an iteration")
                out.append(ast.copy_location(ast.Assign(targets=[copy.deepcopy(loop.target)], value=s.value.value), s))
                out.extend(copy.deepcopy(loop.body))
            elif isinstance(s, ast.If) and not any(isinstance(n, (ast.Yield, ast.YieldFrom)) for n in ast.walk(s.test)):
                s.body = weave(s.body, last)
                s.orelse = weave(s.orelse, last) if s.orelse else []
                out.append(s)
            elif any(isinstance(n, (ast.Yield, ast.YieldFrom)) for n in ast.walk(s)) or (
                    isinstance(s, (ast.Return, ast.Break)) and not last):
                raise AnalysisError(f"{h.qual}: unsupported generator shape (`{u(s)[:50]}`)")
            else:
                out.append(s)
        return out

    sym.used.add(h.qual)
    g.body = weave(g.body, True)
    ast.copy_location(g, loop)
    ast.fix_missing_locations(g)
    return g
