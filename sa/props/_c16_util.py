"""Path summaries of small loop-free functions by symbolic execution of the AST (C16 helper).

`Exec(prog, fn).run(...)` enumerates every path through a function body (or through a given suite,
e.g. the body of a select loop) and returns one `PathSum` per path:

  facts    truth value of every *atomic* condition decided on the path.  Conditions are split into
           atoms along Python's short-circuit order (`a and b`, `not`, ternaries, De Morgan forms and
           nested ifs / early returns all give the same atoms); an atom that is already decided on the
           path is not forked again, so the enumeration is path-sensitive.
           Atom keys are canonical:  `a < b`, `b > a`, `not a >= b` and `0 < b - a` are the same atom
           ('lt0', normal form of a-b) with the same truth value (operands are taken to be totally
           ordered: datetimes, timedeltas, ints); `x is None` / `x is not None`, `==` / `!=` (operand
           order irrelevant), `in` / `not in` differ only in polarity; anything else is ('truthy', text).
  events   in program order: ('cond', key, value), ('call', text, Call), ('write', target, value).
  exit     'return' | 'fall' | 'continue' | 'break' | 'raise';   value: the returned expression
           (boolean-mode returns are evaluated to the constants True / False per path).

Names are eliminated, not matched: every local is replaced by the (resolved) expression that was
assigned to it on *this* path, attributes written on the path are replaced by the value written
(strong update; forgotten at calls that may have effects), parameters are bound to caller-chosen
canonical names, comprehension variables are alpha-renamed, `datetime.now(tz=timezone.utc)` is the
atom NOW, arithmetic operands are compared in polynomial normal form (sa.engine.terms), and calls
of private functions of the same class / module are *executed* in line, by value (arguments are the
expressions as they stand at the call, several returns / tuple results / whole-object parameters
included; with `inline_all` also the functions other checkers anchor by name), wherever the call
stands in an expression.  A textual splice (parameter := argument text) is NOT used: it would move
reads of `self.x` behind the helper's own writes of `self.x`.  A call that may have effects forgets
what is known about the receiver's and the arguments' attributes.  `a, b = <tuple>` is element-wise;
a loop over a display of known elements is its body per element, `any/all` over such a display the
corresponding `or/and`; a search loop (`for v in it: if c(v): return r` / `x = k; break`) is
`if any(c(v) for v in it): ...`; an `if` that only logs is skipped; an equality with one constant
decides the equalities with the other constants.  So introduced / inlined / renamed locals and
helpers, flipped comparisons, if/else vs early-return shapes and loop vs any/all all yield the same
summaries.  Constructs the executor does not model (other loops, try, with, ...) raise
`Unsupported`: callers fail closed.
"""
from __future__ import annotations

import ast
import copy
from dataclasses import dataclass, field
from typing import Any, Callable, Iterable

from ..engine.normalize import ANCHOR_NAMES
from ..engine.resolver import FuncInfo, Program
from ..engine.terms import Poly, TermEval


class Unsupported(Exception):
    """A construct outside the modelled fragment."""


def u(node: ast.AST | None) -> str:
    return "" if node is None else " ".join(ast.unparse(node).split())


# ------------------------------------------------------------------------------------- terms
def _is_utc_now(e: ast.AST) -> bool:
    if not (isinstance(e, ast.Call) and u(e.func) in ("datetime.now", "datetime.datetime.now")):
        return False
    args = [u(a) for a in e.args] + [u(k.value) for k in e.keywords if k.arg == "tz"]
    return len(args) == 1 and len(e.args) + len(e.keywords) == 1 and args[0] in (
        "timezone.utc", "datetime.timezone.utc", "UTC", "datetime.UTC")


class _Canon(ast.NodeTransformer):
    """NOW for the utc wall clock inside opaque texts."""

    def visit_Call(self, node: ast.Call) -> ast.AST:  # noqa: N802
        if _is_utc_now(node):
            return ast.Name(id="NOW", ctx=ast.Load())
        return self.generic_visit(node)


def text(e: ast.AST | None) -> str:
    """Canonical text of a resolved expression."""
    if e is None:
        return ""
    cached = getattr(e, "_text", None)
    if cached is None:
        if any(isinstance(n, ast.Call) and _is_utc_now(n) for n in ast.walk(e)):
            cached = u(_Canon().visit(copy.deepcopy(e)))
        else:
            cached = u(e)
        try:
            e._text = cached  # type: ignore[attr-defined]  (resolved expressions are never edited in place)
        except AttributeError:
            pass
    return cached


def _editable_copy(e: ast.AST) -> ast.AST:
    """Deep copy that may be edited: cached canonical texts are dropped."""
    new = copy.deepcopy(e)
    for n in ast.walk(new):
        if hasattr(n, "_text"):
            del n._text  # type: ignore[attr-defined]
    return new


def _now_hook(e: ast.AST, _te: TermEval) -> Poly | None:
    if _is_utc_now(e):
        return Poly.atom("NOW")
    if isinstance(e, (ast.Call, ast.Attribute, ast.Subscript)):
        return Poly.atom(text(e)) if not (isinstance(e, ast.Call) and u(e.func) in ("min", "max")) else None
    return None


def poly(e: ast.AST) -> Poly:
    """Polynomial normal form of an (already resolved) expression."""
    return TermEval(atom_hook=_now_hook).ev(e)


def pkey(e: ast.AST) -> str:
    return repr(poly(e))


def parse_expr(src: str) -> ast.AST:
    return ast.parse(src, mode="eval").body


# ------------------------------------------------------------------------------------- atoms
@dataclass
class Atom:
    key: tuple
    kind: str  # 'lt0' | 'is' | 'eq' | 'in' | 'truthy'
    ops: tuple[ast.AST, ...]

    def show(self) -> str:
        if self.kind == "lt0":
            return f"{text(self.ops[0])} < {text(self.ops[1])}"
        if self.kind == "is":
            return f"{text(self.ops[0])} is {text(self.ops[1])}"
        if self.kind == "eq":
            return f"{text(self.ops[0])} == {text(self.ops[1])}"
        if self.kind == "in":
            return f"{text(self.ops[0])} in {text(self.ops[1])}"
        return text(self.ops[0])


def lt_key(a: ast.AST | str, b: ast.AST | str) -> tuple:
    """Key of the atom `a < b`."""
    pa = poly(parse_expr(a) if isinstance(a, str) else a)
    pb = poly(parse_expr(b) if isinstance(b, str) else b)
    return ("lt0", repr(pa - pb))


def is_key(a: str, b: str = "None") -> tuple:
    return ("is", frozenset((pkey(parse_expr(a)), pkey(parse_expr(b)))))


def eq_key(a: str, b: str) -> tuple:
    return ("eq", frozenset((pkey(parse_expr(a)), pkey(parse_expr(b)))))


def in_key(a: str, b: str) -> tuple:
    return ("in", pkey(parse_expr(a)), pkey(parse_expr(b)))


def truthy_key(a: str) -> tuple:
    return ("truthy", text(parse_expr(a)))


def _cmp_atom(left: ast.AST, op: ast.cmpop, right: ast.AST) -> tuple[Atom | None, bool]:
    """(atom, polarity): the comparison holds iff the atom has truth value `polarity`.
    atom None: the comparison is decided (`x is x`)."""
    if isinstance(op, (ast.Lt, ast.Gt, ast.LtE, ast.GtE)):
        a, b = (left, right) if isinstance(op, (ast.Lt, ast.GtE)) else (right, left)
        # Lt: a<b ; Gt: right<left ; GtE: not (left<right) ; LtE: not (right<left)
        pol = isinstance(op, (ast.Lt, ast.Gt))
        d = poly(a) - poly(b)
        if d.is_zero():
            return None, not pol  # a < a is false; a <= a is true
        return Atom(("lt0", repr(d)), "lt0", (a, b)), pol
    ka, kb = pkey(left), pkey(right)
    if isinstance(op, (ast.Is, ast.IsNot)) and (_const_like(left) or _const_like(right)):
        # identity with an enum member / module constant is equality with it (members are singletons)
        op = ast.Eq() if isinstance(op, ast.Is) else ast.NotEq()
    if isinstance(op, (ast.Is, ast.IsNot)):
        pol = isinstance(op, ast.Is)
        if ka == kb:
            return None, pol
        return Atom(("is", frozenset((ka, kb))), "is", (left, right)), pol
    if isinstance(op, (ast.Eq, ast.NotEq)):
        pol = isinstance(op, ast.Eq)
        if ka == kb:
            return None, pol
        return Atom(("eq", frozenset((ka, kb))), "eq", (left, right)), pol
    if isinstance(op, (ast.In, ast.NotIn)):
        return Atom(("in", ka, kb), "in", (left, right)), isinstance(op, ast.In)
    raise Unsupported(f"comparison operator {type(op).__name__}")


def _const_like(e: ast.AST) -> bool:
    """`Enum.MEMBER` / `mod.Enum.MEMBER`: a dotted name whose last component is upper case."""
    return isinstance(e, ast.Attribute) and e.attr.isupper() and all(
        isinstance(n, (ast.Attribute, ast.Name, ast.Load)) for n in ast.walk(e))


def _forced(atom: Atom, st: "State") -> bool | None:
    """Outcome of an equality / identity atom that earlier outcomes on the path already determine:
    an expression equal to one constant is different from every other constant, and a constant is not None."""
    if atom.kind not in ("eq", "is"):
        return None
    a, b = atom.ops
    if _const_like(b):
        a, b = b, a
    if not _const_like(a):
        return None
    if isinstance(b, ast.Constant) and b.value is None:
        return False
    if _const_like(b):
        return None if text(a) == text(b) else False
    kb = pkey(b)
    for key, val in st.facts.items():
        if val and key[0] in ("eq", "is") and key != atom.key and kb in key[1]:
            other = st.atoms[key]
            oc = [o for o in other.ops if _const_like(o)]
            if len(oc) == 1 and text(oc[0]) != text(a) and pkey([o for o in other.ops if o is not oc[0]][0]) == kb:
                return False
    return None


# ------------------------------------------------------------------------------------- state
_PURE_NAMES = {"min", "max", "len", "abs", "str", "int", "float", "bool", "next", "any", "all", "isinstance",
               "sorted", "sum", "timedelta", "repr", "tuple", "list", "set", "frozenset", "iter", "id", "type",
               "datetime.now", "datetime.datetime.now", "math.isnan", "math.isinf", "isnan", "selected_from"}
_PURE_METHODS = {"intersection", "union", "difference", "isnan", "isinf", "total_seconds", "get", "keys",
                 "values", "items", "copy", "isoformat"}


def _is_pure_call(c: ast.Call) -> bool:
    name = u(c.func)
    if name in _PURE_NAMES or name.split(".")[0] in ("_logger", "logging", "_log"):
        return True
    return isinstance(c.func, ast.Attribute) and c.func.attr in _PURE_METHODS


@dataclass
class State:
    locals: dict[str, ast.AST] = field(default_factory=dict)
    attrs: dict[str, ast.AST] = field(default_factory=dict)
    facts: dict[tuple, bool] = field(default_factory=dict)
    atoms: dict[tuple, Atom] = field(default_factory=dict)
    events: list[tuple] = field(default_factory=list)
    havoc: int = 0

    def fork(self) -> "State":
        return State(dict(self.locals), dict(self.attrs), dict(self.facts), self.atoms, list(self.events), self.havoc)


@dataclass
class PathSum:
    state: State
    exit: str
    value: ast.AST | None = None

    # ---------------------------------------------------------------- queries
    @property
    def facts(self) -> dict[tuple, bool]:
        return self.state.facts

    @property
    def events(self) -> list[tuple]:
        return self.state.events

    def fact(self, key: tuple) -> bool | None:
        return self.state.facts.get(key)

    def calls(self, pred: Callable[[ast.Call], bool]) -> list[tuple[int, ast.Call]]:
        return [(i, e[2]) for i, e in enumerate(self.state.events) if e[0] == "call" and pred(e[2])]

    def call_texts(self, txt: str) -> list[int]:
        return [i for i, e in enumerate(self.state.events) if e[0] == "call" and e[1] == txt]

    def writes(self, target: str) -> list[tuple[int, ast.AST]]:
        return [(i, e[2]) for i, e in enumerate(self.state.events) if e[0] == "write" and e[1] == target]

    def writes_where(self, pred: Callable[[str], bool]) -> list[tuple[int, str, ast.AST]]:
        return [(i, e[1], e[2]) for i, e in enumerate(self.state.events) if e[0] == "write" and pred(e[1])]

    def last_write(self, target: str) -> ast.AST | None:
        w = self.writes(target)
        return w[-1][1] if w else None

    def const(self) -> Any:
        """Returned constant (True/False/None) or the marker `...` if the value is not a constant."""
        if self.value is None:
            return None
        if isinstance(self.value, ast.Constant):
            return self.value.value
        return ...

    def atoms_where(self, pred: Callable[[Atom], bool]) -> list[tuple[Atom, bool]]:
        return [(self.state.atoms[k], v) for k, v in self.state.facts.items() if pred(self.state.atoms[k])]

    def describe(self) -> list[str]:
        out = []
        for e in self.state.events:
            if e[0] == "cond":
                out.append(f"[{'T' if e[2] else 'F'}] {self.state.atoms[e[1]].show()}")
            elif e[0] == "write":
                out.append(f"{e[1]} = {text(e[2])}")
            elif e[0] == "call" and not e[1].startswith("_logger."):
                out.append(f"call {e[1]}")
            elif e[0] == "loop":
                out.append(f"<loop at {e[1]}, stepped over>")
        tail = self.exit + (f" {text(self.value)}" if self.value is not None else "")
        return out + [tail]


# ------------------------------------------------------------------------------------- resolution
class _Resolver(ast.NodeTransformer):
    def __init__(self, st: State, bound: frozenset[str] = frozenset(), depth: int = 0) -> None:
        self.st = st
        self.bound = bound
        self.depth = depth

    def _mark(self, new: ast.AST) -> ast.AST:
        new = copy.deepcopy(new)
        new._from_env = True  # type: ignore[attr-defined]
        return new

    def visit_Name(self, node: ast.Name) -> ast.AST:  # noqa: N802
        if isinstance(node.ctx, ast.Load) and node.id not in self.bound and node.id in self.st.locals:
            return self._mark(self.st.locals[node.id])
        return node

    def visit_Attribute(self, node: ast.Attribute) -> ast.AST:  # noqa: N802
        if isinstance(node.ctx, ast.Load) and self.st.attrs:
            t = u(node)
            if t in self.st.attrs and not (set(_root_names(node)) & self.bound):
                return self._mark(self.st.attrs[t])
        node = self.generic_visit(node)  # type: ignore[assignment]
        if isinstance(node.ctx, ast.Load) and self.st.attrs:
            t = u(node)  # the base was a local standing for an object (`stream` -> `self._battery`): look again
            if t in self.st.attrs and not (set(_root_names(node)) & self.bound):
                return self._mark(self.st.attrs[t])
        return node

    def visit_Lambda(self, node: ast.Lambda) -> ast.AST:  # noqa: N802
        a = node.args
        names = {x.arg for x in a.posonlyargs + a.args + a.kwonlyargs}
        node.body = _Resolver(self.st, self.bound | names, self.depth).visit(node.body)
        return node

    def _comp(self, node: Any) -> ast.AST:
        targets: list[str] = []
        for g in node.generators:
            for n in ast.walk(g.target):
                if isinstance(n, ast.Name) and n.id not in targets:
                    targets.append(n.id)
        ren = {t: f"_c{self.depth}_{i}" for i, t in enumerate(targets)}
        for n in ast.walk(node):
            if isinstance(n, ast.Name) and n.id in ren:
                n.id = ren[n.id]
        inner = _Resolver(self.st, self.bound | frozenset(ren.values()), self.depth + 1)
        for field_name, value in ast.iter_fields(node):
            if isinstance(value, list):
                setattr(node, field_name, [inner.visit(v) if isinstance(v, ast.AST) else v for v in value])
            elif isinstance(value, ast.AST):
                setattr(node, field_name, inner.visit(value))
        return node

    visit_GeneratorExp = visit_ListComp = visit_SetComp = visit_DictComp = _comp  # noqa: N815

    def visit_comprehension(self, node: ast.comprehension) -> ast.AST:  # noqa: N802
        return self.generic_visit(node)

    def visit_NamedExpr(self, node: ast.NamedExpr) -> ast.AST:  # noqa: N802
        raise Unsupported("assignment expression")


def _root_names(e: ast.AST) -> list[str]:
    while isinstance(e, (ast.Attribute, ast.Subscript)):
        e = e.value
    return [e.id] if isinstance(e, ast.Name) else []


def resolve(e: ast.AST, st: State) -> ast.AST:
    return _Resolver(st).visit(copy.deepcopy(e))


def _own_calls(e: ast.AST) -> list[ast.Call]:
    """Calls evaluated by `e` itself (not those substituted from the environment), inner first."""
    out: list[ast.Call] = []

    def walk(n: ast.AST) -> None:
        if getattr(n, "_from_env", False):
            return
        for c in ast.iter_child_nodes(n):
            walk(c)
        if isinstance(n, ast.Call):
            out.append(n)

    walk(e)
    return out


# ------------------------------------------------------------------------------------- executor
class Exec:
    """Symbolic executor over one program; `inline` decides which callees are executed in line."""

    MAX_PATHS = 3000

    def __init__(self, prog: Program, fn: FuncInfo, max_depth: int = 3,
                 extra_inline: Iterable[str] = (), bool_attrs: Iterable[str] = (), inline_all: bool = False,
                 lenient: bool = False) -> None:
        self.prog = prog
        # lenient: a loop the executor does not model is stepped over as an opaque statement (everything it may have
        # rebound or mutated becomes an unknown `LOOPn<name>`; a loop that can return is still refused), a `with`
        # is its body, and unpacking a value that is not a display yields `<value>[i]`.  For rules that only ask
        # how a value that *reaches* a call was built, in functions that also do unrelated work.
        self.lenient = lenient
        self.fn = fn
        self.max_depth = max_depth
        self.extra_inline = set(extra_inline)
        self.inline_all = inline_all  # also execute the functions other checkers anchor by name
        self.inlined: dict[str, FuncInfo] = {}  # callees executed in line so far (qualified name -> function)
        self.closures: dict[str, FuncInfo] = {}  # nested functions defined on the way (name -> function)
        self.bool_attrs = set(bool_attrs)  # attribute names holding booleans: writes are evaluated to True/False
        self._prepared: dict[int, ast.AST] = {}

    # ---------------------------------------------------------------- entry points
    def prepared(self, fn: FuncInfo) -> Any:
        """The function's tree as analysed.  (Helpers are NOT spliced textually: substituting an argument
        expression for a parameter *by name* moves reads of `self.x` behind the helper's own writes of
        `self.x`; helper calls are executed by value instead, see `_splice`.)"""
        return fn.node

    def initial(self, params: dict[str, str] | None = None) -> State:
        st = State()
        for k, v in (params or {}).items():
            st.locals[k] = ast.Name(id=v, ctx=ast.Load())
        return st

    def run(self, canon_params: list[str] | None = None, mode: str = "value") -> list[PathSum]:
        """All paths of the function; positional parameters after `self` are bound to `canon_params`."""
        node = self.prepared(self.fn)
        names = [a.arg for a in node.args.posonlyargs + node.args.args]
        if names and names[0] in ("self", "cls"):
            names = names[1:]
        binds = dict(zip(names, canon_params or []))
        return self.run_suite(node.body, self.initial(binds), mode)

    def run_suite(self, suite: list[ast.stmt], st: State, mode: str = "value") -> list[PathSum]:
        out = []
        for s, ex in self._block(suite, st, mode, 0):
            out.append(PathSum(s, ex[0], ex[1]))
        return out

    # ---------------------------------------------------------------- helper inlining
    def _callee(self, call: ast.Call) -> FuncInfo | None:
        f = call.func
        target: FuncInfo | None = None
        if isinstance(f, ast.Attribute) and isinstance(f.value, ast.Name) and f.value.id == "self" \
                and self.fn.cls is not None and f.attr.startswith("_") and not f.attr.startswith("__"):
            target = self.prog.resolve_method(self.fn.cls, f.attr)
        elif isinstance(f, ast.Name) and f.id in self.closures:
            return self.closures[f.id]
        elif isinstance(f, ast.Name) and f.id.startswith("_") and f.id in self.fn.module.functions:
            target = self.fn.module.functions[f.id]
        if target is None:
            return None
        if target.name in ANCHOR_NAMES and target.name not in self.extra_inline and not self.inline_all:
            return None
        if any(not (isinstance(d, ast.Name) and d.id in ("staticmethod", "override")) for d in target.node.decorator_list):
            return None
        return target

    def _bind(self, target: FuncInfo, call: ast.Call) -> dict[str, ast.AST] | None:
        node = self.prepared(target)
        a = node.args
        if a.vararg or a.kwarg or any(isinstance(x, ast.Starred) for x in call.args) or any(k.arg is None for k in call.keywords):
            return None
        names = [x.arg for x in a.posonlyargs + a.args]
        if names and names[0] in ("self", "cls") and not any(
                isinstance(d, ast.Name) and d.id == "staticmethod" for d in node.decorator_list):
            names = names[1:]
        if len(call.args) > len(names):
            return None
        out: dict[str, ast.AST] = dict(zip(names, call.args))
        for k in call.keywords:
            out[k.arg] = k.value  # type: ignore[index]
        defaults = dict(zip(names[len(names) - len(a.defaults):], a.defaults))
        for n, d in zip([x.arg for x in a.kwonlyargs], a.kw_defaults):
            if d is not None:
                defaults[n] = d
        for n in names + [x.arg for x in a.kwonlyargs]:
            if n not in out:
                if n not in defaults:
                    return None
                out[n] = defaults[n]
        return out

    def _inline(self, call: ast.Call, st: State, mode: str, depth: int, awaited: bool = False
                ) -> list[tuple[State, ast.AST]] | None:
        """Execute the callee of an (already resolved) call in line; None if it is not a simple helper.
        A coroutine helper is executed only where its call is awaited on the spot."""
        if depth >= self.max_depth:
            return None
        target = self._callee(call)
        if target is None or target.is_async != awaited:
            return None
        binds = self._bind(target, call)
        if binds is None:
            return None
        trial = st.fork()
        saved = trial.locals
        # a closure reads the enclosing function's variables (it may not rebind them: `nonlocal` is not modelled)
        trial.locals = {**saved, **binds} if target.outer is not None else dict(binds)
        try:
            res = self._block(self.prepared(target).body, trial, mode, depth + 1)
        except Unsupported:
            return None
        out: list[tuple[State, ast.AST]] = []
        for s, ex in res:
            if ex[0] not in ("return", "fall"):
                return None  # a raising helper: keep the call opaque
            s.locals = dict(saved)
            out.append((s, ex[1] if ex[1] is not None else ast.Constant(None)))
        self.inlined[target.qual] = target
        return out

    def call_is_pure(self, c: ast.Call, depth: int = 0) -> bool:
        """Effect-free call: a known pure function, or a private helper that only returns an effect-free expression."""
        if _is_pure_call(c):
            return True
        target = self._callee(c)
        if target is None or depth > 3 or target.is_async:
            return False
        body = [b for b in target.node.body if not (isinstance(b, ast.Expr) and isinstance(b.value, ast.Constant))]
        if len(body) != 1 or not isinstance(body[0], ast.Return) or body[0].value is None:
            return False
        return self.expr_is_pure(body[0].value, depth + 1)

    def expr_is_pure(self, e: ast.AST, depth: int = 0) -> bool:
        return not any(isinstance(n, (ast.NamedExpr, ast.Await, ast.Yield, ast.YieldFrom)) for n in ast.walk(e)) and all(
            self.call_is_pure(c, depth) for c in ast.walk(e) if isinstance(c, ast.Call))

    def opaque_private_calls(self, p: "PathSum") -> list[str]:
        """Calls of private functions of this class / module that a path could not see through."""
        return [e[1] for e in p.events if e[0] == "call" and not _is_pure_call(e[2]) and self._callee(e[2]) is not None]

    # ---------------------------------------------------------------- expressions
    def _res(self, e: ast.AST, st: State) -> ast.AST:
        """Resolved expression; calls of methods / functions whose definition is known get their keyword
        arguments moved to the positions of the parameters they name (keyword == positional form)."""
        out = resolve(e, st)
        for c in [n for n in ast.walk(out) if isinstance(n, ast.Call) and n.keywords]:
            f = c.func
            target: FuncInfo | None = None
            if isinstance(f, ast.Attribute) and isinstance(f.value, ast.Name) and f.value.id in ("self", "cls") \
                    and self.fn.cls is not None:
                target = self.prog.resolve_method(self.fn.cls, f.attr)
            elif isinstance(f, ast.Name) and f.id in self.fn.module.functions:
                target = self.fn.module.functions[f.id]
            if target is None or any(k.arg is None for k in c.keywords) or any(isinstance(a, ast.Starred) for a in c.args):
                continue
            a = target.node.args
            names = [x.arg for x in a.posonlyargs + a.args]
            if target.cls is not None and names and not any(
                    isinstance(d, ast.Name) and d.id == "staticmethod" for d in target.node.decorator_list):
                names = names[1:]
            kw = {k.arg: k.value for k in c.keywords}
            want = names[len(c.args):len(c.args) + len(kw)]
            if set(want) == set(kw) and not (set(kw) & {x.arg for x in a.posonlyargs}):
                c.args = list(c.args) + [kw[n] for n in want]
                c.keywords = []
        return out

    def _record_calls(self, e: ast.AST, st: State) -> None:
        for c in _own_calls(e):
            st.events.append(("call", text(c), c))
            if not _is_pure_call(c) and st.attrs:
                # an effectful call may change what it can reach: the receiver object (for `self.m()` the
                # whole of self) and the objects passed as arguments
                reach = [text(a) for a in list(c.args) + [k.value for k in c.keywords]]
                if isinstance(c.func, ast.Attribute):
                    reach.append(text(c.func.value))
                hit = [k for k in st.attrs if any(k == r or k.startswith(r + ".") or k.startswith(r + "[") for r in reach)]
                if hit:
                    st.havoc += 1
                for k in hit:
                    st.attrs[k] = ast.Name(id=f"HAVOC{st.havoc}<{k}>", ctx=ast.Load())

    def _decide(self, atom: Atom, pol: bool, st: State) -> list[tuple[State, bool]]:
        if atom.key in st.facts:
            st.events.append(("cond", atom.key, st.facts[atom.key]))  # evaluated again, same outcome
            return [(st, st.facts[atom.key] == pol)]
        st.atoms.setdefault(atom.key, atom)
        forced = _forced(atom, st)
        if forced is not None:
            st.facts[atom.key] = forced
            st.events.append(("cond", atom.key, forced))
            return [(st, forced == pol)]
        for op in atom.ops:
            self._record_calls(op, st)
        out = []
        for val in (True, False):
            s = st.fork()
            s.facts[atom.key] = val
            s.events.append(("cond", atom.key, val))
            out.append((s, val == pol))
        return out

    def _bool(self, e: ast.AST, st: State, depth: int) -> list[tuple[State, bool]]:  # noqa: C901
        """Truth value of the resolved expression `e` per path."""
        if isinstance(e, ast.Constant):
            return [(st, bool(e.value))]
        if isinstance(e, ast.UnaryOp) and isinstance(e.op, ast.Not):
            return [(s, not v) for s, v in self._bool(e.operand, st, depth)]
        if isinstance(e, ast.BoolOp):
            stop = isinstance(e.op, ast.Or)  # value that ends the evaluation
            res: list[tuple[State, bool]] = [(st, not stop)]
            for v in e.values:
                nxt: list[tuple[State, bool]] = []
                for s, val in res:
                    if val == stop:
                        nxt.append((s, val))
                    else:
                        nxt.extend(self._bool(v, s, depth))
                res = nxt
                self._guard(res)
            return res
        if isinstance(e, ast.BinOp) and isinstance(e.op, (ast.BitAnd, ast.BitOr)):
            out = []
            for s, a in self._bool(e.left, st, depth):
                for s2, b in self._bool(e.right, s, depth):
                    out.append((s2, (a and b) if isinstance(e.op, ast.BitAnd) else (a or b)))
            return out
        if isinstance(e, ast.IfExp):
            out = []
            for s, c in self._bool(e.test, st, depth):
                out.extend(self._bool(e.body if c else e.orelse, s, depth))
            return out
        if isinstance(e, ast.Compare) and not getattr(e, "_spliced", False):
            out = []
            for s, e2 in self._splice(e, st, depth):
                e2._spliced = True  # type: ignore[attr-defined]
                out.extend(self._bool(e2, s, depth))
            return out
        if isinstance(e, ast.Compare):
            res = [(st, True)]
            left = e.left
            for op, right in zip(e.ops, e.comparators):
                atom, pol = _cmp_atom(left, op, right)
                nxt = []
                for s, val in res:
                    if not val:
                        nxt.append((s, False))
                    elif atom is None:
                        nxt.append((s, pol))
                    else:
                        nxt.extend(self._decide(atom, pol, s))
                res = nxt
                left = right
            return res
        if isinstance(e, ast.Call):
            if u(e.func) == "bool" and len(e.args) == 1 and not e.keywords:
                return self._bool(e.args[0], st, depth)
            unrolled = _unroll_any_all(e)
            if unrolled is not None:
                return self._bool(unrolled, st, depth)
            got = self._inline(e, st, "bool", depth)
            if got is not None:
                out = []
                for s, v in got:
                    out.extend(self._bool(v, s, depth))
                return out
        if isinstance(e, ast.Await) and isinstance(e.value, ast.Call):
            got = self._inline(e.value, st, "bool", depth, awaited=True)
            if got is not None:
                out = []
                for s, v in got:
                    out.extend(self._bool(v, s, depth))
                return out
        if isinstance(e, (ast.NamedExpr, ast.Yield, ast.YieldFrom)):
            raise Unsupported(f"{type(e).__name__} in a condition")
        if not getattr(e, "_spliced", False):
            out = []
            for s, e2 in self._splice(e, st, depth, skip_top=isinstance(e, ast.Call)):
                if e2 is not e:
                    out.extend(self._bool(e2, s, depth))
                else:
                    e2._spliced = True  # type: ignore[attr-defined]
                    out.extend(self._bool(e2, s, depth))
            return out
        return self._decide(Atom(("truthy", text(e)), "truthy", (e,)), True, st)

    def _value(self, e: ast.AST, st: State, depth: int, mode: str = "value") -> list[tuple[State, ast.AST]]:
        """Value of the resolved expression `e` per path (ternaries, value-`or`/`and` and whole helper
        calls are split; in 'bool' mode boolean structure is evaluated to constants)."""
        if mode == "bool" or isinstance(e, (ast.BoolOp, ast.Compare)) and _is_boolish(e) \
                or isinstance(e, ast.UnaryOp) and isinstance(e.op, ast.Not):
            return [(s, ast.Constant(v)) for s, v in self._bool(e, st, depth)]
        if isinstance(e, ast.IfExp):
            out = []
            for s, c in self._bool(e.test, st, depth):
                out.extend(self._value(e.body if c else e.orelse, s, depth))
            return out
        if isinstance(e, ast.BoolOp):  # value semantics: `a or b`
            stop = isinstance(e.op, ast.Or)
            out = []
            pending = [st]
            for i, v in enumerate(e.values):
                if i == len(e.values) - 1:
                    for s in pending:
                        out.extend(self._value(v, s, depth))
                    break
                nxt = []
                for s in pending:
                    for s2, val in self._bool(v, s, depth):
                        if val == stop:
                            out.append((s2, v))
                        else:
                            nxt.append(s2)
                pending = nxt
            return out
        inner = e.value if isinstance(e, ast.Await) else e
        if isinstance(inner, ast.Call):
            got = self._inline(inner, st, "value", depth, awaited=isinstance(e, ast.Await))
            if got is not None:
                out = []
                for s, v in got:
                    out.extend(self._value(v, s, depth) if isinstance(v, (ast.BoolOp, ast.Compare, ast.IfExp, ast.UnaryOp)) else [(s, v)])
                return out
        out2 = []
        for s2, e2 in self._splice(e, st, depth):
            self._record_calls(e2, s2)
            out2.append((s2, e2))
        return out2

    def _splice(self, e: ast.AST, st: State, depth: int, skip_top: bool = False) -> list[tuple[State, ast.AST]]:
        """Execute the simple-helper calls nested anywhere in the resolved expression `e` (innermost first,
        i.e. in evaluation order) and put the value each returned in their place: by value — the
        arguments are the expressions as they stand at the call, the result is what the callee's path
        returned.  One (state, expression) per combination of callee paths."""
        todo: list[tuple[State, ast.AST]] = [(st, e)]
        out: list[tuple[State, ast.AST]] = []
        while todo:
            cur, expr = todo.pop()
            nodes = list(ast.walk(expr))
            pick = None
            for c in _own_calls(expr):
                if getattr(c, "_opaque", False) or (skip_top and c is expr):
                    continue
                if self._callee(c) is None:
                    c._opaque = True  # type: ignore[attr-defined]
                    continue
                got = self._inline(c, cur, "value", depth, awaited=False)
                if got is None:
                    c._opaque = True  # type: ignore[attr-defined]
                    continue
                pick = (c, got)
                break
            if pick is None:
                out.append((cur, expr))
                continue
            c, got = pick
            pos = next(i for i, n in enumerate(nodes) if n is c)
            for s2, v in got:
                new = _editable_copy(expr)
                tgt = list(ast.walk(new))[pos]
                val = copy.deepcopy(v)
                val._from_env = True  # type: ignore[attr-defined]
                if tgt is new:
                    new = val
                else:
                    _replace_child(new, tgt, val)
                todo.append((s2, new))
            self._guard(todo)
        return out

    def _opaque_loop(self, s: ast.stmt, st: State) -> State:
        """(lenient) Step over a loop that is not modelled: what it may have rebound or mutated is unknown
        afterwards.  A loop that can leave the function is refused (its paths would be lost)."""
        for n in ast.walk(s):
            if isinstance(n, (ast.Return, ast.FunctionDef, ast.AsyncFunctionDef, ast.Lambda, ast.ClassDef)):
                raise Unsupported(f"loop at line {getattr(s, 'lineno', '?')} that returns / defines functions")
        names, touches = _opaque_loop_names(s)
        st.havoc += 1
        for n in sorted(names):
            st.locals[n] = ast.Name(id=f"LOOP{st.havoc}<{n}>", ctx=ast.Load())
        if touches:
            st.attrs.clear()
        st.events.append(("loop", f"line {getattr(s, 'lineno', '?')}", s))
        return st

    def _guard(self, res: list[Any]) -> None:
        if len(res) > self.MAX_PATHS:
            raise Unsupported("too many paths")

    # ---------------------------------------------------------------- statements
    def _block(self, stmts: list[ast.stmt], st: State, mode: str, depth: int
               ) -> list[tuple[State, tuple[str, ast.AST | None]]]:
        live: list[State] = [st]
        done: list[tuple[State, tuple[str, ast.AST | None]]] = []
        for s in stmts:
            nxt: list[State] = []
            for cur in live:
                for s2, ex in self._stmt(s, cur, mode, depth):
                    if ex is None:
                        nxt.append(s2)
                    else:
                        done.append((s2, ex))
            live = nxt
            self._guard(live)
            self._guard(done)
            if not live:
                break
        return done + [(s, ("fall", None)) for s in live]

    def _assign(self, targets: list[ast.AST], val: ast.AST, st: State, depth: int) -> list[State]:
        """`t1 = t2 = val` (val resolved): the value is evaluated once, then stored left to right."""
        if len(targets) == 1 and isinstance(targets[0], (ast.Tuple, ast.List)):
            # `a, b = <helper returning a tuple>` / `a, b = x, y`: element-wise once the value is a tuple display
            elts = targets[0].elts
            out = []
            for s, v in self._value(val, st, depth):
                if self.lenient and not isinstance(v, (ast.Tuple, ast.List)) and not any(
                        isinstance(x, ast.Starred) for x in elts):
                    v = ast.Tuple(elts=[ast.Subscript(value=copy.deepcopy(v), slice=ast.Constant(i), ctx=ast.Load())
                                        for i in range(len(elts))], ctx=ast.Load())
                if not isinstance(v, (ast.Tuple, ast.List)) or len(v.elts) != len(elts) or any(
                        isinstance(x, ast.Starred) for x in list(elts) + list(v.elts)):
                    raise Unsupported("unpacking of a value that is not a tuple display of the same length")
                cur = [s]
                for t, x in zip(elts, v.elts):
                    x = copy.deepcopy(x)
                    x._from_env = True  # type: ignore[attr-defined]  (its calls were recorded with the tuple)
                    cur = [s3 for s2 in cur for s3 in self._assign([t], x, s2, depth)]
                out.extend(cur)
            return out
        for t in targets:
            if not isinstance(t, (ast.Name, ast.Attribute, ast.Subscript)):
                raise Unsupported(f"assignment target {type(t).__name__}")
        wmode = "bool" if any(isinstance(t, ast.Attribute) and t.attr in self.bool_attrs for t in targets) else "value"
        out = []
        for s, v in self._value(val, st, depth, wmode):
            for target in targets:
                if isinstance(target, ast.Name):
                    s.locals[target.id] = v
                    continue
                t = u(resolve(target, _locals_only(s)))
                s.events.append(("write", t, v))
                for k in [k for k in s.attrs if k.startswith(t + ".") or k.startswith(t + "[")]:
                    del s.attrs[k]
                if isinstance(target, ast.Attribute):
                    s.attrs[t] = v
            out.append(s)
        return out

    def _stmt(self, s: ast.stmt, st: State, mode: str, depth: int  # noqa: C901
              ) -> list[tuple[State, tuple[str, ast.AST | None] | None]]:
        if isinstance(s, ast.Pass):
            return [(st, None)]
        if isinstance(s, ast.Expr):
            if isinstance(s.value, ast.Constant):
                return [(st, None)]
            return [(s2, None) for s2, _v in self._value(self._res(s.value, st), st, depth)]
        if isinstance(s, ast.Assign):
            return [(x, None) for x in self._assign(list(s.targets), self._res(s.value, st), st, depth)]
        if isinstance(s, ast.AnnAssign):
            if s.value is None:
                return [(st, None)]
            return [(x, None) for x in self._assign([s.target], self._res(s.value, st), st, depth)]
        if isinstance(s, ast.AugAssign):
            load = copy.deepcopy(s.target)
            for n in ast.walk(load):
                if hasattr(n, "ctx"):
                    n.ctx = ast.Load()  # type: ignore[attr-defined]
            val = self._res(ast.BinOp(left=load, op=s.op, right=s.value), st)
            return [(x, None) for x in self._assign([s.target], val, st, depth)]
        if isinstance(s, ast.For) and isinstance(s.target, ast.Name) and not s.orelse:
            it = self._res(s.iter, st)
            if isinstance(it, (ast.Tuple, ast.List)) and len(it.elts) <= 8 and not any(
                    isinstance(x, ast.Starred) for x in it.elts) and not _has_loop_jump(s.body):
                # a loop over a display of known elements is its body once per element
                live: list[State] = [st]
                done: list[tuple[State, tuple[str, ast.AST | None] | None]] = []
                for elt in it.elts:
                    nxt: list[State] = []
                    for cur in live:
                        cur.locals[s.target.id] = elt
                        for s2, ex in self._block(s.body, cur, mode, depth):
                            if ex[0] == "fall":
                                nxt.append(s2)
                            else:
                                done.append((s2, ex))
                    live = nxt
                return done + [(x, None) for x in live]
        if isinstance(s, (ast.FunctionDef, ast.AsyncFunctionDef)) and not s.decorator_list:
            self.closures[s.name] = FuncInfo(s.name, self.fn.module, s, self.fn.cls, self.fn)
            st.locals.pop(s.name, None)
            return [(st, None)]
        if isinstance(s, ast.Match):
            return self._stmt(_match_as_if(s), st, mode, depth)
        if isinstance(s, (ast.For,)):
            as_if = _search_loop_as_if(s, self.expr_is_pure)
            if as_if is None:
                if self.lenient:
                    return [(self._opaque_loop(s, st), None)]
                raise Unsupported(f"loop at line {getattr(s, 'lineno', '?')}")
            return self._stmt(as_if, st, mode, depth)
        if self.lenient and isinstance(s, (ast.AsyncFor, ast.While)):
            return [(self._opaque_loop(s, st), None)]
        if self.lenient and isinstance(s, (ast.With, ast.AsyncWith)):
            for item in s.items:
                self._record_calls(self._res(item.context_expr, st), st)
                for n in ast.walk(item.optional_vars) if item.optional_vars is not None else []:
                    if isinstance(n, ast.Name):
                        st.havoc += 1
                        st.locals[n.id] = ast.Name(id=f"WITH{st.havoc}<{n.id}>", ctx=ast.Load())
            return [(s3, None if ex[0] == "fall" else ex) for s3, ex in self._block(s.body, st, mode, depth)]
        if isinstance(s, ast.If) and _only_logs(s, self.expr_is_pure):
            return [(st, None)]  # reporting only: neither outcome changes state, calls or results
        if isinstance(s, ast.If):
            out: list[tuple[State, tuple[str, ast.AST | None] | None]] = []
            for s2, c in self._bool(self._res(s.test, st), st, depth):
                for s3, ex in self._block(s.body if c else s.orelse, s2, mode, depth):
                    out.append((s3, None if ex[0] == "fall" else ex))
            return out
        if isinstance(s, ast.Return):
            if s.value is None:
                return [(st, ("return", None))]
            return [(s2, ("return", v)) for s2, v in self._value(self._res(s.value, st), st, depth, mode)]
        if isinstance(s, ast.Continue):
            return [(st, ("continue", None))]
        if isinstance(s, ast.Break):
            return [(st, ("break", None))]
        if isinstance(s, ast.Raise):
            if s.exc is not None:
                self._record_calls(self._res(s.exc, st), st)
            return [(st, ("raise", None))]
        if isinstance(s, ast.Assert):
            out = []
            for s2, c in self._bool(self._res(s.test, st), st, depth):
                out.append((s2, None if c else ("raise", None)))
            return out
        raise Unsupported(f"statement {type(s).__name__} at line {getattr(s, 'lineno', '?')}")


def _opaque_loop_names(s: ast.stmt) -> tuple[set[str], bool]:
    """(local names a loop may rebind or mutate, whether it may change attributes of objects): names stored, roots of
    stored / deleted attribute and subscript targets, receivers and arguments of calls that may have effects."""
    names: set[str] = set()
    touches = False
    for n in ast.walk(s):
        if isinstance(n, ast.Name) and isinstance(n.ctx, (ast.Store, ast.Del)):
            names.add(n.id)
        elif isinstance(n, (ast.Attribute, ast.Subscript)) and isinstance(n.ctx, (ast.Store, ast.Del)):
            names.update(_root_names(n))
            touches = True
        elif isinstance(n, ast.Call) and not _is_pure_call(n):
            touches = True
            for a in list(n.args) + [k.value for k in n.keywords] + (
                    [n.func.value] if isinstance(n.func, ast.Attribute) else []):
                a = a.value if isinstance(a, ast.Starred) else a
                names.update(_root_names(a))
        elif isinstance(n, (ast.Await, ast.Yield, ast.YieldFrom)):
            touches = True
    return names, touches


def _replace_child(root: ast.AST, old: ast.AST, new: ast.AST) -> None:
    for n in ast.walk(root):
        for name, value in ast.iter_fields(n):
            if value is old:
                setattr(n, name, new)
                return
            if isinstance(value, list):
                for i, item in enumerate(value):
                    if item is old:
                        value[i] = new
                        return
    raise Unsupported("internal: node to replace not found")


def _has_loop_jump(body: list[ast.stmt]) -> bool:
    def scan(stmts: list[ast.stmt]) -> bool:
        for x in stmts:
            if isinstance(x, (ast.Break, ast.Continue)):
                return True
            if isinstance(x, (ast.For, ast.AsyncFor, ast.While, ast.FunctionDef, ast.AsyncFunctionDef, ast.ClassDef)):
                continue
            for f in ("body", "orelse", "finalbody"):
                if scan(getattr(x, f, []) or []):
                    return True
            if any(scan(h.body) for h in getattr(x, "handlers", [])):
                return True
        return False
    return scan(body)


def _unroll_any_all(e: ast.Call) -> ast.AST | None:
    """`any(c(v) for v in (a, b))` == `c(a) or c(b)`; `all(...)` == `... and ...`; also over a display of
    conditions, `all((p, q))` == `p and q` (evaluation of all operands first is not modelled)."""
    name = u(e.func)
    if name not in ("any", "all") or len(e.args) != 1 or e.keywords:
        return None
    op = ast.Or() if name == "any" else ast.And()
    g = e.args[0]
    if isinstance(g, (ast.GeneratorExp, ast.ListComp)) and len(g.generators) == 1:
        c = g.generators[0]
        if isinstance(c.target, ast.Name) and isinstance(c.iter, (ast.Tuple, ast.List)) and 0 < len(c.iter.elts) <= 8 \
                and not c.is_async and not any(isinstance(x, ast.Starred) for x in c.iter.elts):
            vals = []
            for elt in c.iter.elts:
                class Sub(ast.NodeTransformer):
                    def visit_Name(self, node: ast.Name, elt: ast.AST = elt, v: str = c.target.id) -> ast.AST:  # noqa: N802
                        return copy.deepcopy(elt) if node.id == v and isinstance(node.ctx, ast.Load) else node
                term: ast.AST = Sub().visit(_editable_copy(g.elt))
                for cond in reversed(c.ifs):
                    cc = Sub().visit(_editable_copy(cond))
                    term = ast.BoolOp(op=ast.And(), values=[cc, term]) if name == "any" else \
                        ast.BoolOp(op=ast.Or(), values=[ast.UnaryOp(op=ast.Not(), operand=cc), term])
                vals.append(term)
            return vals[0] if len(vals) == 1 else ast.BoolOp(op=op, values=vals)
    return None


def _match_as_if(s: ast.Match) -> ast.stmt:
    """`match subj:` over value patterns is the if-chain `subj == v1` / `subj == v2 or subj == v3` / else
    (`case _`); singletons compare with `is`; a guard is `and guard`.  No default arm: no else."""
    def test(p: ast.pattern) -> ast.AST | None:
        if isinstance(p, ast.MatchValue):
            return ast.Compare(left=copy.deepcopy(s.subject), ops=[ast.Eq()], comparators=[p.value])
        if isinstance(p, ast.MatchSingleton):
            return ast.Compare(left=copy.deepcopy(s.subject), ops=[ast.Is()], comparators=[ast.Constant(p.value)])
        if isinstance(p, ast.MatchOr):
            parts = [test(x) for x in p.patterns]
            return None if any(x is None for x in parts) else ast.BoolOp(op=ast.Or(), values=parts)
        return None
    if any(isinstance(n, (ast.Call, ast.Await, ast.NamedExpr)) and not (isinstance(n, ast.Call) and _is_pure_call(n))
           for n in ast.walk(s.subject)):
        raise Unsupported("match on a subject with effects")
    head: ast.If | None = None
    tail: ast.If | None = None
    for i, c in enumerate(s.cases):
        wildcard = isinstance(c.pattern, ast.MatchAs) and c.pattern.pattern is None and c.pattern.name is None
        if wildcard and c.guard is None:
            if i != len(s.cases) - 1:
                raise Unsupported("match: wildcard before the last case")
            if tail is None:
                return ast.fix_missing_locations(ast.copy_location(ast.If(test=ast.Constant(True), body=c.body, orelse=[]), s))
            tail.orelse = c.body
            break
        t = ast.Constant(True) if wildcard else test(c.pattern)
        if t is None:
            raise Unsupported(f"match pattern {type(c.pattern).__name__}")
        if c.guard is not None:
            t = ast.BoolOp(op=ast.And(), values=[t, c.guard])
        node = ast.If(test=t, body=c.body, orelse=[])
        if head is None:
            head = node
        else:
            tail.orelse = [node]  # type: ignore[union-attr]
        tail = node
    if head is None:
        raise Unsupported("empty match")
    return ast.fix_missing_locations(ast.copy_location(head, s))


def _search_loop_as_if(s: ast.For, pure: Callable[[ast.AST], bool]) -> ast.If | None:
    """A search loop is the conditional it computes:
         for v in it:                         if any(c(v) for v in it):
             if c(v): [log]; return r   ==        return r
         for v in it:                         if any(c(v) for v in it):
             if c(v): x = k; break      ==        x = k
       where `if not c(v): continue` followed by the rest is the same as `if c(v): <rest>`
    (`it` and `c` effect-free; what happens on a hit does not use `v` apart from logging)."""
    if s.orelse:
        return None
    body = list(s.body)
    conds: list[ast.AST] = []
    while True:  # peel `if t: continue` guards and a final enclosing `if c:`
        body = [b for b in body if not (_is_log_stmt(b) or (isinstance(b, ast.If) and _only_logs(b, pure)))] or body[:0]
        if not body:
            return None
        f = body[0]
        if isinstance(f, ast.If) and not f.orelse and len(f.body) == 1 and isinstance(f.body[0], ast.Continue) and len(body) > 1:
            conds.append(ast.UnaryOp(op=ast.Not(), operand=f.test))
            body = body[1:]
            continue
        if len(body) == 1 and isinstance(f, ast.If) and not f.orelse:
            conds.append(f.test)
            body = list(f.body)
            continue
        break
    if not conds:
        return None
    hit = body
    bound = {n.id for n in ast.walk(s.target) if isinstance(n, ast.Name)}
    if any(isinstance(n, ast.Name) and n.id in bound for b in hit for n in ast.walk(b)):
        return None
    if isinstance(hit[-1], ast.Return):
        then = hit
    elif isinstance(hit[-1], ast.Break):
        then = hit[:-1] or [ast.Pass()]
    else:
        return None
    if any(not isinstance(b, (ast.Assign, ast.AnnAssign, ast.Return, ast.Pass)) for b in then) or not pure(s.iter) \
            or not all(pure(c) for c in conds):
        return None
    cond = conds[0] if len(conds) == 1 else ast.BoolOp(op=ast.And(), values=conds)
    gen = ast.GeneratorExp(elt=cond, generators=[ast.comprehension(target=s.target, iter=s.iter, ifs=[], is_async=0)])
    test = ast.Call(func=ast.Name(id="any", ctx=ast.Load()), args=[gen], keywords=[])
    out = ast.If(test=test, body=then, orelse=[])
    return ast.fix_missing_locations(ast.copy_location(out, s))


def _is_log_stmt(s: ast.stmt) -> bool:
    return isinstance(s, ast.Pass) or (isinstance(s, ast.Expr) and isinstance(s.value, ast.Call)
                                       and u(s.value.func).split(".")[0] in ("_logger", "logging", "_log"))


def _only_logs(s: ast.If, pure: Callable[[ast.AST], bool]) -> bool:
    """`if <effect-free test>: <logging calls only>` (also nested) — skipped by the executor."""
    def arms_ok(x: ast.If) -> bool:
        return all(_is_log_stmt(b) or (isinstance(b, ast.If) and _only_logs(b, pure)) for b in x.body + x.orelse)
    return arms_ok(s) and pure(s.test)


def _locals_only(st: State) -> State:
    return State(locals=st.locals)


def _is_boolish(e: ast.AST) -> bool:
    """Boolean structure whose leaves are comparisons / negations / constants (so that evaluating
    it to True/False loses nothing: the value *is* a bool)."""
    if isinstance(e, ast.BoolOp):
        return all(_is_boolish(v) for v in e.values)
    if isinstance(e, ast.Compare):
        return True
    if isinstance(e, ast.UnaryOp) and isinstance(e.op, ast.Not):
        return True
    return isinstance(e, ast.Constant) and isinstance(e.value, bool)
