"""Generic facilities for the C14 checker (kept out of sa/engine on purpose).

  FollowExec      the symbolic path walker of sa/engine/sympath.py with two additions:
                  * a call of a private same-class / same-module helper that is the whole value of a
                    statement is *followed*: the helper's body is walked with its parameters bound to
                    the (substituted) arguments, whatever its shape (early returns, try/except ...);
                    the effects and conditions of the helper appear on the caller's path as if the
                    statements stood there;
                  * every call effect records whether it is evaluated inside a `try` body one of
                    whose handlers catches Exception (`effect.guarded` in {'', 'E', 'B'}).
                  * `try: <one statement whose only operation is d.pop(k) / d[k] / del d[k]>` with a handler
                    for KeyError is read as the membership test it is: the path through the body carries
                    the fact `k in d`, the path through that handler `k not in d` (EAFP <-> LBYL).
                  * every effect records where it happens (`effect.where`: the enclosing try bodies with
                    what their handlers catch, the enclosing try statements that have a `finally`, the
                    `finally` suites it lies in);
                  * an `except ... as e` of a try whose body asks for a task's `.result()` / `.exception()`
                    binds a symbol for an exception of arbitrary shape; every operation on it (or on a value
                    derived from it) that is evaluated on the path and raises for some exceptions is logged as
                    a 'mayraise' effect (ExcOps: shapes exception / args tuple / arbitrary element / message
                    text ..., guarded uses discharged by the path conditions).
                  Helper calls it cannot follow are collected in `unfollowed`.
  ExcOps          the may-raise analysis restricted to operations on a caught exception (see its docstring).
  Signature       the parameters of a method as its callers bind them (positional / keyword spellings of a
                  call coincide; keyword-only parameters are honoured); param_uses / assign_roles bind the
                  parameters of the anchored methods by *role* (what the body does with them), whatever
                  their order or names.
  HelperGraph     who references which private method of a class (absorption of extracted helpers
                  into the anchored functions for who-may-call rules).
  rebound_after   which free variables of a closure are bound again after the closure was created
                  (late binding), decided on the CFG of the function owning the variable; with
                  scope_nodes / binding_sites / scope_chain / closure_reads.
  fold_callback_defaults   default arguments of a done-callback (bound at creation) moved into its body.
  splice          whole-source replacement of AST nodes by text (structural in-memory controls).
"""
from __future__ import annotations

import ast
import copy
import re
from typing import Any, Iterable

from ..engine.normalize import ANCHOR_NAMES, _strip_doc, inline_helpers
from ..engine.report import AnalysisError
from ..engine.resolver import ClassInfo, FuncInfo, Program
from ..engine.sympath import Effect, Path, SymExec, SymUnsupported, _Subst
from ..engine.util import u

_OK_DECORATORS = ("staticmethod", "classmethod", "override")


def catches(handler: ast.ExceptHandler) -> str:
    """'B' the handler catches every exception, 'E' every Exception, '' something narrower."""
    t = handler.type
    if t is None:
        return "B"
    names = [u(e) for e in t.elts] if isinstance(t, ast.Tuple) else [u(t)]
    if "BaseException" in names:
        return "B"
    if "Exception" in names:
        return "E"
    return ""


_LOOKUP_ERRORS = ("KeyError", "LookupError")


def lookup_probe(s: ast.Try) -> tuple[ast.expr, ast.expr, ast.ExceptHandler] | None:
    """(mapping, key, handler) when `s` is the EAFP spelling of a membership test: the body is ONE plain
    statement whose only operation is `<mapping>.pop(<key>)` (no default), `<mapping>[<key>]` or
    `del <mapping>[<key>]` -- everything else in it is a name, an attribute or a constant, so a KeyError
    can only come from that lookup and means exactly "key not in mapping" -- and the first handler that
    catches KeyError names it (KeyError / LookupError, possibly among others; a bare / Exception handler
    is not read as a membership test)."""
    if len(s.body) != 1:
        return None
    st = s.body[0]
    if isinstance(st, ast.Assign) and all(isinstance(t, ast.Name) for t in st.targets):
        roots: list[ast.AST] = [st.value]
    elif isinstance(st, ast.AnnAssign) and isinstance(st.target, ast.Name) and st.value is not None:
        roots = [st.value]
    elif isinstance(st, ast.Expr):
        roots = [st.value]
    elif isinstance(st, ast.Delete) and len(st.targets) == 1 and isinstance(st.targets[0], ast.Subscript):
        roots = [st.targets[0]]
    else:
        return None
    ops: list[ast.AST] = []
    for r in roots:
        for n in ast.walk(r):
            if isinstance(n, (ast.Call, ast.Subscript)):
                ops.append(n)
            elif not isinstance(n, (ast.Name, ast.Attribute, ast.Constant, ast.expr_context)):
                return None
    if len(ops) != 1:
        return None
    op = ops[0]
    if isinstance(op, ast.Call):
        if not (isinstance(op.func, ast.Attribute) and op.func.attr == "pop" and len(op.args) == 1 and not op.keywords
                and not isinstance(op.args[0], ast.Starred)):
            return None
        coll, key = op.func.value, op.args[0]
    else:
        assert isinstance(op, ast.Subscript)
        if isinstance(op.ctx, ast.Store) or isinstance(op.slice, (ast.Slice, ast.Tuple)):
            return None
        coll, key = op.value, op.slice
    for h in s.handlers:
        names = [] if h.type is None else [u(e) for e in h.type.elts] if isinstance(h.type, ast.Tuple) else [u(h.type)]
        if h.type is None or any(x in ("Exception", "BaseException") for x in names):
            return None             # the first handler a KeyError reaches is a catch-all
        if any(x in _LOOKUP_ERRORS for x in names):
            return coll, key, h
    return None


# --------------------------------------------------------------------------------------------- may-raise on a caught exception
# Shapes of values derived from a caught exception.  The analysis is a may-raise effect analysis *restricted to
# operations on the exception value*: an exception of the finished task is data of arbitrary shape (any class,
# any `args`, any message), so an operation is partial when some exception object makes it raise.  Calls of
# unknown functions that merely receive the value are assumed total (logging formats lazily and swallows its
# own formatting errors); private helpers are followed by the walker, so their bodies are seen.
EXC, OPT, TB, ARGS, ANY, STR, STRS, STRS1, PARTS, TYPE, DICT, INFO = (
    "exception", "exception-or-None", "traceback-or-None", "args-tuple", "arbitrary-object", "str", "list-of-str",
    "non-empty-list-of-str", "3-tuple-of-str", "exception-class", "attribute-dict", "exc_info-triple")
_SEQ = (ARGS, STR, STRS, STRS1, PARTS)
_OPAQUE = (EXC, OPT, TB, ANY, TYPE)            # neither subscriptable nor iterable nor a number, for all we know
_EXC_ATTRS = {"args": ARGS, "__cause__": OPT, "__context__": OPT, "__traceback__": TB, "__class__": TYPE,
              "__dict__": DICT, "__doc__": ANY, "__module__": STR, "with_traceback": None, "add_note": None}
_STR_TO_STR = {"strip", "lstrip", "rstrip", "lower", "upper", "title", "capitalize", "casefold", "swapcase", "replace",
               "removeprefix", "removesuffix", "expandtabs", "center", "ljust", "rjust", "zfill", "translate"}
_PCT = re.compile(r"%(?:\((\w+)\))?[#0\- +]*(\*|\d+)?(?:\.(\*|\d+))?[hlL]?([diouxXeEfFgGcrsa%])")
_FIELD = re.compile(r"^([^.\[]*)((?:\.[A-Za-z_]\w*|\[[^\]]*\])*)$")
_FIELD_STEP = re.compile(r"\.([A-Za-z_]\w*)|\[([^\]]*)\]")


def cond_atoms(test: ast.AST, outcome: bool) -> list[tuple[ast.AST, bool]]:
    """The atomic facts a condition with the given outcome establishes (nothing for a disjunction)."""
    if isinstance(test, ast.UnaryOp) and isinstance(test.op, ast.Not):
        return cond_atoms(test.operand, not outcome)
    if isinstance(test, ast.BoolOp):
        if isinstance(test.op, ast.And) == outcome:
            return [f for v in test.values for f in cond_atoms(v, outcome)]
        return []
    return [(test, outcome)]


def _int_const(e: ast.AST | None) -> int | None:
    if isinstance(e, ast.Constant) and isinstance(e.value, int) and not isinstance(e.value, bool):
        return e.value
    if isinstance(e, ast.UnaryOp) and isinstance(e.op, ast.USub):
        v = _int_const(e.operand)
        return None if v is None else -v
    return None


_MIRROR = {ast.Lt: ast.Gt, ast.Gt: ast.Lt, ast.LtE: ast.GtE, ast.GtE: ast.LtE, ast.Eq: ast.Eq, ast.NotEq: ast.NotEq}


def _len_facts(t: str, facts: Iterable[tuple[ast.AST, bool]]) -> tuple[int, int | None]:
    """(guaranteed minimum length, exact length if known) of the value whose text is `t`."""
    low, exact = 0, None
    for a, o in facts:
        txt = u(a)
        if o and txt in (t, f"len({t})"):
            low = max(low, 1)
        if not (isinstance(a, ast.Compare) and len(a.ops) == 1):
            continue
        left, op, right = a.left, type(a.ops[0]), a.comparators[0]
        if u(right) == f"len({t})" and _int_const(left) is not None and op in _MIRROR:
            left, op, right = right, _MIRROR[op], left
        n = _int_const(right)
        if u(left) == f"len({t})" and n is not None:
            if op is ast.Gt and o or op is ast.LtE and not o:
                low = max(low, n + 1)
            elif op is ast.GtE and o or op is ast.Lt and not o:
                low = max(low, n)
            elif op is ast.Eq and o or op is ast.NotEq and not o:
                low, exact = max(low, n), n
            elif n == 0 and (op is ast.NotEq and o or op is ast.Eq and not o):
                low = max(low, 1)
        elif u(left) == t and u(right) in ("()", "''", '""', "[]") and (
                op is ast.NotEq and o or op is ast.Eq and not o):
            low = max(low, 1)
    return low, exact


def _not_none(t: str, facts: Iterable[tuple[ast.AST, bool]]) -> bool:
    for a, o in facts:
        if o and u(a) == t:
            return True
        if isinstance(a, ast.Compare) and len(a.ops) == 1 and {u(a.left), u(a.comparators[0])} == {t, "None"}:
            if isinstance(a.ops[0], (ast.IsNot, ast.NotEq)) == o and isinstance(a.ops[0], (ast.Is, ast.IsNot, ast.Eq, ast.NotEq)):
                return True
        if o and _isinstance_of(a, t) is not None:
            return True
    return False


def _isinstance_of(a: ast.AST, t: str) -> str | None:
    """The class text when the atom is `isinstance(<t>, C)`."""
    if isinstance(a, ast.Call) and isinstance(a.func, ast.Name) and a.func.id == "isinstance" and len(a.args) == 2 \
            and u(a.args[0]) == t:
        return u(a.args[1])
    return None


def _has_attr(t: str, name: str, facts: Iterable[tuple[ast.AST, bool]]) -> bool:
    for a, o in facts:
        if not o:
            continue
        if _isinstance_of(a, t) is not None:
            return True         # an attribute of the class that was tested for
        if isinstance(a, ast.Call) and isinstance(a.func, ast.Name) and a.func.id == "hasattr" and len(a.args) == 2 \
                and u(a.args[0]) == t and isinstance(a.args[1], ast.Constant) and a.args[1].value == name:
            return True
    return False


def _key_in(d: str, k: str, facts: Iterable[tuple[ast.AST, bool]]) -> bool:
    for a, o in facts:
        if isinstance(a, ast.Compare) and len(a.ops) == 1 and u(a.left) == k and u(a.comparators[0]) in (d, f"{d}.keys()") \
                and isinstance(a.ops[0], (ast.In, ast.NotIn)) and isinstance(a.ops[0], ast.In) == o:
            return True
    return False


class ExcOps:
    """Operations on a caught exception (and on values derived from it) that can themselves raise, depending
    on the shape of the exception.  `scan(expr, facts)` -> [(node, error classes, reason)] for the operations
    *evaluated here* (sub-expressions carrying `_inlined` were evaluated where they were bound); `facts` are
    the (atom, outcome) conditions known to hold, which discharge guarded uses (`e.args[0] if e.args else ..`,
    `len(e.args) > 1`, `x is not None`, `hasattr(e, 'code')`, `isinstance(e, C)`, `k in vars(e)`)."""

    def __init__(self, sources: set[str]) -> None:
        self.sources = sources      # names of the symbols that stand for a caught exception
        self.out: list[tuple[ast.AST, tuple[str, ...], str]] = []

    def scan(self, e: ast.AST, facts: Iterable[tuple[ast.AST, bool]]) -> list[tuple[ast.AST, tuple[str, ...], str]]:
        self.out = []
        self.sh(e, {}, tuple(facts), True)
        return self.out

    def shape(self, e: ast.AST, facts: Iterable[tuple[ast.AST, bool]] = ()) -> str | None:
        keep, self.out = self.out, []
        try:
            return self.sh(e, {}, tuple(facts), False)
        finally:
            self.out = keep

    # ------------------------------------------------------------------
    def hit(self, rep: bool, node: ast.AST, errors: tuple[str, ...], why: str) -> None:
        if rep:
            self.out.append((node, errors, why))

    @staticmethod
    def combine(shapes: list[str | None]) -> str | None:
        kinds = set(shapes)
        if len(kinds) == 1:
            return shapes[0]
        return ANY if kinds - {None, STR} else None

    def narrow(self, e: ast.AST, s: str | None, facts: tuple[tuple[ast.AST, bool], ...]) -> str | None:
        if s in (OPT, TB) and _not_none(u(e), facts):
            return EXC if s == OPT else None
        if s == ANY:
            t = u(e)
            for a, o in facts:
                c = _isinstance_of(a, t) if o else None
                if c is not None:
                    return STR if c == "str" else None
        return s

    def sh(self, e: ast.AST | None, env: dict[str, str | None], facts: tuple[tuple[ast.AST, bool], ...],  # noqa: C901
           rep: bool) -> str | None:
        if e is None:
            return None
        if getattr(e, "_inlined", False):
            rep = False
        if isinstance(e, ast.Name):
            return EXC if e.id in self.sources else env.get(e.id)
        if isinstance(e, ast.Constant):
            return STR if isinstance(e.value, str) else None
        if isinstance(e, ast.Lambda):
            return None             # not evaluated here
        if isinstance(e, ast.Attribute):
            return self.narrow(e, self.attr(e, self.sh(e.value, env, facts, rep), facts, rep), facts)
        if isinstance(e, ast.Subscript):
            return self.narrow(e, self.subscript(e, env, facts, rep), facts)
        if isinstance(e, ast.Call):
            return self.narrow(e, self.call(e, env, facts, rep), facts)
        if isinstance(e, ast.Starred):
            s = self.sh(e.value, env, facts, rep)
            if s in _OPAQUE:
                self.hit(rep, e, ("TypeError",), f"`*` over a value that need not be iterable ({s})")
            return s
        if isinstance(e, ast.NamedExpr):
            return self.sh(e.value, env, facts, rep)
        if isinstance(e, ast.IfExp):
            self.sh(e.test, env, facts, rep)
            a = self.sh(e.body, env, facts + tuple(cond_atoms(e.test, True)), rep)
            b = self.sh(e.orelse, env, facts + tuple(cond_atoms(e.test, False)), rep)
            return self.combine([a, b])
        if isinstance(e, ast.BoolOp):
            shapes, known = [], facts
            for v in e.values:
                shapes.append(self.sh(v, env, known, rep))
                known = known + tuple(cond_atoms(v, isinstance(e.op, ast.And)))
            return self.combine(shapes)
        if isinstance(e, ast.UnaryOp):
            s = self.sh(e.operand, env, facts, rep)
            if not isinstance(e.op, ast.Not) and s is not None:
                self.hit(rep, e, ("TypeError",), f"arithmetic on a value derived from the exception ({s})")
            return None
        if isinstance(e, ast.BinOp):
            return self.binop(e, env, facts, rep)
        if isinstance(e, ast.Compare):
            shapes = [self.sh(x, env, facts, rep) for x in [e.left] + list(e.comparators)]
            for i, op in enumerate(e.ops):
                if isinstance(op, (ast.Lt, ast.LtE, ast.Gt, ast.GtE)) and (
                        {shapes[i], shapes[i + 1]} & ({DICT} | set(_OPAQUE))):
                    self.hit(rep, e, ("TypeError",), "ordering comparison on a value of arbitrary type taken from the exception")
                elif isinstance(op, (ast.In, ast.NotIn)) and shapes[i + 1] in _OPAQUE:
                    self.hit(rep, e, ("TypeError",), f"membership test in a value that need not be a container ({shapes[i + 1]})")
            return None
        if isinstance(e, ast.JoinedStr):
            for v in e.values:
                if isinstance(v, ast.FormattedValue):
                    s = self.sh(v.value, env, facts, rep)
                    spec = v.format_spec
                    if spec is not None:
                        self.sh(spec, env, facts, rep)
                    if spec is not None and getattr(spec, "values", None) and v.conversion == -1 and s not in (None, STR):
                        self.hit(rep, v, ("TypeError",), f"a format spec applied to a value that need not support it ({s}); "
                                 "object.__format__ rejects a non-empty spec")
            return STR
        if isinstance(e, ast.FormattedValue):
            self.sh(e.value, env, facts, rep)
            return STR
        if isinstance(e, (ast.ListComp, ast.SetComp, ast.GeneratorExp, ast.DictComp)):
            return self.comprehension(e, env, facts, rep)
        for c in ast.iter_child_nodes(e):
            if isinstance(c, (ast.expr, ast.keyword, ast.Slice)):
                self.sh(c.value if isinstance(c, ast.keyword) else c, env, facts, rep)
        return None

    # ------------------------------------------------------------------
    def attr(self, e: ast.Attribute, sv: str | None, facts: tuple[tuple[ast.AST, bool], ...], rep: bool) -> str | None:
        a = e.attr
        if sv is None or sv in _SEQ or sv in (DICT, INFO):
            return None             # a method of str / tuple / list / dict: judged where it is called
        if sv in (OPT, TB):
            self.hit(rep, e, ("AttributeError",), f"`.{a}` on a value that is None when there is no exception / no cause / "
                     f"no traceback ({sv})")
            if sv == TB:
                return None
        if sv in (EXC, OPT):
            if a in _EXC_ATTRS:
                return _EXC_ATTRS[a]
            if a.startswith("__") and a.endswith("__") and a != "__notes__":
                return None         # object / BaseException protocol
            if not _has_attr(u(e.value), a, facts):
                self.hit(rep, e, ("AttributeError",), f"`.{a}` is not an attribute every exception has")
            return ANY
        if sv == TYPE:
            if a in ("__name__", "__qualname__", "__module__"):
                return STR
            if (a.startswith("__") and a.endswith("__")) or a == "mro":
                return None
            if not _has_attr(u(e.value), a, facts):
                self.hit(rep, e, ("AttributeError",), f"`.{a}` is not an attribute every exception class has")
            return ANY
        if sv == ANY:
            if not _has_attr(u(e.value), a, facts):
                self.hit(rep, e, ("AttributeError",), f"`.{a}` on an object of arbitrary type taken from the exception")
            return ANY
        return None

    def subscript(self, e: ast.Subscript, env: dict[str, str | None], facts: tuple[tuple[ast.AST, bool], ...],
                  rep: bool) -> str | None:
        sv = self.sh(e.value, env, facts, rep)
        idx = e.slice
        if isinstance(idx, ast.Slice):
            for part in (idx.lower, idx.upper, idx.step):
                self.sh(part, env, facts, rep)
            if sv in _SEQ:
                return {STRS1: STRS, PARTS: STRS}.get(sv, sv)
            if sv is not None:
                self.hit(rep, e, ("TypeError",), f"slice of a value that need not be a sequence ({sv})")
                return ANY
            return None
        self.sh(idx, env, facts, rep)
        if sv is None:
            return None
        t = u(e.value)
        if sv in _SEQ:
            i = _int_const(idx)
            low = max({STRS1: 1, PARTS: 3}.get(sv, 0), _len_facts(t, facts)[0])
            if i is None or (i + 1 if i >= 0 else -i) > low:
                what = {ARGS: "an exception built without arguments (`asyncio.TimeoutError()`, a bare `raise ValueError`) "
                              "has `args == ()`", STR: "the message of an exception can be empty"}.get(
                    sv, "the text of an exception can be empty / lack the separator")
                self.hit(rep, e, ("IndexError",), f"index into a sequence of unknown length: {what}")
            return ANY if sv == ARGS else STR
        if sv == DICT:
            if not _key_in(t, u(idx), facts):
                self.hit(rep, e, ("KeyError",), "key lookup in the attributes of an exception of arbitrary class")
            return ANY
        if sv == INFO:
            return {0: TYPE, 1: EXC, 2: None}.get(_int_const(idx), ANY)  # type: ignore[arg-type]
        self.hit(rep, e, ("TypeError", "IndexError", "KeyError"), f"subscript of a value that need not support it ({sv})")
        return ANY

    def elem(self, e: ast.AST, s: str | None, rep: bool) -> str | None:
        """Shape of the elements when a value of shape `s` is iterated."""
        if s in _OPAQUE:
            self.hit(rep, e, ("TypeError",), f"iteration over a value that need not be iterable ({s})")
            return ANY
        return {ARGS: ANY, STR: STR, STRS: STR, STRS1: STR, PARTS: STR, DICT: STR}.get(s)  # type: ignore[arg-type]

    def comprehension(self, e: Any, env: dict[str, str | None], facts: tuple[tuple[ast.AST, bool], ...],
                      rep: bool) -> str | None:
        env = dict(env)
        for g in e.generators:
            el = self.elem(g.iter, self.sh(g.iter, env, facts, rep), rep)
            for n in ast.walk(g.target):
                if isinstance(n, ast.Name):
                    env[n.id] = el if g.target is n else None
            for c in g.ifs:
                self.sh(c, env, facts, rep)
                facts = facts + tuple(cond_atoms(c, True))
        if isinstance(e, ast.DictComp):
            self.sh(e.key, env, facts, rep)
            self.sh(e.value, env, facts, rep)
            return None
        s = self.sh(e.elt, env, facts, rep)
        return STRS if s == STR else ARGS if s is not None else None

    def binop(self, e: ast.BinOp, env: dict[str, str | None], facts: tuple[tuple[ast.AST, bool], ...],
              rep: bool) -> str | None:
        ls = self.sh(e.left, env, facts, rep)
        if isinstance(e.op, ast.Mod) and ls == STR:
            if not (isinstance(e.left, ast.Constant) and isinstance(e.left.value, str)):
                self.sh(e.right, env, facts, rep)
                if not isinstance(e.left, (ast.JoinedStr, ast.Constant)):
                    self.hit(rep, e, ("ValueError", "TypeError", "KeyError"),
                             "text taken from the exception is used as a %-format string")
                return STR
            specs = [m for m in _PCT.finditer(e.left.value) if m.group(4) != "%"]
            right = e.right
            if isinstance(right, ast.Tuple):
                shapes = [self.sh(x, env, facts, rep) for x in right.elts]
                for m, s in zip(specs, shapes):
                    if m.group(4) not in "sra" and s is not None:
                        self.hit(rep, e, ("TypeError",), f"`%{m.group(4)}` applied to a value derived from the exception ({s})")
                return STR
            rs = self.sh(right, env, facts, rep)
            if rs == ARGS and _len_facts(u(right), facts)[1] != len(specs):
                self.hit(rep, e, ("TypeError",), "`%` with the exception's `args` tuple on the right: the number of "
                         "arguments of an arbitrary exception need not match the placeholders")
            elif rs == DICT:
                for m in specs:
                    if m.group(1) and not _key_in(u(right), repr(m.group(1)), facts):
                        self.hit(rep, e, ("KeyError",), f"`%({m.group(1)})` looked up in the attributes of an "
                                 "exception of arbitrary class")
            elif rs is not None and rs != ARGS:
                for m in specs:
                    if m.group(4) not in "sra":
                        self.hit(rep, e, ("TypeError",), f"`%{m.group(4)}` applied to a value derived from the exception ({rs})")
            return STR
        rs = self.sh(e.right, env, facts, rep)
        if {ls, rs} & ({DICT} | set(_OPAQUE)):
            self.hit(rep, e, ("TypeError",), "arithmetic / concatenation with a value of arbitrary type taken from the "
                     f"exception ({ls if ls in _OPAQUE or ls == DICT else rs})")
            return ANY
        if ls == STR and rs == STR and isinstance(e.op, ast.Add):
            return STR
        if ls == STR and isinstance(e.op, ast.Mult):
            return STR
        return None

    # ------------------------------------------------------------------
    def call(self, e: ast.Call, env: dict[str, str | None], facts: tuple[tuple[ast.AST, bool], ...],  # noqa: C901
             rep: bool) -> str | None:
        f = e.func
        pos = [self.sh(a, env, facts, rep) for a in e.args]
        kws = {k.arg: self.sh(k.value, env, facts, rep) for k in e.keywords}
        plain = not any(isinstance(a, ast.Starred) for a in e.args) and None not in kws
        if isinstance(f, ast.Name) and f.id not in env:
            name = f.id
            s0 = pos[0] if pos else None
            if name in ("str", "repr", "ascii"):
                return STR
            if name == "format":
                if len(e.args) == 2 and s0 not in (None, STR) and not (
                        isinstance(e.args[1], ast.Constant) and e.args[1].value == ""):
                    self.hit(rep, e, ("TypeError",), f"a format spec applied to a value that need not support it ({s0})")
                return STR
            if name == "type" and len(e.args) == 1:
                return TYPE if s0 is not None else None
            if name == "vars" and len(e.args) == 1 and s0 is not None:
                if s0 != EXC:
                    self.hit(rep, e, ("TypeError",), f"vars() of a value that need not have a __dict__ ({s0})")
                return DICT
            if name == "len" and plain and s0 in _OPAQUE:
                self.hit(rep, e, ("TypeError",), f"len() of a value that need not be sized ({s0})")
                return None
            if name in ("int", "float", "complex", "ord", "chr") and s0 is not None:
                self.hit(rep, e, ("ValueError", "TypeError"), f"{name}() of a value derived from the exception ({s0})")
                return None
            if name == "iter" and len(e.args) == 1:
                if s0 in _OPAQUE:
                    self.hit(rep, e, ("TypeError",), f"iteration over a value that need not be iterable ({s0})")
                return s0
            if name == "next" and plain and s0 is not None:
                el = self.elem(e.args[0], s0, rep)
                if len(e.args) == 1:
                    src = e.args[0]
                    src = src.args[0] if isinstance(src, ast.Call) and u(src.func) == "iter" and len(src.args) == 1 else src
                    low = max({STRS1: 1, PARTS: 3}.get(s0, 0), _len_facts(u(src), facts)[0])
                    if low < 1 or isinstance(src, (ast.GeneratorExp, ast.ListComp)):
                        self.hit(rep, e, ("StopIteration",), "next() without a default on a sequence that can be empty")
                    return el
                return self.combine([el, pos[1]])
            if name in ("min", "max") and plain and len(e.args) == 1 and "default" not in kws and s0 in _SEQ:
                if max({STRS1: 1, PARTS: 3}.get(s0, 0), _len_facts(u(e.args[0]), facts)[0]) < 1:
                    self.hit(rep, e, ("ValueError",), f"{name}() without a default on a sequence that can be empty")
                return self.elem(e.args[0], s0, False)
            if name == "getattr" and plain and len(e.args) >= 2 and s0 is not None:
                if len(e.args) == 3:
                    return ANY
                if isinstance(e.args[1], ast.Constant) and isinstance(e.args[1].value, str):
                    synth = ast.Attribute(value=e.args[0], attr=e.args[1].value, ctx=ast.Load())
                    keep, self.out = self.out, []
                    r = self.attr(synth, s0, facts, rep)
                    found, self.out = self.out, keep
                    for _n, errs, why in found:
                        self.hit(rep, e, errs, why)
                    return r
                if s0 in (EXC, OPT, ANY, TYPE):
                    self.hit(rep, e, ("AttributeError",), "getattr() without a default on a value derived from the exception")
                return ANY
            if name in ("list", "tuple", "sorted", "reversed", "set", "frozenset") and len(e.args) == 1 and s0 is not None:
                el = self.elem(e.args[0], s0, rep)
                return STRS if el == STR else ARGS
            if name == "map" and len(e.args) == 2 and pos[1] is not None:
                self.elem(e.args[1], pos[1], rep)
                return STRS if u(e.args[0]) in ("str", "repr", "ascii") else None
            return None
        if not isinstance(f, ast.Attribute):
            self.sh(f, env, facts, rep)
            return None
        m = f.attr
        if m == "exc_info" and u(f.value) == "sys" and not e.args:
            return INFO
        rv = self.sh(f.value, env, facts, rep)
        if m == "exception" and not e.args and not e.keywords and rv is None:
            return OPT              # <task>.exception(): None when the task ended normally
        s0 = pos[0] if pos else None
        if rv == STR:
            if m == "join" and len(e.args) == 1 and s0 in (ARGS, ANY, EXC, OPT, TYPE):
                self.hit(rep, e, ("TypeError",), "str.join over values of arbitrary type taken from the exception "
                         "(an element that is not a str)")
                return STR
            if m in ("format", "format_map"):
                self.format_call(e, f.value, pos, kws, env, facts, rep)
                return STR
            if m in ("index", "rindex"):
                self.hit(rep, e, ("ValueError",), f"str.{m}() raises when the text of the exception lacks the substring")
                return None
            if m in ("split", "rsplit"):
                sep = e.args[0] if e.args else next((k.value for k in e.keywords if k.arg == "sep"), None)
                return STRS1 if sep is not None and not (isinstance(sep, ast.Constant) and sep.value is None) else STRS
            if m in ("partition", "rpartition"):
                return PARTS
            if m == "splitlines":
                return STRS
            return STR if m in _STR_TO_STR or m == "join" else None
        if rv in (ARGS, STRS, STRS1, PARTS):
            if m == "index":
                self.hit(rep, e, ("ValueError",), "index() raises when the element is not there")
            return None
        if rv == DICT:
            if m == "pop" and len(e.args) == 1 and not _key_in(u(f.value), u(e.args[0]), facts):
                self.hit(rep, e, ("KeyError",), "pop() without a default on the attributes of an exception of arbitrary class")
            return ANY if m in ("get", "pop", "setdefault") else None
        if rv in (EXC, OPT, TB, ANY, TYPE):
            r = self.attr(f, rv, facts, rep)
            if rv in (EXC, OPT) and m == "with_traceback":
                return EXC
            if m in ("__str__", "__repr__"):
                return STR
            return ANY if r == ANY else None
        return None

    def format_call(self, e: ast.Call, fmt: ast.AST, pos: list[str | None], kws: dict[str | None, str | None],  # noqa: C901
                    env: dict[str, str | None], facts: tuple[tuple[ast.AST, bool], ...], rep: bool) -> None:
        import string

        star = next((i for i, a in enumerate(e.args) if isinstance(a, ast.Starred)), None)
        spread = any(k.arg is None and kws[None] == DICT for k in e.keywords) or (
            e.func.attr == "format_map" and bool(pos) and pos[0] == DICT)  # type: ignore[attr-defined]
        if not (isinstance(fmt, ast.Constant) and isinstance(fmt.value, str)):
            if not isinstance(fmt, ast.JoinedStr):
                self.hit(rep, e, ("KeyError", "IndexError", "ValueError"),
                         "text taken from the exception is used as a str.format template")
            return
        try:
            fields = [(n, spec, conv) for _lit, n, spec, conv in string.Formatter().parse(fmt.value) if n is not None]
        except ValueError:
            return
        auto = 0
        for name, spec, conv in fields:
            mm = _FIELD.match(name)
            if mm is None:
                continue
            head, rest = mm.group(1), mm.group(2)
            if head == "":
                head, auto = str(auto), auto + 1
            base: ast.AST | None = None
            if head.isdigit():
                i = int(head)
                if star is not None and i >= star:
                    sv = pos[star]
                    if sv in _SEQ and _len_facts(u(e.args[star].value), facts)[0] < i - star + 1:  # type: ignore[attr-defined]
                        self.hit(rep, e, ("IndexError",), f"field {{{name}}} is taken from `*` over a sequence derived from the "
                                 "exception, which can be shorter (an exception built without arguments has `args == ()`)")
                    continue
                if e.func.attr == "format" and i < len(e.args):  # type: ignore[attr-defined]
                    base = e.args[i]
            else:
                kw = next((k.value for k in e.keywords if k.arg == head), None)
                if kw is not None:
                    base = kw
                elif spread:
                    d = next((k.value for k in e.keywords if k.arg is None), e.args[0] if e.args else None)
                    if d is None or not _key_in(u(d), repr(head), facts):
                        self.hit(rep, e, ("KeyError",), f"field {{{name}}} is looked up in the attributes of an exception of "
                                 "arbitrary class (missing key)")
                    continue
            if base is None:
                continue
            node: ast.AST = base
            for am, im in _FIELD_STEP.findall(rest):
                node = ast.Attribute(value=node, attr=am, ctx=ast.Load()) if am else ast.Subscript(
                    value=node, slice=ast.Constant(int(im) if im.lstrip("-").isdigit() else im), ctx=ast.Load())
            keep, self.out = self.out, []
            s = self.sh(node, env, facts, rep) if node is not base else self.sh(base, env, facts, False)
            found, self.out = self.out, keep
            for _n, errs, why in found:
                self.hit(rep, e, errs, f"field {{{name}}}: {why}")
            if spec and conv is None and s not in (None, STR):
                self.hit(rep, e, ("TypeError",), f"field {{{name}}}: a format spec applied to a value that need not support it ({s})")


_CATCHES = {"IndexError": {"IndexError", "LookupError"}, "KeyError": {"KeyError", "LookupError"},
            "StopIteration": {"StopIteration"}, "AttributeError": {"AttributeError"}, "TypeError": {"TypeError"},
            "ValueError": {"ValueError"}}


def caught_by(errors: Iterable[str], names: Iterable[str]) -> bool:
    """Do handlers for the exception classes `names` catch every one of `errors`?"""
    have = {n.split(".")[-1] for n in names}
    if have & {"Exception", "BaseException"}:
        return True
    return all(have & _CATCHES.get(x, {x}) for x in errors)


class FollowExec(SymExec):
    def __init__(self, prog: Program, fn: FuncInfo, max_depth: int = 4, max_paths: int = 2048,
                 anchors: Iterable[str] = ()) -> None:
        super().__init__(max_paths=max_paths, follow=self._follow_target)
        self.prog = prog
        self.fn = fn
        self.anchors = set(ANCHOR_NAMES) | set(anchors)   # functions bound by role: never read into a caller
        self.guard: list[str] = []      # catch levels of the enclosing try bodies
        self.unfollowed: set[str] = set()
        # where an effect happens: enclosing try *bodies* (statement id, classes their handlers catch), enclosing
        # try statements that have a `finally` (body, handlers, else), and the `finally` suites it lies in
        self.tries: list[tuple[int, frozenset[str]]] = []
        self.fins: list[int] = []
        self.infinal: list[int] = []
        self.exc_ops = ExcOps(set())    # .sources: the symbols standing for an exception of the finished task
        self.exc_names: dict[str, str] = {}     # symbol -> the name the handler gave the exception

    # ------------------------------------------------------------------ helper resolution
    def helper_name(self, func: ast.AST) -> str | None:
        """Name of the private helper (same class / same module, not an anchor) `func` denotes."""
        cls = self.fn.cls
        if isinstance(func, ast.Attribute) and isinstance(func.value, ast.Name) and cls is not None \
                and func.value.id in ("self", "cls", cls.name) and func.attr.startswith("_") \
                and not func.attr.startswith("__") and func.attr not in self.anchors:
            m = self.prog.resolve_method(cls, func.attr)
            if m is not None and m.cls is not None:
                return func.attr
        if isinstance(func, ast.Name) and func.id.startswith("_") and func.id in self.fn.module.functions \
                and func.id not in self.anchors:
            return func.id
        return None

    def _follow_target(self, call: ast.Call) -> Any:
        """`follow` callback of the engine: the FunctionDef of the private helper a call denotes (the
        engine then executes it on the path, wherever in an expression the call stands)."""
        name = self.helper_name(call.func)
        if name is None:
            return None
        if isinstance(call.func, ast.Name):
            h: FuncInfo | None = self.fn.module.functions[name]
        else:
            assert self.fn.cls is not None
            h = self.prog.resolve_method(self.fn.cls, name)
            if h is not None and any(name in sub.methods for sub in self.prog.subclasses(self.fn.cls)):
                h = None
        ok = h is not None and h.node is not self.fn.node \
            and all(isinstance(d, ast.Name) and d.id in _OK_DECORATORS for d in h.node.decorator_list)
        if not ok:
            self.unfollowed.add(name)
            return None
        assert h is not None
        return h.node

    # ------------------------------------------------------------------ effects carry the try context
    def _log(self, p: Path, orig: ast.AST, sub: ast.AST, lineno: int) -> None:
        n0 = len(p.effects)
        self.may_raise(p, sub, lineno)
        super()._log(p, orig, sub, lineno)
        level = "B" if "B" in self.guard else "E" if "E" in self.guard else ""
        for e in p.effects[n0:]:
            e.guarded = level  # type: ignore[attr-defined]
            if e.kind == "call" and isinstance(e.node, ast.Call):
                name = self.helper_name(e.node.func)
                if name is not None:
                    self.unfollowed.add(name)   # evaluated, but not walked (recursion, depth, arity ...)

    # ------------------------------------------------------------------ operations on the caught exception that may raise
    def may_raise(self, p: Path, sub: ast.AST, lineno: int) -> None:
        """Log a 'mayraise' effect for every operation evaluated here, on a value derived from a caught
        exception, that raises for some shape of that exception (ExcOps); the path conditions discharge
        guarded uses."""
        if not any(isinstance(n, ast.Name) and n.id in self.exc_ops.sources for n in ast.walk(sub)) and not any(
                isinstance(n, ast.Attribute) and n.attr in ("exception", "exc_info") for n in ast.walk(sub)):
            return
        facts = [(atom, o) for k, _ko, atom, _ln, o in p.conds if not (isinstance(k, tuple) and k[:1] == ("except",))]
        seen = {(e.text, e.lineno) for e in p.effects if e.kind == "mayraise"}
        for node, errors, why in self.exc_ops.scan(sub, facts):
            if (u(node), lineno) in seen:
                continue
            seen.add((u(node), lineno))
            eff = Effect("mayraise", node, p.epoch, lineno)
            eff.errors, eff.why = errors, why  # type: ignore[attr-defined]
            p.effects.append(eff)

    def show(self, node: ast.AST) -> str:
        """Text of a substituted expression with the caught exception under the name its handler gave it."""
        t = u(node)
        for sym, name in self.exc_names.items():
            t = t.replace(sym, name)
        return t

    def _call_helper(self, p: Path, call: ast.Call, target: Any, lineno: int) -> list[tuple[Path, ast.AST | None]]:
        # the arguments are evaluated at the call; the engine logs only what is left of the expression after
        # the helper was read in
        for a in list(call.args) + [k.value for k in call.keywords]:
            self.may_raise(p, a, lineno)
        return super()._call_helper(p, call, target, lineno)

    def _bind(self, p: Path, target: ast.AST, value: ast.AST, lineno: int) -> None:
        if isinstance(target, (ast.Tuple, ast.List)) and not (
                isinstance(value, (ast.Tuple, ast.List)) and len(value.elts) == len(target.elts)):
            facts = [(atom, o) for _k, _ko, atom, _ln, o in p.conds]
            s = self.exc_ops.shape(value, facts)
            n = len(target.elts)
            starred = any(isinstance(t, ast.Starred) for t in target.elts)
            low, exact = _len_facts(u(value), facts)
            if s == PARTS:
                low, exact = 3, 3
            if s is not None and s != INFO and not (exact == n and not starred) and not (starred and low >= n - 1):
                eff = Effect("mayraise", ast.Assign(targets=[target], value=value, type_comment=None, lineno=lineno),
                             p.epoch, lineno)
                eff.errors = ("ValueError", "TypeError")  # type: ignore[attr-defined]
                eff.why = (f"unpacking a value derived from the exception ({s}) into {n} names: the number of "  # type: ignore[attr-defined]
                           "elements depends on the exception")
                p.effects.append(eff)
        super()._bind(p, target, value, lineno)

    # ------------------------------------------------------------------ statements
    def stmt(self, p: Path, s: ast.stmt) -> list[tuple[Path, str]]:
        n0 = len(p.effects)
        names: frozenset[str] | None = None
        if isinstance(s, (ast.With, ast.AsyncWith)):
            for item in s.items:
                c = item.context_expr
                if isinstance(c, ast.Call) and u(c.func).split(".")[-1] == "suppress":
                    names = (names or frozenset()) | {u(a) for a in c.args}
        if names is not None:
            self.tries.append((id(s), names))
        try:
            out = self._stmt(p, s)
        finally:
            if names is not None:
                self.tries.pop()
        where = (tuple(self.tries), tuple(self.fins), tuple(self.infinal))
        for q, _st in out:
            for e in q.effects[n0:]:
                if not hasattr(e, "where"):
                    e.where = where  # type: ignore[attr-defined]
        return out

    def _stmt(self, p: Path, s: ast.stmt) -> list[tuple[Path, str]]:
        if isinstance(s, ast.Try):
            return self._try(p, s)
        if isinstance(s, ast.FunctionDef) and not s.decorator_list:
            # a closure is a value: a one-expression nested function is carried as the equivalent lambda
            # with the variables it captures substituted (so it can be returned / passed on and still read)
            body = [x for x in s.body if not (isinstance(x, ast.Expr) and isinstance(x.value, ast.Constant))]
            out = super().stmt(p, s)
            a = s.args
            if len(body) == 1 and isinstance(body[0], (ast.Expr, ast.Return)) and body[0].value is not None \
                    and not a.defaults and not a.kw_defaults and not a.vararg and not a.kwarg and not a.kwonlyargs:
                bound = {x.arg for x in a.posonlyargs + a.args}
                bound |= {n.id for n in ast.walk(body[0]) if isinstance(n, ast.Name) and isinstance(n.ctx, ast.Store)}
                value = _Subst({k: v for k, v in p.env.items() if k not in bound}).visit(copy.deepcopy(body[0].value))
                plain = ast.arguments(posonlyargs=[], args=[ast.arg(arg=x.arg) for x in a.posonlyargs + a.args],
                                      kwonlyargs=[], kw_defaults=[], defaults=[])
                lam = ast.copy_location(ast.Lambda(args=plain, body=value), s)
                ast.fix_missing_locations(lam)
                p.env[s.name] = lam
            return out
        return super().stmt(p, s)

    def _try(self, p: Path, s: ast.Try) -> list[tuple[Path, str]]:
        """As SymExec's try (handler paths fork from the entry of the try), with the catch level of the
        handlers visible while the body is walked."""
        ln = getattr(s, "lineno", 0)
        entry = p.fork()
        level = "B" if any(catches(h) == "B" for h in s.handlers) else \
            "E" if any(catches(h) == "E" for h in s.handlers) else ""
        probe = lookup_probe(s)
        fact: tuple[Any, ast.AST] | None = None
        if probe is not None:       # `k in d`, as the state stands when the try is entered
            coll = _Subst(dict(entry.env)).visit(copy.deepcopy(probe[0]))
            k = _Subst(dict(entry.env)).visit(copy.deepcopy(probe[1]))
            atom = ast.copy_location(ast.Compare(left=k, ops=[ast.In()], comparators=[coll]), s)
            ast.fix_missing_locations(atom)
            fact = (("in", u(k), u(coll)), atom)
        caught: set[str] = set()
        for h in s.handlers:
            caught |= {"BaseException"} if h.type is None else {u(x) for x in h.type.elts} \
                if isinstance(h.type, ast.Tuple) else {u(h.type)}
        if s.finalbody:
            self.fins.append(id(s))
        n_entry = len(entry.effects)
        self.guard.append(level)
        self.tries.append((id(s), frozenset(caught)))
        try:
            normal = self.block(p, s.body)
        finally:
            self.guard.pop()
            self.tries.pop()
        # the try asks for the outcome of a task: what its handlers catch is an exception of arbitrary shape
        asks = any(e.kind == "call" and isinstance(e.node, ast.Call) and isinstance(e.node.func, ast.Attribute)
                   and e.node.func.attr in ("result", "exception") and not e.node.args and not e.node.keywords
                   for q, _st in normal for e in q.effects[n_entry:])
        if fact is not None:
            for q, _st in normal:   # the lookup succeeded
                q.conds.append((fact[0], True, fact[1], ln, True))
        res: list[tuple[Path, str]] = []
        for q, st in normal:
            res.extend(self.block(q, s.orelse) if st == "next" else [(q, st)])
        bound: set[str] = set()
        for b in s.body:
            for n in ast.walk(b):
                if isinstance(n, ast.Name) and isinstance(n.ctx, (ast.Store, ast.Del)):
                    bound.add(n.id)
        for h in s.handlers:
            q = entry.fork()
            for b2 in bound:
                q.env[b2] = ast.Name(id=f"<{b2}@try{ln}>", ctx=ast.Load())
            key = ("except", u(h.type) if h.type is not None else "BaseException", ln)
            q.conds.append((key, True, h.type if h.type is not None else ast.Constant(None), h.lineno, True))
            if fact is not None and probe is not None and h is probe[2]:    # the lookup raised KeyError
                q.conds.append((fact[0], False, fact[1], h.lineno, False))
            q.epoch += 1
            if h.name:
                sym = f"<exc {u(h.type) if h.type is not None else 'BaseException'}@{h.lineno}>"
                q.env[h.name] = ast.Name(id=sym, ctx=ast.Load())
                self.exc_names[sym] = h.name
                if asks:
                    self.exc_ops.sources.add(sym)
            res.extend(self.block(q, h.body))
        out: list[tuple[Path, str]] = []
        if s.finalbody:
            self.fins.pop()
            self.infinal.append(id(s))
        try:
            for q, st in res:
                if s.finalbody:
                    for q2, st2 in self.block(q, s.finalbody):
                        out.append((q2, st if st2 == "next" else st2))
                else:
                    out.append((q, st))
        finally:
            if s.finalbody:
                self.infinal.pop()
        return out

    # ------------------------------------------------------------------ entry points
    def function_paths(self, node: ast.FunctionDef | ast.AsyncFunctionDef) -> list[Path]:
        out = []
        for p, st in self.block(Path(), list(_strip_doc(node.body))):
            if st == "next":
                p.exit, p.ret, p.lineno = "fall", None, getattr(node, "end_lineno", 0) or 0
            elif st in ("break", "continue"):
                raise SymUnsupported(f"{node.name}: {st} outside a loop")
            out.append(p)
        return out

    def block_paths(self, stmts: list[ast.stmt], env: dict[str, ast.AST] | None = None) -> list[tuple[Path, str]]:
        p = Path()
        p.env = dict(env or {})
        return self.block(p, list(stmts))


def _leading_walrus(test: ast.AST) -> ast.NamedExpr | None:
    """The assignment expression that is evaluated first and unconditionally in a condition."""
    t = test
    while True:
        if isinstance(t, ast.NamedExpr):
            return t if isinstance(t.target, ast.Name) else None
        if isinstance(t, ast.UnaryOp) and isinstance(t.op, ast.Not):
            t = t.operand
        elif isinstance(t, ast.BoolOp):
            t = t.values[0]
        elif isinstance(t, ast.Compare):
            t = t.left
        else:
            return None


def hoist_walrus(tree: ast.AST) -> None:
    """`if (x := e) ...:` -> `x = e` followed by `if x ...:` (in place; same evaluation order, so the
    symbolic walker sees an ordinary local)."""
    changed = True
    while changed:
        changed = False
        for node in ast.walk(tree):
            for field in ("body", "orelse", "finalbody"):
                suite = getattr(node, field, None)
                if not (isinstance(suite, list) and suite and isinstance(suite[0], ast.stmt)):
                    continue
                for i, st in enumerate(suite):
                    w = _leading_walrus(st.test) if isinstance(st, ast.If) else None
                    if w is None:
                        continue
                    assign = ast.copy_location(ast.Assign(targets=[ast.Name(id=w.target.id, ctx=ast.Store())],  # type: ignore[attr-defined]
                                                          value=w.value), st)
                    name = ast.copy_location(ast.Name(id=w.target.id, ctx=ast.Load()), w)  # type: ignore[attr-defined]
                    if st.test is w:
                        st.test = name
                    else:
                        for parent in ast.walk(st.test):
                            for f, v in ast.iter_fields(parent):
                                if v is w:
                                    setattr(parent, f, name)
                                elif isinstance(v, list) and any(x is w for x in v):
                                    setattr(parent, f, [name if x is w else x for x in v])
                    suite[i:i + 1] = [assign, st]
                    changed = True
                    break
                if changed:
                    break
            if changed:
                break
    ast.fix_missing_locations(tree)


def _pattern_test(pat: ast.AST, subj: ast.expr) -> tuple[ast.expr | None, list[ast.stmt]] | None:
    """(condition or None for 'always', bindings) equivalent to matching `subj` against a value /
    singleton / or / capture / wildcard pattern; None for pattern kinds that are not desugared."""
    if isinstance(pat, ast.MatchValue):
        return ast.Compare(left=copy.deepcopy(subj), ops=[ast.Eq()], comparators=[pat.value]), []
    if isinstance(pat, ast.MatchSingleton):
        return ast.Compare(left=copy.deepcopy(subj), ops=[ast.Is()], comparators=[ast.Constant(pat.value)]), []
    if isinstance(pat, ast.MatchOr):
        parts = [_pattern_test(x, subj) for x in pat.patterns]
        if any(x is None or x[1] for x in parts):
            return None
        if any(x[0] is None for x in parts):  # type: ignore[index]
            return None, []
        return ast.BoolOp(op=ast.Or(), values=[x[0] for x in parts]), []  # type: ignore[index,misc]
    if isinstance(pat, ast.MatchAs):
        inner: tuple[ast.expr | None, list[ast.stmt]] | None = (None, []) if pat.pattern is None \
            else _pattern_test(pat.pattern, subj)
        if inner is None:
            return None
        binds = list(inner[1])
        if pat.name is not None:
            binds.append(ast.Assign(targets=[ast.Name(id=pat.name, ctx=ast.Store())], value=copy.deepcopy(subj)))
        return inner[0], binds
    return None


def desugar_match(tree: ast.AST) -> None:
    """`match` over value / singleton / or / capture / wildcard patterns (with guards) -> the equivalent
    if / elif chain, in place; other pattern kinds are left alone (the walker then fails closed)."""
    n_tmp = 0
    for node in list(ast.walk(tree)):
        for field in ("body", "orelse", "finalbody"):
            suite = getattr(node, field, None)
            if not (isinstance(suite, list) and suite and isinstance(suite[0], ast.stmt)):
                continue
            i = 0
            while i < len(suite):
                m = suite[i]
                i += 1
                if not isinstance(m, ast.Match):
                    continue
                pre: list[ast.stmt] = []
                subj: ast.expr = m.subject
                if not isinstance(subj, (ast.Name, ast.Attribute, ast.Constant)):
                    n_tmp += 1
                    pre.append(ast.Assign(targets=[ast.Name(id=f"__match_subject_{n_tmp}", ctx=ast.Store())], value=subj))
                    subj = ast.Name(id=f"__match_subject_{n_tmp}", ctx=ast.Load())
                arms: list[tuple[ast.expr | None, list[ast.stmt]]] = []
                ok = True
                for case in m.cases:
                    t = _pattern_test(case.pattern, subj)
                    if t is None or (t[1] and case.guard is not None):   # a guard may read the capture: keep it simple
                        ok = False
                        break
                    cond = t[0]
                    if case.guard is not None:
                        cond = case.guard if cond is None else ast.BoolOp(op=ast.And(), values=[cond, case.guard])
                    arms.append((cond, t[1] + case.body))
                    if cond is None:
                        break       # irrefutable: later cases are unreachable
                if not ok:
                    continue
                chain: list[ast.stmt] = []
                for cond, body in reversed(arms):
                    chain = list(body) if cond is None else [ast.If(test=cond, body=list(body), orelse=chain)]
                new = pre + (chain or [ast.Pass()])
                for x in new:
                    ast.copy_location(x, m)
                    ast.fix_missing_locations(x)
                suite[i - 1:i] = new
                i += len(new) - 1


class Walk:
    """One anchored function read through its helpers: the tree with simple helpers spliced in and a
    FollowExec for what is left."""

    def __init__(self, prog: Program, fn: FuncInfo, anchors: Iterable[str] = ()) -> None:
        self.fn = fn
        self.tree = inline_helpers(prog, fn, exclude=anchors)
        self.spliced: set[str] = set(getattr(self.tree, "_spliced", ()))
        desugar_match(self.tree)
        hoist_walrus(self.tree)
        fold_callback_defaults(self.tree)
        self.ex = FollowExec(prog, fn, anchors=anchors)
        try:
            self.paths = self.ex.function_paths(self.tree)
        except SymUnsupported as exc:
            raise AnalysisError(f"{fn.qual}: {exc}") from exc
        if not self.paths:
            raise AnalysisError(f"{fn.qual}: no path found")
        # references the walker never evaluates (bodies of lambdas / nested functions)
        for n in ast.walk(self.tree):
            if isinstance(n, (ast.Lambda, ast.FunctionDef, ast.AsyncFunctionDef)) and n is not self.tree:
                for x in ast.walk(n):
                    name = self.ex.helper_name(x) if isinstance(x, (ast.Attribute, ast.Name)) else None
                    if name is not None:
                        self.ex.unfollowed.add(name)


# ---------------------------------------------------------------------------------------------
class HelperGraph:
    """References between the methods of one class (`self.m`, `cls.m`, `Class.m`)."""

    def __init__(self, cls: ClassInfo, anchors: Iterable[str]) -> None:
        self.cls = cls
        self.anchors = tuple(anchors)
        self.refs: dict[str, list[tuple[str, bool]]] = {}   # callee -> [(referencing method, is a direct call)]
        for m in cls.methods.values():
            call_funcs = {id(n.func) for n in ast.walk(m.node) if isinstance(n, ast.Call)}
            for n in ast.walk(m.node):
                if isinstance(n, ast.Attribute) and isinstance(n.value, ast.Name) \
                        and n.value.id in ("self", "cls", cls.name) and n.attr in cls.methods:
                    self.refs.setdefault(n.attr, []).append((m.name, id(n) in call_funcs))

    def absorbed_by(self, name: str, unfollowed: set[str], _seen: frozenset[str] = frozenset()) -> set[str] | None:
        """The anchors a private helper is read into: every reference to it is a direct call from an
        anchor or from another absorbed helper and every such call was walked.  None otherwise."""
        if name in self.anchors:
            return {name}
        if name in _seen or name in unfollowed or not name.startswith("_") or name.startswith("__"):
            return None
        refs = [(m, c) for m, c in self.refs.get(name, []) if m != name]
        if not refs or not all(c for _m, c in refs):
            return None
        out: set[str] = set()
        for m, _c in refs:
            sub = self.absorbed_by(m, unfollowed, _seen | {name})
            if sub is None:
                return None
            out |= sub
        return out


    def closure(self, name: str, stop: Iterable[str] = ()) -> set[str]:
        """`name` and the methods it (transitively) references, not looking through `stop`."""
        callers: dict[str, set[str]] = {}
        for callee, refs in self.refs.items():
            for m, _c in refs:
                callers.setdefault(m, set()).add(callee)
        out, work, halt = {name}, [name], set(stop)
        while work:
            for c in callers.get(work.pop(), ()):
                if c not in out and c not in halt:
                    out.add(c)
                    work.append(c)
        return out


def callback_target(cb: ast.AST, nested: dict[str, ast.FunctionDef],
                    methods: dict[str, FuncInfo] | None = None, depth: int = 0,
                    module_functions: dict[str, FuncInfo] | None = None) -> str | None:
    """The method `self.<name>` a done-callback expression ends up calling: `self.m`, `lambda t:
    self.m(...)`, `functools.partial(self.m, ...)`, a nested one-statement def doing the same, or a
    call of a private method that *returns* one of these (a callback factory)."""
    def self_attr(e: ast.AST) -> str | None:
        # `self.m`; inside a factory the actor may travel under another name: any `<name>.m` with m a method
        if isinstance(e, ast.Attribute) and isinstance(e.value, ast.Name) and (
                e.value.id == "self" or (depth > 0 and methods is not None and e.attr in methods)):
            return e.attr
        return None

    if isinstance(cb, ast.Lambda):
        return self_attr(cb.body.func) if isinstance(cb.body, ast.Call) else None
    if isinstance(cb, ast.Call) and u(cb.func).split(".")[-1] == "partial" and cb.args:
        return self_attr(cb.args[0])
    factory: Any = None
    if isinstance(cb, ast.Call) and methods is not None and depth < 3:
        if self_attr(cb.func) in methods:
            factory = methods[self_attr(cb.func)].node  # type: ignore[index]
        elif isinstance(cb.func, ast.Name) and module_functions is not None and cb.func.id in module_functions:
            factory = module_functions[cb.func.id].node
    if factory is not None:
        inner = {n.name: n for n in ast.walk(factory) if isinstance(n, ast.FunctionDef) and n is not factory}
        found = {callback_target(r.value, inner, methods, depth + 1, module_functions) for r in ast.walk(factory)
                 if isinstance(r, ast.Return) and r.value is not None
                 and not any(r in ast.walk(d) for d in inner.values())}
        return next(iter(found)) if len(found) == 1 else None
    if isinstance(cb, ast.Name) and cb.id in nested:
        stmts = [x for x in nested[cb.id].body if not (isinstance(x, ast.Expr) and isinstance(x.value, ast.Constant))]
        if len(stmts) == 1 and isinstance(stmts[0], (ast.Expr, ast.Return)) and isinstance(stmts[0].value, ast.Call):
            return self_attr(stmts[0].value.func)
        return None
    return self_attr(cb)


# --------------------------------------------------------------------------------------------- parameters by role
class Signature:
    """The parameters of a method as a call `self.m(...)` binds them."""

    def __init__(self, fn: FuncInfo) -> None:
        a = fn.node.args
        static = any(isinstance(d, ast.Name) and d.id == "staticmethod" for d in fn.node.decorator_list)
        skip = 0 if static or fn.cls is None else 1                     # self / cls
        self.posonly = [x.arg for x in a.posonlyargs][skip:]
        self.positional = [x.arg for x in a.posonlyargs + a.args][skip:]  # may be passed by position, in this order
        self.kwonly = [x.arg for x in a.kwonlyargs]
        self.names = self.positional + self.kwonly
        self.variadic = a.vararg is not None or a.kwarg is not None

    def bind_nodes(self, call: ast.AST) -> dict[str, ast.AST] | None:
        """Arguments of a call by parameter name; None when the call is not a plain binding of these
        parameters (star arguments, too many positionals, unknown / repeated / positional-only keywords)."""
        if not isinstance(call, ast.Call) or self.variadic or any(isinstance(a, ast.Starred) for a in call.args) \
                or any(k.arg is None for k in call.keywords) or len(call.args) > len(self.positional):
            return None
        out: dict[str, ast.AST] = dict(zip(self.positional, call.args))
        for k in call.keywords:
            assert k.arg is not None
            if k.arg in out or k.arg not in self.names or k.arg in self.posonly:
                return None
            out[k.arg] = k.value
        return out

    def bind(self, call: ast.AST) -> dict[str, str] | None:
        a = self.bind_nodes(call)
        return None if a is None else {k: u(v) for k, v in a.items()}

    def render(self, values: dict[str, str]) -> str:
        """Argument list text that binds the given parameters to the given expression texts."""
        parts: list[str] = []
        by_pos = True
        for n in self.positional:
            if n in values and by_pos:
                parts.append(values[n])
            else:
                by_pos = False
                if n in values:
                    parts.append(f"{n}={values[n]}")
        parts += [f"{n}={values[n]}" for n in self.kwonly if n in values]
        return ", ".join(parts)


def param_uses(paths: Iterable[Path], names: Iterable[str], mappings: Iterable[str]) -> dict[str, set[str]]:
    """What the walked paths of a method do with each of its parameters (locals substituted away, helpers
    read in, so a parameter appears under its own name wherever its value is used):
      'key'      key of a lookup / membership test / store / delete on one of the `mappings`
      'task'     `<p>.result()` / `<p>.exception()` is asked for
      'request'  handed to `...distribute_power(...)`"""
    names = list(names)
    maps = set(mappings) | {f"{m}.keys()" for m in mappings}
    uses: dict[str, set[str]] = {n: set() for n in names}

    def name_of(e: ast.AST | None) -> str | None:
        return e.id if isinstance(e, ast.Name) and e.id in uses else None

    roots: list[ast.AST] = []
    for p in paths:
        roots += [e.node for e in p.effects] + [atom for _k, _o, atom, _ln, _w in p.conds]
        if p.ret is not None:
            roots.append(p.ret)
    for r in roots:
        for n in ast.walk(r):
            hit: tuple[str | None, str] | None = None
            if isinstance(n, ast.Subscript) and u(n.value) in maps:
                hit = (name_of(n.slice), "key")
            elif isinstance(n, ast.Compare) and len(n.ops) == 1 and isinstance(n.ops[0], (ast.In, ast.NotIn)) \
                    and u(n.comparators[0]) in maps:
                hit = (name_of(n.left), "key")
            elif isinstance(n, ast.Call) and isinstance(n.func, ast.Attribute):
                if n.func.attr in ("get", "pop", "setdefault", "__contains__", "__getitem__", "__delitem__") \
                        and u(n.func.value) in maps and n.args:
                    hit = (name_of(n.args[0]), "key")
                elif n.func.attr in ("result", "exception") and not n.args and not n.keywords:
                    hit = (name_of(n.func.value), "task")
                elif n.func.attr == "distribute_power":
                    for a in list(n.args) + [k.value for k in n.keywords]:
                        if name_of(a) is not None:
                            uses[name_of(a)].add("request")  # type: ignore[index]
            if hit is not None and hit[0] is not None:
                uses[hit[0]].add(hit[1])
    return uses


def assign_roles(names: list[str], uses: dict[str, set[str]], roles: list[str]) -> dict[str, str] | None:
    """role -> parameter.  A role goes to the one parameter that is used that way and in no other role's
    way; what the uses leave open is settled by the historical order of the roles over the remaining
    parameters (the order of the signature).  None when there are fewer parameters than roles."""
    if len(names) < len(roles):
        return None
    out: dict[str, str] = {}
    for r in roles:
        cands = [n for n in names if r in uses.get(n, ())]
        if len(cands) == 1 and not (uses[cands[0]] & set(roles)) - {r}:
            out[r] = cands[0]
    rest = [n for n in names if n not in out.values()]
    for r in roles:
        if r not in out:
            out[r] = rest.pop(0)
    return out



# --------------------------------------------------------------------------------------------- closures
_FUNCS = (ast.FunctionDef, ast.AsyncFunctionDef)
_SCOPES = (ast.FunctionDef, ast.AsyncFunctionDef, ast.Lambda)
_COMPS = (ast.ListComp, ast.SetComp, ast.DictComp, ast.GeneratorExp)


def scope_nodes(scope: ast.AST) -> list[ast.AST]:
    """The nodes that are evaluated in the scope of a function / lambda itself: its body without the
    bodies of nested functions, lambdas and classes (their defaults / decorators / bases are evaluated
    here and do belong to it) and without the targets of comprehensions (a scope of their own)."""
    out: list[ast.AST] = []

    def walk(n: ast.AST) -> None:
        out.append(n)
        if isinstance(n, _FUNCS):
            for x in n.decorator_list + n.args.defaults + [d for d in n.args.kw_defaults if d is not None]:
                walk(x)
        elif isinstance(n, ast.Lambda):
            for x in n.args.defaults + [d for d in n.args.kw_defaults if d is not None]:
                walk(x)
        elif isinstance(n, ast.ClassDef):
            for x in n.decorator_list + n.bases + [k.value for k in n.keywords]:
                walk(x)
        elif isinstance(n, _COMPS):
            for g in n.generators:
                walk(g.iter)
                for i in g.ifs:
                    walk(i)
            for x in ([n.key, n.value] if isinstance(n, ast.DictComp) else [n.elt]):
                walk(x)
        else:
            for c in ast.iter_child_nodes(n):
                walk(c)

    for s in (scope.body if isinstance(scope.body, list) else [scope.body]):  # type: ignore[attr-defined]
        walk(s)
    return out


def _params(scope: ast.AST) -> set[str]:
    a = scope.args  # type: ignore[attr-defined]
    return {x.arg for x in a.posonlyargs + a.args + a.kwonlyargs} | {x.arg for x in (a.vararg, a.kwarg) if x is not None}


def binding_sites(scope: ast.AST, name: str) -> list[ast.AST]:
    """The places of `scope` (not of nested scopes) that (re-)bind the local `name`: assignment / loop /
    with / walrus / del targets, `except ... as name`, nested `def name` / `class name`, imports."""
    out: list[ast.AST] = []
    for n in scope_nodes(scope):
        if isinstance(n, ast.Name) and n.id == name and isinstance(n.ctx, (ast.Store, ast.Del)):
            out.append(n)
        elif isinstance(n, ast.ExceptHandler) and n.name == name:
            out.append(n)
        elif isinstance(n, (*_FUNCS, ast.ClassDef)) and n.name == name:
            out.append(n)
        elif isinstance(n, (ast.Import, ast.ImportFrom)) and any(
                (a.asname or a.name.split(".")[0]) == name for a in n.names):
            out.append(n)
    return out


def _binds(scope: ast.AST, name: str) -> bool:
    declared = {x for n in scope_nodes(scope) if isinstance(n, (ast.Global, ast.Nonlocal)) for x in n.names} \
        if not isinstance(scope, ast.Lambda) else set()
    return name not in declared and (name in _params(scope) or bool(binding_sites(scope, name)))


def scope_chain(root: ast.AST, target: ast.AST) -> list[ast.AST] | None:
    """The function / lambda scopes from `root` (a function) down to the one `target` is evaluated in
    (a nested def is evaluated in its parent's scope: its *name* is bound there)."""
    def find(scope: ast.AST, chain: list[ast.AST]) -> list[ast.AST] | None:
        for n in scope_nodes(scope):
            if n is target:
                return chain
        for n in scope_nodes(scope):
            if isinstance(n, _SCOPES):
                r = find(n, chain + [n])
                if r is not None:
                    return r
        return None

    return find(root, [root])


def closure_reads(closure: ast.AST, within: list[ast.AST] | None = None) -> set[str]:
    """The free variables of a lambda / nested def (names it reads and does not bind itself); `within`
    restricts the reads to those below the given sub-expressions."""
    own = _params(closure) | {n.id for n in scope_nodes(closure)
                              if isinstance(n, ast.Name) and isinstance(n.ctx, (ast.Store, ast.Del))}
    roots = within if within is not None else (
        closure.body if isinstance(closure.body, list) else [closure.body])  # type: ignore[attr-defined]
    return {n.id for r in roots for n in ast.walk(r)
            if isinstance(n, ast.Name) and isinstance(n.ctx, ast.Load)} - own


def rebound_after(root: ast.AST, closure: ast.AST, names: Iterable[str]) -> list[tuple[str, ast.AST, ast.AST]]:
    """(variable, scope, re-binding site) for every free variable in `names` of the closure `closure`
    (somewhere inside the function `root`) that is a local of an enclosing function and is bound again
    at a point that can execute *after* the closure was created: the closure then sees the later value
    (Python closes over variables, not values).  Decided on the control-flow graph of the function that
    owns the variable (loop back-edges and exceptional edges included)."""
    from ..engine.cfg import CFG

    chain = scope_chain(root, closure)
    if chain is None:
        raise AnalysisError(f"{getattr(root, 'name', '?')}: closure at line {getattr(closure, 'lineno', 0)} not located")
    out: list[tuple[str, ast.AST, ast.AST]] = []
    cfgs: dict[int, Any] = {}
    for name in sorted(set(names)):
        owner_i = next((i for i in range(len(chain) - 1, -1, -1) if _binds(chain[i], name)), None)
        if owner_i is None:
            continue                                    # a global / builtin
        owner = chain[owner_i]
        if isinstance(owner, ast.Lambda):
            continue                                    # a lambda's parameter: bound once per call
        # where the closure comes into being, seen from the owner: the closure itself, or the nested
        # function it is created in (whose later calls share the owner's variable)
        made = closure if owner_i == len(chain) - 1 else chain[owner_i + 1]
        sites = binding_sites(owner, name)
        if not sites:
            continue                                    # a parameter that is never assigned
        if id(owner) not in cfgs:
            try:
                cfgs[id(owner)] = CFG(owner)            # type: ignore[arg-type]
            except AnalysisError as exc:
                raise AnalysisError(f"{getattr(owner, 'name', '?')}: {exc}") from exc
        cfg = cfgs[id(owner)]
        at = set(cfg.node_containing(made))
        if not at:
            raise AnalysisError(f"{getattr(owner, 'name', '?')}: creation of the closure at line "
                                f"{getattr(closure, 'lineno', 0)} not found in the control-flow graph")
        later = cfg.reachable(at, include_src=False)
        for s in sites:
            where = set(cfg.nodes_of(s)) if isinstance(s, (ast.ExceptHandler, *_FUNCS, ast.ClassDef, ast.Import,
                                                           ast.ImportFrom)) else set(cfg.node_containing(s))
            # the statement that creates the closure and binds the variable does so after the creation
            # (`x = f(lambda: x)`), except a def that is the closure
            if where & later or (where & at and s is not made):
                out.append((name, owner, s))
    return out


def fold_callback_defaults(tree: ast.AST) -> None:
    """`t.add_done_callback(lambda t, k=E1, r=E2: body)` -> `t.add_done_callback(lambda t: body[k:=E1, r:=E2])`
    (in place; also for a one-expression nested def used only as such a callback).  Default values are
    evaluated when the callable is created, which is exactly how the path walker reads the free names of
    a lambda body, so the folded form is what the walker should see.  (The late-binding rule reads the
    original tree.)"""
    cb_args = [(c.args + [k.value for k in c.keywords])[0] for c in ast.walk(tree)
               if isinstance(c, ast.Call) and isinstance(c.func, ast.Attribute) and c.func.attr == "add_done_callback"
               and len(c.args) + len(c.keywords) == 1]
    defs = {n.name: n for n in ast.walk(tree) if isinstance(n, ast.FunctionDef) and n is not tree}
    loads: dict[str, int] = {}
    for n in ast.walk(tree):
        if isinstance(n, ast.Name) and isinstance(n.ctx, ast.Load):
            loads[n.id] = loads.get(n.id, 0) + 1
    todo: list[ast.AST] = [a for a in cb_args if isinstance(a, ast.Lambda)]
    for name, d in defs.items():
        uses = sum(1 for a in cb_args if isinstance(a, ast.Name) and a.id == name)
        body = [x for x in d.body if not (isinstance(x, ast.Expr) and isinstance(x.value, ast.Constant))]
        if uses and uses == loads.get(name, 0) and not d.decorator_list and len(body) == 1 \
                and isinstance(body[0], (ast.Expr, ast.Return)) and body[0].value is not None:
            todo.append(d)
    for f in todo:
        a = f.args  # type: ignore[attr-defined]
        if a.vararg or a.kwarg or not (a.defaults or a.kwonlyargs) or any(d is None for d in a.kw_defaults):
            continue
        pos = a.posonlyargs + a.args
        n_plain = len(pos) - len(a.defaults)
        env = {p.arg: d for p, d in zip(pos[n_plain:], a.defaults)}
        env.update({p.arg: d for p, d in zip(a.kwonlyargs, a.kw_defaults)})
        # a default that reads a name the callable's remaining parameters shadow cannot be moved into the body
        keep = {p.arg for p in pos[:n_plain]}
        if any(isinstance(x, ast.Name) and x.id in keep for d in env.values() for x in ast.walk(d)):
            continue
        sub = _Subst(env)
        if isinstance(f, ast.Lambda):
            f.body = sub.visit(f.body)
        else:
            f.body = [sub.visit(s) for s in f.body]  # type: ignore[attr-defined]
        f.args = ast.arguments(posonlyargs=[], args=[ast.arg(arg=p.arg) for p in pos[:n_plain]],  # type: ignore[attr-defined]
                               kwonlyargs=[], kw_defaults=[], defaults=[])
    ast.fix_missing_locations(tree)


# ---------------------------------------------------------------------------------------------
def splice(source: str, edits: list[tuple[ast.AST, str]]) -> str:
    """`source` with the text of each node replaced (nodes of the tree parsed from `source`)."""
    lines = source.splitlines(keepends=True)
    starts = [0]
    for ln in lines:
        starts.append(starts[-1] + len(ln))

    def off(lineno: int, col: int) -> int:
        return starts[lineno - 1] + len(lines[lineno - 1].encode("utf-8")[:col].decode("utf-8"))

    spans = sorted(((off(n.lineno, n.col_offset), off(n.end_lineno, n.end_col_offset), new)  # type: ignore[attr-defined]
                    for n, new in edits), reverse=True)
    for a, b, new in spans:
        source = source[:a] + new + source[b:]
    return source


def seg(source: str, n: ast.AST) -> str:
    t = ast.get_source_segment(source, n)
    if t is None:
        raise AnalysisError("source segment not available")
    return t


def effect_target(e: Effect) -> tuple[str, str]:
    """(target text, value text) of a write effect."""
    node: Any = e.node
    return u(node.elts[0]), u(node.elts[1])
