"""Generic facilities for the C14 checker (kept out of sa/engine on purpose).

  FollowExec      the symbolic path walker of sa/engine/sympath.py with two additions:
                  * a call of a private same-class / same-module helper that is the whole value of a
                    statement is *followed*: the helper's body is walked with its parameters bound to
                    the (substituted) arguments, whatever its shape (early returns, try/except ...);
                    the effects and conditions of the helper appear on the caller's path as if the
                    statements stood there;
                  * every call effect records whether it is evaluated inside a `try` body one of
                    whose handlers catches Exception (`effect.guarded` in {'', 'E', 'B'}).
                  * `try: <one statement whose only operation is d.pop(k) / d[k] / del d[k]>` with a handler
                    for KeyError is read as the membership test it is: the path through the body carries
                    the fact `k in d`, the path through that handler `k not in d` (EAFP <-> LBYL).
                  Helper calls it cannot follow are collected in `unfollowed`.
  Signature       the parameters of a method as its callers bind them (positional / keyword spellings of a
                  call coincide; keyword-only parameters are honoured); param_uses / assign_roles bind the
                  parameters of the anchored methods by *role* (what the body does with them), whatever
                  their order or names.
  HelperGraph     who references which private method of a class (absorption of extracted helpers
                  into the anchored functions for who-may-call rules).
  rebound_after   which free variables of a closure are bound again after the closure was created
                  (late binding), decided on the CFG of the function owning the variable; with
                  scope_nodes / binding_sites / scope_chain / closure_reads.
  fold_callback_defaults   default arguments of a done-callback (bound at creation) moved into its body.
  splice          whole-source replacement of AST nodes by text (structural in-memory controls).
"""
from __future__ import annotations

import ast
import copy
from typing import Any, Iterable

from ..engine.normalize import ANCHOR_NAMES, _strip_doc, inline_helpers
from ..engine.report import AnalysisError
from ..engine.resolver import ClassInfo, FuncInfo, Program
from ..engine.sympath import Effect, Path, SymExec, SymUnsupported, _Subst
from ..engine.util import u

_OK_DECORATORS = ("staticmethod", "classmethod", "override")


def catches(handler: ast.ExceptHandler) -> str:
    """'B' the handler catches every exception, 'E' every Exception, '' something narrower."""
    t = handler.type
    if t is None:
        return "B"
    names = [u(e) for e in t.elts] if isinstance(t, ast.Tuple) else [u(t)]
    if "BaseException" in names:
        return "B"
    if "Exception" in names:
        return "E"
    return ""


_LOOKUP_ERRORS = ("KeyError", "LookupError")


def lookup_probe(s: ast.Try) -> tuple[ast.expr, ast.expr, ast.ExceptHandler] | None:
    """(mapping, key, handler) when `s` is the EAFP spelling of a membership test: the body is ONE plain
    statement whose only operation is `<mapping>.pop(<key>)` (no default), `<mapping>[<key>]` or
    `del <mapping>[<key>]` -- everything else in it is a name, an attribute or a constant, so a KeyError
    can only come from that lookup and means exactly "key not in mapping" -- and the first handler that
    catches KeyError names it (KeyError / LookupError, possibly among others; a bare / Exception handler
    is not read as a membership test)."""
    if len(s.body) != 1:
        return None
    st = s.body[0]
    if isinstance(st, ast.Assign) and all(isinstance(t, ast.Name) for t in st.targets):
        roots: list[ast.AST] = [st.value]
    elif isinstance(st, ast.AnnAssign) and isinstance(st.target, ast.Name) and st.value is not None:
        roots = [st.value]
    elif isinstance(st, ast.Expr):
        roots = [st.value]
    elif isinstance(st, ast.Delete) and len(st.targets) == 1 and isinstance(st.targets[0], ast.Subscript):
        roots = [st.targets[0]]
    else:
        return None
    ops: list[ast.AST] = []
    for r in roots:
        for n in ast.walk(r):
            if isinstance(n, (ast.Call, ast.Subscript)):
                ops.append(n)
            elif not isinstance(n, (ast.Name, ast.Attribute, ast.Constant, ast.expr_context)):
                return None
    if len(ops) != 1:
        return None
    op = ops[0]
    if isinstance(op, ast.Call):
        if not (isinstance(op.func, ast.Attribute) and op.func.attr == "pop" and len(op.args) == 1 and not op.keywords
                and not isinstance(op.args[0], ast.Starred)):
            return None
        coll, key = op.func.value, op.args[0]
    else:
        assert isinstance(op, ast.Subscript)
        if isinstance(op.ctx, ast.Store) or isinstance(op.slice, (ast.Slice, ast.Tuple)):
            return None
        coll, key = op.value, op.slice
    for h in s.handlers:
        names = [] if h.type is None else [u(e) for e in h.type.elts] if isinstance(h.type, ast.Tuple) else [u(h.type)]
        if h.type is None or any(x in ("Exception", "BaseException") for x in names):
            return None             # the first handler a KeyError reaches is a catch-all
        if any(x in _LOOKUP_ERRORS for x in names):
            return coll, key, h
    return None


class FollowExec(SymExec):
    def __init__(self, prog: Program, fn: FuncInfo, max_depth: int = 4, max_paths: int = 2048,
                 anchors: Iterable[str] = ()) -> None:
        super().__init__(max_paths=max_paths, follow=self._follow_target)
        self.prog = prog
        self.fn = fn
        self.anchors = set(ANCHOR_NAMES) | set(anchors)   # functions bound by role: never read into a caller
        self.guard: list[str] = []      # catch levels of the enclosing try bodies
        self.unfollowed: set[str] = set()

    # ------------------------------------------------------------------ helper resolution
    def helper_name(self, func: ast.AST) -> str | None:
        """Name of the private helper (same class / same module, not an anchor) `func` denotes."""
        cls = self.fn.cls
        if isinstance(func, ast.Attribute) and isinstance(func.value, ast.Name) and cls is not None \
                and func.value.id in ("self", "cls", cls.name) and func.attr.startswith("_") \
                and not func.attr.startswith("__") and func.attr not in self.anchors:
            m = self.prog.resolve_method(cls, func.attr)
            if m is not None and m.cls is not None:
                return func.attr
        if isinstance(func, ast.Name) and func.id.startswith("_") and func.id in self.fn.module.functions \
                and func.id not in self.anchors:
            return func.id
        return None

    def _follow_target(self, call: ast.Call) -> Any:
        """`follow` callback of the engine: the FunctionDef of the private helper a call denotes (the
        engine then executes it on the path, wherever in an expression the call stands)."""
        name = self.helper_name(call.func)
        if name is None:
            return None
        if isinstance(call.func, ast.Name):
            h: FuncInfo | None = self.fn.module.functions[name]
        else:
            assert self.fn.cls is not None
            h = self.prog.resolve_method(self.fn.cls, name)
            if h is not None and any(name in sub.methods for sub in self.prog.subclasses(self.fn.cls)):
                h = None
        ok = h is not None and h.node is not self.fn.node \
            and all(isinstance(d, ast.Name) and d.id in _OK_DECORATORS for d in h.node.decorator_list)
        if not ok:
            self.unfollowed.add(name)
            return None
        assert h is not None
        return h.node

    # ------------------------------------------------------------------ effects carry the try context
    def _log(self, p: Path, orig: ast.AST, sub: ast.AST, lineno: int) -> None:
        n0 = len(p.effects)
        super()._log(p, orig, sub, lineno)
        level = "B" if "B" in self.guard else "E" if "E" in self.guard else ""
        for e in p.effects[n0:]:
            e.guarded = level  # type: ignore[attr-defined]
            if e.kind == "call" and isinstance(e.node, ast.Call):
                name = self.helper_name(e.node.func)
                if name is not None:
                    self.unfollowed.add(name)   # evaluated, but not walked (recursion, depth, arity ...)

    # ------------------------------------------------------------------ statements
    def stmt(self, p: Path, s: ast.stmt) -> list[tuple[Path, str]]:
        if isinstance(s, ast.Try):
            return self._try(p, s)
        if isinstance(s, ast.FunctionDef) and not s.decorator_list:
            # a closure is a value: a one-expression nested function is carried as the equivalent lambda
            # with the variables it captures substituted (so it can be returned / passed on and still read)
            body = [x for x in s.body if not (isinstance(x, ast.Expr) and isinstance(x.value, ast.Constant))]
            out = super().stmt(p, s)
            a = s.args
            if len(body) == 1 and isinstance(body[0], (ast.Expr, ast.Return)) and body[0].value is not None \
                    and not a.defaults and not a.kw_defaults and not a.vararg and not a.kwarg and not a.kwonlyargs:
                bound = {x.arg for x in a.posonlyargs + a.args}
                bound |= {n.id for n in ast.walk(body[0]) if isinstance(n, ast.Name) and isinstance(n.ctx, ast.Store)}
                value = _Subst({k: v for k, v in p.env.items() if k not in bound}).visit(copy.deepcopy(body[0].value))
                plain = ast.arguments(posonlyargs=[], args=[ast.arg(arg=x.arg) for x in a.posonlyargs + a.args],
                                      kwonlyargs=[], kw_defaults=[], defaults=[])
                lam = ast.copy_location(ast.Lambda(args=plain, body=value), s)
                ast.fix_missing_locations(lam)
                p.env[s.name] = lam
            return out
        return super().stmt(p, s)

    def _try(self, p: Path, s: ast.Try) -> list[tuple[Path, str]]:
        """As SymExec's try (handler paths fork from the entry of the try), with the catch level of the
        handlers visible while the body is walked."""
        ln = getattr(s, "lineno", 0)
        entry = p.fork()
        level = "B" if any(catches(h) == "B" for h in s.handlers) else \
            "E" if any(catches(h) == "E" for h in s.handlers) else ""
        probe = lookup_probe(s)
        fact: tuple[Any, ast.AST] | None = None
        if probe is not None:       # `k in d`, as the state stands when the try is entered
            coll = _Subst(dict(entry.env)).visit(copy.deepcopy(probe[0]))
            k = _Subst(dict(entry.env)).visit(copy.deepcopy(probe[1]))
            atom = ast.copy_location(ast.Compare(left=k, ops=[ast.In()], comparators=[coll]), s)
            ast.fix_missing_locations(atom)
            fact = (("in", u(k), u(coll)), atom)
        self.guard.append(level)
        try:
            normal = self.block(p, s.body)
        finally:
            self.guard.pop()
        if fact is not None:
            for q, _st in normal:   # the lookup succeeded
                q.conds.append((fact[0], True, fact[1], ln, True))
        res: list[tuple[Path, str]] = []
        for q, st in normal:
            res.extend(self.block(q, s.orelse) if st == "next" else [(q, st)])
        bound: set[str] = set()
        for b in s.body:
            for n in ast.walk(b):
                if isinstance(n, ast.Name) and isinstance(n.ctx, (ast.Store, ast.Del)):
                    bound.add(n.id)
        for h in s.handlers:
            q = entry.fork()
            for b2 in bound:
                q.env[b2] = ast.Name(id=f"<{b2}@try{ln}>", ctx=ast.Load())
            key = ("except", u(h.type) if h.type is not None else "BaseException", ln)
            q.conds.append((key, True, h.type if h.type is not None else ast.Constant(None), h.lineno, True))
            if fact is not None and probe is not None and h is probe[2]:    # the lookup raised KeyError
                q.conds.append((fact[0], False, fact[1], h.lineno, False))
            q.epoch += 1
            if h.name:
                q.env[h.name] = ast.Name(id=f"<exc {u(h.type)}@{h.lineno}>", ctx=ast.Load())
            res.extend(self.block(q, h.body))
        out: list[tuple[Path, str]] = []
        for q, st in res:
            if s.finalbody:
                for q2, st2 in self.block(q, s.finalbody):
                    out.append((q2, st if st2 == "next" else st2))
            else:
                out.append((q, st))
        return out

    # ------------------------------------------------------------------ entry points
    def function_paths(self, node: ast.FunctionDef | ast.AsyncFunctionDef) -> list[Path]:
        out = []
        for p, st in self.block(Path(), list(_strip_doc(node.body))):
            if st == "next":
                p.exit, p.ret, p.lineno = "fall", None, getattr(node, "end_lineno", 0) or 0
            elif st in ("break", "continue"):
                raise SymUnsupported(f"{node.name}: {st} outside a loop")
            out.append(p)
        return out

    def block_paths(self, stmts: list[ast.stmt], env: dict[str, ast.AST] | None = None) -> list[tuple[Path, str]]:
        p = Path()
        p.env = dict(env or {})
        return self.block(p, list(stmts))


def _leading_walrus(test: ast.AST) -> ast.NamedExpr | None:
    """The assignment expression that is evaluated first and unconditionally in a condition."""
    t = test
    while True:
        if isinstance(t, ast.NamedExpr):
            return t if isinstance(t.target, ast.Name) else None
        if isinstance(t, ast.UnaryOp) and isinstance(t.op, ast.Not):
            t = t.operand
        elif isinstance(t, ast.BoolOp):
            t = t.values[0]
        elif isinstance(t, ast.Compare):
            t = t.left
        else:
            return None


def hoist_walrus(tree: ast.AST) -> None:
    """`if (x := e) ...:` -> `x = e` followed by `if x ...:` (in place; same evaluation order, so the
    symbolic walker sees an ordinary local)."""
    changed = True
    while changed:
        changed = False
        for node in ast.walk(tree):
            for field in ("body", "orelse", "finalbody"):
                suite = getattr(node, field, None)
                if not (isinstance(suite, list) and suite and isinstance(suite[0], ast.stmt)):
                    continue
                for i, st in enumerate(suite):
                    w = _leading_walrus(st.test) if isinstance(st, ast.If) else None
                    if w is None:
                        continue
                    assign = ast.copy_location(ast.Assign(targets=[ast.Name(id=w.target.id, ctx=ast.Store())],  # type: ignore[attr-defined]
                                                          value=w.value), st)
                    name = ast.copy_location(ast.Name(id=w.target.id, ctx=ast.Load()), w)  # type: ignore[attr-defined]
                    if st.test is w:
                        st.test = name
                    else:
                        for parent in ast.walk(st.test):
                            for f, v in ast.iter_fields(parent):
                                if v is w:
                                    setattr(parent, f, name)
                                elif isinstance(v, list) and any(x is w for x in v):
                                    setattr(parent, f, [name if x is w else x for x in v])
                    suite[i:i + 1] = [assign, st]
                    changed = True
                    break
                if changed:
                    break
            if changed:
                break
    ast.fix_missing_locations(tree)


def _pattern_test(pat: ast.AST, subj: ast.expr) -> tuple[ast.expr | None, list[ast.stmt]] | None:
    """(condition or None for 'always', bindings) equivalent to matching `subj` against a value /
    singleton / or / capture / wildcard pattern; None for pattern kinds that are not desugared."""
    if isinstance(pat, ast.MatchValue):
        return ast.Compare(left=copy.deepcopy(subj), ops=[ast.Eq()], comparators=[pat.value]), []
    if isinstance(pat, ast.MatchSingleton):
        return ast.Compare(left=copy.deepcopy(subj), ops=[ast.Is()], comparators=[ast.Constant(pat.value)]), []
    if isinstance(pat, ast.MatchOr):
        parts = [_pattern_test(x, subj) for x in pat.patterns]
        if any(x is None or x[1] for x in parts):
            return None
        if any(x[0] is None for x in parts):  # type: ignore[index]
            return None, []
        return ast.BoolOp(op=ast.Or(), values=[x[0] for x in parts]), []  # type: ignore[index,misc]
    if isinstance(pat, ast.MatchAs):
        inner: tuple[ast.expr | None, list[ast.stmt]] | None = (None, []) if pat.pattern is None \
            else _pattern_test(pat.pattern, subj)
        if inner is None:
            return None
        binds = list(inner[1])
        if pat.name is not None:
            binds.append(ast.Assign(targets=[ast.Name(id=pat.name, ctx=ast.Store())], value=copy.deepcopy(subj)))
        return inner[0], binds
    return None


def desugar_match(tree: ast.AST) -> None:
    """`match` over value / singleton / or / capture / wildcard patterns (with guards) -> the equivalent
    if / elif chain, in place; other pattern kinds are left alone (the walker then fails closed)."""
    n_tmp = 0
    for node in list(ast.walk(tree)):
        for field in ("body", "orelse", "finalbody"):
            suite = getattr(node, field, None)
            if not (isinstance(suite, list) and suite and isinstance(suite[0], ast.stmt)):
                continue
            i = 0
            while i < len(suite):
                m = suite[i]
                i += 1
                if not isinstance(m, ast.Match):
                    continue
                pre: list[ast.stmt] = []
                subj: ast.expr = m.subject
                if not isinstance(subj, (ast.Name, ast.Attribute, ast.Constant)):
                    n_tmp += 1
                    pre.append(ast.Assign(targets=[ast.Name(id=f"__match_subject_{n_tmp}", ctx=ast.Store())], value=subj))
                    subj = ast.Name(id=f"__match_subject_{n_tmp}", ctx=ast.Load())
                arms: list[tuple[ast.expr | None, list[ast.stmt]]] = []
                ok = True
                for case in m.cases:
                    t = _pattern_test(case.pattern, subj)
                    if t is None or (t[1] and case.guard is not None):   # a guard may read the capture: keep it simple
                        ok = False
                        break
                    cond = t[0]
                    if case.guard is not None:
                        cond = case.guard if cond is None else ast.BoolOp(op=ast.And(), values=[cond, case.guard])
                    arms.append((cond, t[1] + case.body))
                    if cond is None:
                        break       # irrefutable: later cases are unreachable
                if not ok:
                    continue
                chain: list[ast.stmt] = []
                for cond, body in reversed(arms):
                    chain = list(body) if cond is None else [ast.If(test=cond, body=list(body), orelse=chain)]
                new = pre + (chain or [ast.Pass()])
                for x in new:
                    ast.copy_location(x, m)
                    ast.fix_missing_locations(x)
                suite[i - 1:i] = new
                i += len(new) - 1


class Walk:
    """One anchored function read through its helpers: the tree with simple helpers spliced in and a
    FollowExec for what is left."""

    def __init__(self, prog: Program, fn: FuncInfo, anchors: Iterable[str] = ()) -> None:
        self.fn = fn
        self.tree = inline_helpers(prog, fn, exclude=anchors)
        self.spliced: set[str] = set(getattr(self.tree, "_spliced", ()))
        desugar_match(self.tree)
        hoist_walrus(self.tree)
        fold_callback_defaults(self.tree)
        self.ex = FollowExec(prog, fn, anchors=anchors)
        try:
            self.paths = self.ex.function_paths(self.tree)
        except SymUnsupported as exc:
            raise AnalysisError(f"{fn.qual}: {exc}") from exc
        if not self.paths:
            raise AnalysisError(f"{fn.qual}: no path found")
        # references the walker never evaluates (bodies of lambdas / nested functions)
        for n in ast.walk(self.tree):
            if isinstance(n, (ast.Lambda, ast.FunctionDef, ast.AsyncFunctionDef)) and n is not self.tree:
                for x in ast.walk(n):
                    name = self.ex.helper_name(x) if isinstance(x, (ast.Attribute, ast.Name)) else None
                    if name is not None:
                        self.ex.unfollowed.add(name)


# ---------------------------------------------------------------------------------------------
class HelperGraph:
    """References between the methods of one class (`self.m`, `cls.m`, `Class.m`)."""

    def __init__(self, cls: ClassInfo, anchors: Iterable[str]) -> None:
        self.cls = cls
        self.anchors = tuple(anchors)
        self.refs: dict[str, list[tuple[str, bool]]] = {}   # callee -> [(referencing method, is a direct call)]
        for m in cls.methods.values():
            call_funcs = {id(n.func) for n in ast.walk(m.node) if isinstance(n, ast.Call)}
            for n in ast.walk(m.node):
                if isinstance(n, ast.Attribute) and isinstance(n.value, ast.Name) \
                        and n.value.id in ("self", "cls", cls.name) and n.attr in cls.methods:
                    self.refs.setdefault(n.attr, []).append((m.name, id(n) in call_funcs))

    def absorbed_by(self, name: str, unfollowed: set[str], _seen: frozenset[str] = frozenset()) -> set[str] | None:
        """The anchors a private helper is read into: every reference to it is a direct call from an
        anchor or from another absorbed helper and every such call was walked.  None otherwise."""
        if name in self.anchors:
            return {name}
        if name in _seen or name in unfollowed or not name.startswith("_") or name.startswith("__"):
            return None
        refs = [(m, c) for m, c in self.refs.get(name, []) if m != name]
        if not refs or not all(c for _m, c in refs):
            return None
        out: set[str] = set()
        for m, _c in refs:
            sub = self.absorbed_by(m, unfollowed, _seen | {name})
            if sub is None:
                return None
            out |= sub
        return out


    def closure(self, name: str, stop: Iterable[str] = ()) -> set[str]:
        """`name` and the methods it (transitively) references, not looking through `stop`."""
        callers: dict[str, set[str]] = {}
        for callee, refs in self.refs.items():
            for m, _c in refs:
                callers.setdefault(m, set()).add(callee)
        out, work, halt = {name}, [name], set(stop)
        while work:
            for c in callers.get(work.pop(), ()):
                if c not in out and c not in halt:
                    out.add(c)
                    work.append(c)
        return out


def callback_target(cb: ast.AST, nested: dict[str, ast.FunctionDef],
                    methods: dict[str, FuncInfo] | None = None, depth: int = 0,
                    module_functions: dict[str, FuncInfo] | None = None) -> str | None:
    """The method `self.<name>` a done-callback expression ends up calling: `self.m`, `lambda t:
    self.m(...)`, `functools.partial(self.m, ...)`, a nested one-statement def doing the same, or a
    call of a private method that *returns* one of these (a callback factory)."""
    def self_attr(e: ast.AST) -> str | None:
        # `self.m`; inside a factory the actor may travel under another name: any `<name>.m` with m a method
        if isinstance(e, ast.Attribute) and isinstance(e.value, ast.Name) and (
                e.value.id == "self" or (depth > 0 and methods is not None and e.attr in methods)):
            return e.attr
        return None

    if isinstance(cb, ast.Lambda):
        return self_attr(cb.body.func) if isinstance(cb.body, ast.Call) else None
    if isinstance(cb, ast.Call) and u(cb.func).split(".")[-1] == "partial" and cb.args:
        return self_attr(cb.args[0])
    factory: Any = None
    if isinstance(cb, ast.Call) and methods is not None and depth < 3:
        if self_attr(cb.func) in methods:
            factory = methods[self_attr(cb.func)].node  # type: ignore[index]
        elif isinstance(cb.func, ast.Name) and module_functions is not None and cb.func.id in module_functions:
            factory = module_functions[cb.func.id].node
    if factory is not None:
        inner = {n.name: n for n in ast.walk(factory) if isinstance(n, ast.FunctionDef) and n is not factory}
        found = {callback_target(r.value, inner, methods, depth + 1, module_functions) for r in ast.walk(factory)
                 if isinstance(r, ast.Return) and r.value is not None
                 and not any(r in ast.walk(d) for d in inner.values())}
        return next(iter(found)) if len(found) == 1 else None
    if isinstance(cb, ast.Name) and cb.id in nested:
        stmts = [x for x in nested[cb.id].body if not (isinstance(x, ast.Expr) and isinstance(x.value, ast.Constant))]
        if len(stmts) == 1 and isinstance(stmts[0], (ast.Expr, ast.Return)) and isinstance(stmts[0].value, ast.Call):
            return self_attr(stmts[0].value.func)
        return None
    return self_attr(cb)


# --------------------------------------------------------------------------------------------- parameters by role
class Signature:
    """The parameters of a method as a call `self.m(...)` binds them."""

    def __init__(self, fn: FuncInfo) -> None:
        a = fn.node.args
        static = any(isinstance(d, ast.Name) and d.id == "staticmethod" for d in fn.node.decorator_list)
        skip = 0 if static or fn.cls is None else 1                     # self / cls
        self.posonly = [x.arg for x in a.posonlyargs][skip:]
        self.positional = [x.arg for x in a.posonlyargs + a.args][skip:]  # may be passed by position, in this order
        self.kwonly = [x.arg for x in a.kwonlyargs]
        self.names = self.positional + self.kwonly
        self.variadic = a.vararg is not None or a.kwarg is not None

    def bind_nodes(self, call: ast.AST) -> dict[str, ast.AST] | None:
        """Arguments of a call by parameter name; None when the call is not a plain binding of these
        parameters (star arguments, too many positionals, unknown / repeated / positional-only keywords)."""
        if not isinstance(call, ast.Call) or self.variadic or any(isinstance(a, ast.Starred) for a in call.args) \
                or any(k.arg is None for k in call.keywords) or len(call.args) > len(self.positional):
            return None
        out: dict[str, ast.AST] = dict(zip(self.positional, call.args))
        for k in call.keywords:
            assert k.arg is not None
            if k.arg in out or k.arg not in self.names or k.arg in self.posonly:
                return None
            out[k.arg] = k.value
        return out

    def bind(self, call: ast.AST) -> dict[str, str] | None:
        a = self.bind_nodes(call)
        return None if a is None else {k: u(v) for k, v in a.items()}

    def render(self, values: dict[str, str]) -> str:
        """Argument list text that binds the given parameters to the given expression texts."""
        parts: list[str] = []
        by_pos = True
        for n in self.positional:
            if n in values and by_pos:
                parts.append(values[n])
            else:
                by_pos = False
                if n in values:
                    parts.append(f"{n}={values[n]}")
        parts += [f"{n}={values[n]}" for n in self.kwonly if n in values]
        return ", ".join(parts)


def param_uses(paths: Iterable[Path], names: Iterable[str], mappings: Iterable[str]) -> dict[str, set[str]]:
    """What the walked paths of a method do with each of its parameters (locals substituted away, helpers
    read in, so a parameter appears under its own name wherever its value is used):
      'key'      key of a lookup / membership test / store / delete on one of the `mappings`
      'task'     `<p>.result()` / `<p>.exception()` is asked for
      'request'  handed to `...distribute_power(...)`"""
    names = list(names)
    maps = set(mappings) | {f"{m}.keys()" for m in mappings}
    uses: dict[str, set[str]] = {n: set() for n in names}

    def name_of(e: ast.AST | None) -> str | None:
        return e.id if isinstance(e, ast.Name) and e.id in uses else None

    roots: list[ast.AST] = []
    for p in paths:
        roots += [e.node for e in p.effects] + [atom for _k, _o, atom, _ln, _w in p.conds]
        if p.ret is not None:
            roots.append(p.ret)
    for r in roots:
        for n in ast.walk(r):
            hit: tuple[str | None, str] | None = None
            if isinstance(n, ast.Subscript) and u(n.value) in maps:
                hit = (name_of(n.slice), "key")
            elif isinstance(n, ast.Compare) and len(n.ops) == 1 and isinstance(n.ops[0], (ast.In, ast.NotIn)) \
                    and u(n.comparators[0]) in maps:
                hit = (name_of(n.left), "key")
            elif isinstance(n, ast.Call) and isinstance(n.func, ast.Attribute):
                if n.func.attr in ("get", "pop", "setdefault", "__contains__", "__getitem__", "__delitem__") \
                        and u(n.func.value) in maps and n.args:
                    hit = (name_of(n.args[0]), "key")
                elif n.func.attr in ("result", "exception") and not n.args and not n.keywords:
                    hit = (name_of(n.func.value), "task")
                elif n.func.attr == "distribute_power":
                    for a in list(n.args) + [k.value for k in n.keywords]:
                        if name_of(a) is not None:
                            uses[name_of(a)].add("request")  # type: ignore[index]
            if hit is not None and hit[0] is not None:
                uses[hit[0]].add(hit[1])
    return uses


def assign_roles(names: list[str], uses: dict[str, set[str]], roles: list[str]) -> dict[str, str] | None:
    """role -> parameter.  A role goes to the one parameter that is used that way and in no other role's
    way; what the uses leave open is settled by the historical order of the roles over the remaining
    parameters (the order of the signature).  None when there are fewer parameters than roles."""
    if len(names) < len(roles):
        return None
    out: dict[str, str] = {}
    for r in roles:
        cands = [n for n in names if r in uses.get(n, ())]
        if len(cands) == 1 and not (uses[cands[0]] & set(roles)) - {r}:
            out[r] = cands[0]
    rest = [n for n in names if n not in out.values()]
    for r in roles:
        if r not in out:
            out[r] = rest.pop(0)
    return out



# --------------------------------------------------------------------------------------------- closures
_FUNCS = (ast.FunctionDef, ast.AsyncFunctionDef)
_SCOPES = (ast.FunctionDef, ast.AsyncFunctionDef, ast.Lambda)
_COMPS = (ast.ListComp, ast.SetComp, ast.DictComp, ast.GeneratorExp)


def scope_nodes(scope: ast.AST) -> list[ast.AST]:
    """The nodes that are evaluated in the scope of a function / lambda itself: its body without the
    bodies of nested functions, lambdas and classes (their defaults / decorators / bases are evaluated
    here and do belong to it) and without the targets of comprehensions (a scope of their own)."""
    out: list[ast.AST] = []

    def walk(n: ast.AST) -> None:
        out.append(n)
        if isinstance(n, _FUNCS):
            for x in n.decorator_list + n.args.defaults + [d for d in n.args.kw_defaults if d is not None]:
                walk(x)
        elif isinstance(n, ast.Lambda):
            for x in n.args.defaults + [d for d in n.args.kw_defaults if d is not None]:
                walk(x)
        elif isinstance(n, ast.ClassDef):
            for x in n.decorator_list + n.bases + [k.value for k in n.keywords]:
                walk(x)
        elif isinstance(n, _COMPS):
            for g in n.generators:
                walk(g.iter)
                for i in g.ifs:
                    walk(i)
            for x in ([n.key, n.value] if isinstance(n, ast.DictComp) else [n.elt]):
                walk(x)
        else:
            for c in ast.iter_child_nodes(n):
                walk(c)

    for s in (scope.body if isinstance(scope.body, list) else [scope.body]):  # type: ignore[attr-defined]
        walk(s)
    return out


def _params(scope: ast.AST) -> set[str]:
    a = scope.args  # type: ignore[attr-defined]
    return {x.arg for x in a.posonlyargs + a.args + a.kwonlyargs} | {x.arg for x in (a.vararg, a.kwarg) if x is not None}


def binding_sites(scope: ast.AST, name: str) -> list[ast.AST]:
    """The places of `scope` (not of nested scopes) that (re-)bind the local `name`: assignment / loop /
    with / walrus / del targets, `except ... as name`, nested `def name` / `class name`, imports."""
    out: list[ast.AST] = []
    for n in scope_nodes(scope):
        if isinstance(n, ast.Name) and n.id == name and isinstance(n.ctx, (ast.Store, ast.Del)):
            out.append(n)
        elif isinstance(n, ast.ExceptHandler) and n.name == name:
            out.append(n)
        elif isinstance(n, (*_FUNCS, ast.ClassDef)) and n.name == name:
            out.append(n)
        elif isinstance(n, (ast.Import, ast.ImportFrom)) and any(
                (a.asname or a.name.split(".")[0]) == name for a in n.names):
            out.append(n)
    return out


def _binds(scope: ast.AST, name: str) -> bool:
    declared = {x for n in scope_nodes(scope) if isinstance(n, (ast.Global, ast.Nonlocal)) for x in n.names} \
        if not isinstance(scope, ast.Lambda) else set()
    return name not in declared and (name in _params(scope) or bool(binding_sites(scope, name)))


def scope_chain(root: ast.AST, target: ast.AST) -> list[ast.AST] | None:
    """The function / lambda scopes from `root` (a function) down to the one `target` is evaluated in
    (a nested def is evaluated in its parent's scope: its *name* is bound there)."""
    def find(scope: ast.AST, chain: list[ast.AST]) -> list[ast.AST] | None:
        for n in scope_nodes(scope):
            if n is target:
                return chain
        for n in scope_nodes(scope):
            if isinstance(n, _SCOPES):
                r = find(n, chain + [n])
                if r is not None:
                    return r
        return None

    return find(root, [root])


def closure_reads(closure: ast.AST, within: list[ast.AST] | None = None) -> set[str]:
    """The free variables of a lambda / nested def (names it reads and does not bind itself); `within`
    restricts the reads to those below the given sub-expressions."""
    own = _params(closure) | {n.id for n in scope_nodes(closure)
                              if isinstance(n, ast.Name) and isinstance(n.ctx, (ast.Store, ast.Del))}
    roots = within if within is not None else (
        closure.body if isinstance(closure.body, list) else [closure.body])  # type: ignore[attr-defined]
    return {n.id for r in roots for n in ast.walk(r)
            if isinstance(n, ast.Name) and isinstance(n.ctx, ast.Load)} - own


def rebound_after(root: ast.AST, closure: ast.AST, names: Iterable[str]) -> list[tuple[str, ast.AST, ast.AST]]:
    """(variable, scope, re-binding site) for every free variable in `names` of the closure `closure`
    (somewhere inside the function `root`) that is a local of an enclosing function and is bound again
    at a point that can execute *after* the closure was created: the closure then sees the later value
    (Python closes over variables, not values).  Decided on the control-flow graph of the function that
    owns the variable (loop back-edges and exceptional edges included)."""
    from ..engine.cfg import CFG

    chain = scope_chain(root, closure)
    if chain is None:
        raise AnalysisError(f"{getattr(root, 'name', '?')}: closure at line {getattr(closure, 'lineno', 0)} not located")
    out: list[tuple[str, ast.AST, ast.AST]] = []
    cfgs: dict[int, Any] = {}
    for name in sorted(set(names)):
        owner_i = next((i for i in range(len(chain) - 1, -1, -1) if _binds(chain[i], name)), None)
        if owner_i is None:
            continue                                    # a global / builtin
        owner = chain[owner_i]
        if isinstance(owner, ast.Lambda):
            continue                                    # a lambda's parameter: bound once per call
        # where the closure comes into being, seen from the owner: the closure itself, or the nested
        # function it is created in (whose later calls share the owner's variable)
        made = closure if owner_i == len(chain) - 1 else chain[owner_i + 1]
        sites = binding_sites(owner, name)
        if not sites:
            continue                                    # a parameter that is never assigned
        if id(owner) not in cfgs:
            try:
                cfgs[id(owner)] = CFG(owner)            # type: ignore[arg-type]
            except AnalysisError as exc:
                raise AnalysisError(f"{getattr(owner, 'name', '?')}: {exc}") from exc
        cfg = cfgs[id(owner)]
        at = set(cfg.node_containing(made))
        if not at:
            raise AnalysisError(f"{getattr(owner, 'name', '?')}: creation of the closure at line "
                                f"{getattr(closure, 'lineno', 0)} not found in the control-flow graph")
        later = cfg.reachable(at, include_src=False)
        for s in sites:
            where = set(cfg.nodes_of(s)) if isinstance(s, (ast.ExceptHandler, *_FUNCS, ast.ClassDef, ast.Import,
                                                           ast.ImportFrom)) else set(cfg.node_containing(s))
            # the statement that creates the closure and binds the variable does so after the creation
            # (`x = f(lambda: x)`), except a def that is the closure
            if where & later or (where & at and s is not made):
                out.append((name, owner, s))
    return out


def fold_callback_defaults(tree: ast.AST) -> None:
    """`t.add_done_callback(lambda t, k=E1, r=E2: body)` -> `t.add_done_callback(lambda t: body[k:=E1, r:=E2])`
    (in place; also for a one-expression nested def used only as such a callback).  Default values are
    evaluated when the callable is created, which is exactly how the path walker reads the free names of
    a lambda body, so the folded form is what the walker should see.  (The late-binding rule reads the
    original tree.)"""
    cb_args = [(c.args + [k.value for k in c.keywords])[0] for c in ast.walk(tree)
               if isinstance(c, ast.Call) and isinstance(c.func, ast.Attribute) and c.func.attr == "add_done_callback"
               and len(c.args) + len(c.keywords) == 1]
    defs = {n.name: n for n in ast.walk(tree) if isinstance(n, ast.FunctionDef) and n is not tree}
    loads: dict[str, int] = {}
    for n in ast.walk(tree):
        if isinstance(n, ast.Name) and isinstance(n.ctx, ast.Load):
            loads[n.id] = loads.get(n.id, 0) + 1
    todo: list[ast.AST] = [a for a in cb_args if isinstance(a, ast.Lambda)]
    for name, d in defs.items():
        uses = sum(1 for a in cb_args if isinstance(a, ast.Name) and a.id == name)
        body = [x for x in d.body if not (isinstance(x, ast.Expr) and isinstance(x.value, ast.Constant))]
        if uses and uses == loads.get(name, 0) and not d.decorator_list and len(body) == 1 \
                and isinstance(body[0], (ast.Expr, ast.Return)) and body[0].value is not None:
            todo.append(d)
    for f in todo:
        a = f.args  # type: ignore[attr-defined]
        if a.vararg or a.kwarg or not (a.defaults or a.kwonlyargs) or any(d is None for d in a.kw_defaults):
            continue
        pos = a.posonlyargs + a.args
        n_plain = len(pos) - len(a.defaults)
        env = {p.arg: d for p, d in zip(pos[n_plain:], a.defaults)}
        env.update({p.arg: d for p, d in zip(a.kwonlyargs, a.kw_defaults)})
        # a default that reads a name the callable's remaining parameters shadow cannot be moved into the body
        keep = {p.arg for p in pos[:n_plain]}
        if any(isinstance(x, ast.Name) and x.id in keep for d in env.values() for x in ast.walk(d)):
            continue
        sub = _Subst(env)
        if isinstance(f, ast.Lambda):
            f.body = sub.visit(f.body)
        else:
            f.body = [sub.visit(s) for s in f.body]  # type: ignore[attr-defined]
        f.args = ast.arguments(posonlyargs=[], args=[ast.arg(arg=p.arg) for p in pos[:n_plain]],  # type: ignore[attr-defined]
                               kwonlyargs=[], kw_defaults=[], defaults=[])
    ast.fix_missing_locations(tree)


# ---------------------------------------------------------------------------------------------
def splice(source: str, edits: list[tuple[ast.AST, str]]) -> str:
    """`source` with the text of each node replaced (nodes of the tree parsed from `source`)."""
    lines = source.splitlines(keepends=True)
    starts = [0]
    for ln in lines:
        starts.append(starts[-1] + len(ln))

    def off(lineno: int, col: int) -> int:
        return starts[lineno - 1] + len(lines[lineno - 1].encode("utf-8")[:col].decode("utf-8"))

    spans = sorted(((off(n.lineno, n.col_offset), off(n.end_lineno, n.end_col_offset), new)  # type: ignore[attr-defined]
                    for n, new in edits), reverse=True)
    for a, b, new in spans:
        source = source[:a] + new + source[b:]
    return source


def seg(source: str, n: ast.AST) -> str:
    t = ast.get_source_segment(source, n)
    if t is None:
        raise AnalysisError("source segment not available")
    return t


def effect_target(e: Effect) -> tuple[str, str]:
    """(target text, value text) of a write effect."""
    node: Any = e.node
    return u(node.elts[0]), u(node.elts[1])
