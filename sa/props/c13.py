"""C13  Missing formula inputs propagate as None, or count as zero on request.

NaN-domain abstract interpretation of every FormulaStep.apply (all subsets of popped operands
being NaN, finite operands symbolic), of MetricFetcher.apply (all encodings of "missing" x both
settings), plus scenario rules (result NaN / inf / finite) on the evaluator's output mapping and the
engine loop; C13.UNDEF (zero divisor -> NaN) and C13.READ (a fetcher's stream is only advanced through
fetch_next()).  Steps are interpreted with their private helpers spliced in.
"""
from __future__ import annotations

import ast
import itertools
from typing import Any

from ..engine.absint import Obj
from ..engine.cfg import CFG
from ..engine.nandomain import F, NanInterp, nan
from ..engine.report import AnalysisError, Run
from ..engine.resolver import ClassInfo, FuncInfo, Program, body_walk
from ..engine.util import canon, method_call, nodes_with_call, u
from ._c06_util import Flow, HelperCalls, parts_of, Site, first_run_sync_name, rereport, validity_name, lifted, names_eq, pruned, result_sites, seg, select_ifexp, src_patch, stmt_patch, tri, truth_atom, unawait

STEPS = "timeseries.formula_engine._formula_steps"
EVAL = "timeseries.formula_engine._formula_evaluator"
ENGINE = "timeseries.formula_engine._formula_engine"
RFB = "timeseries.formula_engine._resampled_formula_builder"


def step_classes(prog: Program) -> list[ClassInfo]:
    base = prog.cls(f"{STEPS}:FormulaStep")
    out = [c for c in prog.subclasses(base) if "apply" in c.methods]
    if len(out) < 10:
        raise AnalysisError(f"only {len(out)} FormulaStep subclasses with apply() found")
    return out


class StepInterp(HelperCalls, NanInterp):
    """NaN-domain interpreter that also interprets calls of the step module's private functions and of
    the step class's own methods (helpers are read as code, whatever their shape)."""

    def __init__(self, self_fields: Any = None) -> None:
        super().__init__(self_fields)
        # `from math import isclose, isfinite, fabs` spellings
        for nm in ("isclose", "isfinite", "fabs"):
            self.globals.setdefault(nm, ("builtin", nm))

    def snapshot(self) -> Any:
        return {"order": dict(self.order_facts)}  # the order facts of THIS path (kept in Outcome.state)

    def builtin(self, name: str, pos: list[Any], kw: dict[str, Any], node: ast.AST) -> Any:
        if name == "isclose" and len(pos) == 2:
            return self.isclose(pos[0], pos[1], kw, node)
        return super().builtin(name, pos, kw, node)

    def isclose(self, a0: Any, b0: Any, kw: dict[str, Any], node: ast.AST) -> bool:
        """math.isclose(a, b, rel_tol=1e-9, abs_tol=0.0) on abstract floats: False with a NaN, equal values are close, and
        two *different* finite values are close or not -- a fork of its own (label `a ~ b`), taken only when a tolerance
        admits it: against a literal zero the relative tolerance never does (|x| <= rel_tol * |x| needs rel_tol >= 1), so
        `isclose(x, 0.0)` is the exact test and `isclose(x, 0.0, abs_tol=eps)` also holds for non-zero |x| <= eps."""
        a, b = self.lift(a0), self.lift(b0)
        rel, tol = self.lift(kw.get("rel_tol", 1e-9)), self.lift(kw.get("abs_tol", 0.0))
        if not all(isinstance(x, F) for x in (a, b, rel, tol)) or set(kw) - {"rel_tol", "abs_tol"}:
            raise AnalysisError("isclose() on values that are not floats")
        if a.kind == "nan" or b.kind == "nan":
            return False
        if a is b:
            return True
        if a.kind == "inf" or b.kind == "inf":
            return a.kind == b.kind and self.choose(2, f"{a.expr} == {b.expr}") == 1  # the same infinity
        if self.compare_values(ast.Eq(), a, b, node):
            return True

        def number(x: Any) -> float | None:
            try:
                return float(x.expr)
            except ValueError:
                return None

        rel_n, tol_n = number(rel), number(tol)
        against_zero = any(x.zero is True for x in (a, b))
        if tol_n == 0.0 and ((against_zero and rel_n is not None and rel_n < 1.0) or rel_n == 0.0):
            return False
        return self.choose(2, f"{a.expr} ~ {b.expr}") == 1


def step_interp(prog: Program, fn: FuncInfo, fields: Any) -> StepInterp:
    it = StepInterp(fields)
    it.bind_helpers(prog, fn)
    return it


class Unfixed:
    """A part of the fetcher's state the scenario does not fix (its fallback, a cached fallback sample, its stream ...):
    None, a falsy or a truthy object -- decided by a fork of its own the first time the code looks at it, so whatever
    apply() makes of it is explored both ways.  Its attributes and the results of its methods are unfixed again."""

    def __init__(self, label: str) -> None:
        self.label = label
        self.state: str | None = None
        self.parts: dict[str, Unfixed] = {}

    def __repr__(self) -> str:
        return f"<{self.label}: {self.state or 'any'}>"


class FetcherInterp(StepInterp):
    """StepInterp for MetricFetcher.apply: fields of `self` outside the scenario are `Unfixed`."""

    STATES = ("none", "falsy", "truthy")

    def decide(self, v: Unfixed) -> str:
        if v.state is None:
            v.state = self.STATES[self.choose(3, f"{v.label} is None / falsy / truthy")]
        return v.state

    def truth_of(self, v: Any, node: ast.AST | None) -> bool:
        if isinstance(v, Unfixed):
            return self.decide(v) == "truthy"
        return super().truth_of(v, node)

    def identical(self, a: Any, b: Any) -> bool:
        for x, y in ((a, b), (b, a)):
            if isinstance(x, Unfixed) and y is None:
                return self.decide(x) == "none"
        return super().identical(a, b)

    def compare_values(self, op: ast.cmpop, a: Any, b: Any, node: ast.AST) -> Any:
        for x, y in ((a, b), (b, a)):
            if isinstance(x, Unfixed) and y is None and isinstance(op, (ast.Eq, ast.NotEq)):
                return (self.decide(x) == "none") == isinstance(op, ast.Eq)
        return super().compare_values(op, a, b, node)

    def get_attr(self, base: Any, attr: str, node: ast.AST) -> Any:
        if isinstance(base, Unfixed):
            if self.decide(base) == "none":
                from ..engine.absint import _Raise
                raise _Raise("AttributeError", node)
            return base.parts.setdefault(attr, Unfixed(f"{base.label}.{attr}"))
        return super().get_attr(base, attr, node)

    def apply_other(self, fn: Any, pos: list[Any], kw: dict[str, Any], node: ast.AST) -> Any:
        if isinstance(fn, Unfixed):
            return fn.parts.setdefault("()", Unfixed(f"{fn.label}()"))
        return super().apply_other(fn, pos, kw, node)

    def isinstance_(self, v: Any, cls: Any, node: ast.AST) -> bool:
        if isinstance(v, Unfixed):
            return self.decide(v) != "none" and self.choose(2, f"isinstance({v.label}, ...)") == 1
        return super().isinstance_(v, cls, node)


def fetcher_interp(prog: Program, fn: FuncInfo) -> FetcherInterp:
    it = FetcherInterp(lambda attr: [Unfixed(f"self.{attr}")])
    it.bind_helpers(prog, fn)
    return it


def _self_fields(attr: str) -> list[Any]:
    # configuration fields of steps: optional finite floats (Clipper limits, constants)
    return [F("fin", f"self.{attr}"), None]


def run_step(fn: FuncInfo, tops: list[Any], fields: dict[str, Any] | None = None):
    """Interpret apply() on the stack [SENTINEL, *tops]; returns outcomes with final stacks."""
    interp = NanInterp(_self_fields)
    param = fn.params[1]
    results = []

    def make_args() -> dict[str, Any]:
        sentinel = F("fin", "SENTINEL")
        stack = [sentinel] + [t() for t in tops]
        me = Obj("self", **(fields or {}))
        results.append(stack)
        return {"self": me, param: stack}

    outs = interp.explore(fn.node, make_args)
    return outs, results


def arity_of(fn: FuncInfo, prog: Program | None = None) -> int:
    """Number of operands popped, measured on an all-finite run."""
    mk = [lambda i=i: F("fin", f"x{i}") for i in range(4)]
    interp = step_interp(prog, fn, _self_fields) if prog is not None else NanInterp(_self_fields)
    param = fn.params[1]
    seen: set[int] = set()
    stacks: list[tuple[list[Any], list[Any]]] = []

    def make_args() -> dict[str, Any]:
        init = [m() for m in mk]
        st = list(init)
        stacks.append((init, st))
        return {"self": Obj("self"), param: st}

    outs = interp.explore(fn.node, make_args)
    for out in outs:
        if out.kind == "return":
            seen.add(sum(1 for ev in out.log if ev[0] == "pop"))
    if len(seen) != 1:
        raise AnalysisError(f"{fn.qual}: inconsistent number of popped operands {seen}")
    return seen.pop()


def check_steps(run: Run, prog: Program, drops_round: bool, total_rule: str = "C13.TOTAL",
                only_total: bool = False) -> None:
    """`only_total`: decide only the totality obligation, under `total_rule` (C06 shares it: a raising
    step makes FormulaEngine._run drop the round, i.e. skip a timestamp)."""
    for cls in step_classes(prog):
        fn = cls.methods["apply"]  # private helpers (module / class level) are interpreted as part of the step
        run.analysed(fn.qual)
        if cls.name == "MetricFetcher":
            continue
        if cls.name == "OpenParen":
            # placeholder token, never evaluated: its apply must not touch the stack
            touched = any(isinstance(n, ast.Name) and n.id == fn.params[1] for n in body_walk(fn.node))
            if not only_total:
                run.check(not touched, "C13.NAN", fn.qual, "OpenParen.apply",
                          "OpenParen.apply manipulates the stack", node=fn.node, file=fn.file)
            continue
        try:
            k = arity_of(fn, prog)
        except AnalysisError as exc:
            if "of None" in str(exc) or "None," in str(exc):
                run.violation(total_rule, fn.qual, f"{cls.name}.apply",
                              f"apply() can compare or combine a stack value with None ({exc}): a TypeError that makes "
                              "FormulaEngine._run drop the round", node=fn.node, file=fn.file)
                continue
            raise
        names = ["a", "b", "c"][:k]
        # --- all finite: totality and stack effect
        scenarios: list[tuple[str, list[Any]]] = []
        for mask in itertools.product((False, True), repeat=k):
            tops = [(lambda n=n, m=m: nan(n) if m else F("fin", n)) for n, m in zip(names, mask)]
            scenarios.append(("".join("N" if m else "f" for m in mask), tops))
        divides = any(isinstance(x, ast.BinOp) and isinstance(x.op, (ast.Div, ast.FloorDiv, ast.Mod)) for x in ast.walk(fn.node))
        finite_outs: list[tuple[Any, Any, str]] = []  # (outcome, lifted result, instance) of the all-finite scenario
        for label, tops in scenarios:
            interp = step_interp(prog, fn, _self_fields)
            param = fn.params[1]
            stacks: list[list[Any]] = []

            def make_args(tops=tops, stacks=stacks, param=param) -> dict[str, Any]:
                st = [F("fin", "SENTINEL")] + [t() for t in tops]
                stacks.append(st)
                return {"self": Obj("self"), param: st}

            try:
                outs = interp.explore(fn.node, make_args)
            except AnalysisError as exc:
                if "of None" in str(exc) or "None," in str(exc):
                    # an ordering comparison / arithmetic with None is a TypeError at run time: the step raises
                    run.violation(total_rule, fn.qual, f"{cls.name}.apply operands={label}",
                                  f"apply() can compare or combine a stack value with None ({exc}): a TypeError that makes "
                                  "FormulaEngine._run drop the round", node=fn.node, file=fn.file)
                    break
                raise
            any_nan = "N" in label
            for out, st in zip(outs, stacks):
                inst = f"{cls.name}.apply operands={label or '-'} path={out.decisions}"
                if out.kind == "raise":
                    culprit = out.raise_node or fn.node
                    if drops_round:
                        run.violation(
                            total_rule, fn.qual, _stmt_text(fn, culprit),
                            f"apply() raises {out.value} for operands [{label}] on path "
                            f"{_labels(out)}; FormulaEngine._run drops the whole round on any "
                            "exception, so no sample (not even None) is emitted for that timestamp",
                            node=culprit, file=fn.file, operands=label, path_labels=out.labels)
                    else:
                        run.ok(total_rule, inst + " (raises, but the engine emits None on error)")
                    continue
                run.ok(total_rule, inst)
                # stack effect: exactly the k operands replaced by one value (otherwise the evaluator's residual
                # check raises and the round is dropped, too)
                ok_stack = len(st) == 2 and st[0].expr == "SENTINEL"
                run.check(ok_stack, total_rule if only_total else "C13.STACK", fn.qual, f"{cls.name}.apply stack effect",
                          f"apply() leaves {len(st) - 1} value(s) for {k} operand(s) (must be "
                          "exactly one)", node=fn.node, file=fn.file, instance=inst + " stack")
                if only_total:
                    continue
                if not ok_stack:
                    continue
                res = st[1]
                res = interp.lift(res)
                if not any_nan:
                    finite_outs.append((out, res, inst))
                if any_nan:
                    is_nan = isinstance(res, F) and res.kind == "nan"
                    if not is_nan:
                        which = [n for n, m in zip(names, label) if m == "N"]
                        run.violation(
                            "C13.NAN", fn.qual, _result_stmt(fn),
                            f"operand(s) {which} NaN (missing input) but the step yields "
                            f"{getattr(res, 'expr', res)!r} on path {_labels(out)} — the missing "
                            "value is lost (operand positions: a = first pushed ... last = top of "
                            "stack)", node=fn.node, file=fn.file, operands=label,
                            path_labels=out.labels)
                    else:
                        run.ok("C13.NAN", inst, f"result NaN ({res.expr})")
        import re

        def zero_decided(out: Any) -> set[str]:
            return {lab[: -len(" == 0")] for lab, d in zip(out.labels, out.decisions) if lab.endswith(" == 0") and d == 1}

        divisors = {n for out, res, _i in finite_outs if not zero_decided(out) for n in names
                    if re.search(rf"[/%] \(*{n}\b", getattr(res, "expr", ""))} if divides else set()
        if not only_total:
            # "None exactly when an input is missing or the result is undefined / not finite": with every operand
            # present and finite and no divisor zero the result IS defined, so the step has to push a number
            for out, res, inst in finite_outs:
                if not isinstance(res, F) or (zero_decided(out) & divisors):
                    continue
                if res.kind == "fin":
                    run.ok("C13.DEF", inst, "finite operands, defined result -> a number")
                    continue
                run.violation(
                    "C13.DEF", fn.qual, _result_stmt(fn),
                    f"every operand is present and finite and no divisor is zero, yet the step pushes {res.expr!r} "
                    f"({'NaN' if res.kind == 'nan' else '+-inf'}) on path {_labels(out)}: the formula emits None (and every enclosing "
                    "operator is voided) for a timestamp at which no input is missing and the result is well defined.  Only an "
                    "*exact* zero divisor makes a quotient undefined -- a tolerance test in its place (`math.isclose(x, 0.0, "
                    "abs_tol=eps)`, `abs(x) < eps`, `x < threshold`, rounding before the comparison) declares small valid "
                    "readings, small differences of ordinary readings and small scalars undefined; the same holds for any other "
                    "guard that turns finite operands into NaN / inf", node=fn.node, file=fn.file, path_labels=out.labels)
        if divides and not only_total:
            # an undefined result (zero divisor) must be NaN: the only value every enclosing step propagates
            for out, res, inst in finite_outs:
                hit = zero_decided(out) & divisors
                if not hit:
                    continue
                is_nan = isinstance(res, F) and res.kind == "nan"
                if not is_nan:
                    run.violation(
                        "C13.UNDEF", fn.qual, _result_stmt(fn),
                        f"divisor {sorted(hit)} is zero (the result is undefined) but the step pushes "
                        f"{getattr(res, 'expr', res)!r} on path {_labels(out)} instead of NaN: +-inf is absorbed by "
                        "an enclosing operator (c / inf = 0, min(c, inf) = c, consumption(-inf) = 0), so the formula "
                        "emits a number for a timestamp at which its value is undefined", node=fn.node, file=fn.file,
                        path_labels=out.labels)
                else:
                    run.ok("C13.UNDEF", inst, "zero divisor -> NaN")
            # (a zero-divisor path that raises is C13.TOTAL's finding; the floor on C13.UNDEF guards vacuity)
        run.sample({"step": cls.name, "arity": k, "scenarios": [s for s, _ in scenarios]})


def _labels(out: Any) -> str:
    return "[" + "; ".join(f"{lab}={d}" for lab, d in zip(out.labels, out.decisions)) + "]"


def _stmt_text(fn: FuncInfo, node: ast.AST) -> str:
    # smallest statement of fn containing node
    for s in body_walk(fn.node):
        if isinstance(s, ast.stmt) and any(x is node for x in ast.walk(s)) and not isinstance(
                s, (ast.If, ast.For, ast.While, ast.With, ast.Try)):
            return u(s)
    return u(node)


def _result_stmt(fn: FuncInfo) -> str:
    """The statement computing the pushed value (for the finding key)."""
    cands = []
    for s in body_walk(fn.node):
        if isinstance(s, ast.Call) and isinstance(s.func, ast.Attribute) and s.func.attr == "append":
            cands.append(s)
    # prefer assignments feeding the append
    for s in body_walk(fn.node):
        if isinstance(s, ast.Assign) and isinstance(s.value, (ast.Call, ast.BinOp, ast.IfExp)) \
                and not (isinstance(s.value, ast.Call) and isinstance(s.value.func, ast.Attribute)
                         and s.value.func.attr == "pop"):
            return u(s)
    return u(cands[0]) if cands else fn.qual


# ---------------------------------------------------------------------------------------------
def check_fetcher(run: Run, prog: Program, rule: str = "C13.FETCH", only_total: bool = False) -> None:
    """`only_total`: decide only "for every encoding of the stored sample apply() returns having pushed exactly
    one value" under `rule` (C06 shares it: anything else drops the round, i.e. skips the timestamp)."""
    fn = prog.func(f"{STEPS}:MetricFetcher.apply")
    run.analysed(fn.qual)
    param = fn.params[1]
    cases = 0
    for kind in ("none", "nan", "inf", "valid"):
        for naz in (False, True):
            # what the scenario does not fix -- the fetcher's fallback, a cached fallback sample, its stream -- is left
            # open (Unfixed: None / falsy / truthy, forked on first use): the pushed value must not depend on it
            interp = fetcher_interp(prog, fn)
            stacks: list[list[Any]] = []

            def make_args(kind=kind, naz=naz, stacks=stacks) -> dict[str, Any]:
                value = None if kind == "none" else Obj("Quantity", kind=kind)
                sample = Obj("Sample", value=value, timestamp=Obj("ts"))
                st: list[Any] = [F("fin", "SENTINEL")]
                stacks.append(st)
                return {"self": Obj("self", _next_value=sample, _nones_are_zeros=naz,
                                    _name="m"), param: st}

            try:
                outs = interp.explore(fn.node, make_args)
            except AnalysisError as exc:
                if kind == "none" and "attribute ." in str(exc):
                    # the only thing without attributes in this scenario is the missing value itself
                    cases += 1
                    run.violation(rule, fn.qual, f"MetricFetcher.apply value={kind} nones_are_zeros={naz}",
                                  f"apply() dereferences the missing value ({exc}): an AttributeError instead of a pushed "
                                  "placeholder, so the round is dropped", node=fn.node, file=fn.file)
                    continue
                raise
            for out, st in zip(outs, stacks):
                cases += 1
                inst = f"MetricFetcher.apply value={kind} nones_are_zeros={naz}"
                if out.kind != "return" or len(st) != 2:
                    run.violation(rule, fn.qual, inst,
                                  f"apply() does not push exactly one value ({out.kind} "
                                  f"{out.value}, stack {len(st) - 1})", node=fn.node, file=fn.file)
                    continue
                if only_total:
                    run.ok(rule, inst + " pushes one value")
                    continue
                res = interp.lift(st[1])
                missing = kind != "valid"
                if missing and naz:
                    ok = isinstance(res, F) and res.kind == "fin" and res.zero is True
                    want = "0.0"
                elif missing:
                    ok = isinstance(res, F) and res.kind == "nan"
                    want = "NaN"
                else:
                    ok = isinstance(res, F) and res.expr == "q.base_value"
                    want = "the sample's base value"
                state = [(lab, d) for lab, d in zip(out.labels, out.decisions) if " is None / falsy / truthy" in lab or lab.startswith("isinstance(")]
                where = "" if not state else " when " + ", ".join(
                    f"{lab.split(' is None / ')[0]} is {FetcherInterp.STATES[d] if ' is None / ' in lab else ('an' if d else 'not an') + ' instance'}"
                    for lab, d in state)
                if state and not ok:
                    inst += where
                run.check(ok, "C13.FETCH", fn.qual, inst,
                          f"pushes {getattr(res, 'expr', res)!r}, expected {want}{where}"
                          + ("" if not state else
                             ": what a stream's missing value counts as is decided by the value and the stream's nones_are_zeros alone "
                             "(\"on streams so configured a missing value behaves exactly like 0\") -- not by whether a fallback is "
                             "configured, running or has delivered (in the round the primary first turns invalid the fallback is only "
                             "*started*, later it may have no value either: those rounds are missing values of this stream like any "
                             "other), nor by any other state the fetcher keeps"),
                          node=fn.node, file=fn.file, instance=inst + (f" path={out.decisions}" if state and ok else ""))
    if cases < 8:
        raise AnalysisError("C13.FETCH: fewer than 8 fetcher cases interpreted")
    if only_total:
        return
    # no next value at all -> must not silently push
    interp = fetcher_interp(prog, fn)
    stacks2: list[list[Any]] = []

    def make_none() -> dict[str, Any]:
        st: list[Any] = [F("fin", "SENTINEL")]
        stacks2.append(st)
        return {"self": Obj("self", _next_value=None, _nones_are_zeros=False, _name="m"), param: st}

    try:
        outs = interp.explore(fn.node, make_none)
    except AnalysisError as exc:
        if "attribute ." not in str(exc):
            raise
        outs = []  # dereferencing the missing sample raises AttributeError: an error all the same
    run.check(all(o.kind == "raise" for o in outs), "C13.FETCH", fn.qual,
              "no fetched sample -> error", "apply() without a fetched sample pushes a value",
              node=fn.node, file=fn.file, instance="MetricFetcher.apply without fetched sample raises")
    # sibling predicate: _is_value_valid tests the same three encodings
    vname = validity_name(prog)
    if vname is None:
        # no separate predicate: the test is written in line; apply() was interpreted above for every encoding and
        # the fallback switch judges its own in-line test (C19.LAZY / C19.SEL)
        run.ok("C13.FETCH", "validity test written in line (no sibling predicate to compare)")
        return
    vfn = prog.func(f"{STEPS}:MetricFetcher.{vname}")
    run.analysed(vfn.qual)
    rets = [n for n in body_walk(vfn.node) if isinstance(n, ast.Return) and n.value is not None]
    vparams = [x for x in vfn.params if x not in ("self", "cls")]  # also a @staticmethod
    if not vparams:
        raise AnalysisError(f"{vfn.qual}: no value parameter")
    p = vparams[0]
    want = ("and", frozenset({("isnot", frozenset({p, "None"})),
                              ("not", ("truthy", f"{p}.isnan()")),
                              ("not", ("truthy", f"{p}.isinf()"))}))
    ok = len(rets) == 1 and canon(rets[0].value) == want
    run.check(ok, "C13.FETCH", vfn.qual, rets[0] if rets else "return",
              "_is_value_valid does not test exactly {None, NaN, inf} — the fallback switch and "
              "the value pushed by apply() would disagree on what 'missing' means",
              node=vfn.node, file=vfn.file)


# ---------------------------------------------------------------------------------------------
def _math_fn(fl: Any, func: ast.AST) -> str | None:
    """'isnan' / 'isinf' / 'isfinite' when `func` denotes that function of the math module."""
    t = u(func)
    for name in ("isnan", "isinf", "isfinite"):
        if t == f"math.{name}" or (isinstance(func, ast.Name) and fl.fn.module.imports.get(func.id) == f"math.{name}"):
            return name
    return None


def check_output(run: Run, prog: Program) -> bool:
    """C13.OUT on FormulaEvaluator.apply and the builders; returns whether _run drops rounds.

    Decided per scenario (result NaN / +-inf / finite) on the CFG: the branches a scenario cannot take
    are cut (three-valued evaluation of the conditions, so any equivalent spelling of the guard is the
    same guard), and every Sample the function can still return -- directly, through a local, a
    conditional expression or a private helper -- must then be the None sample resp. the
    `create_method(result)` sample.
    """
    fn = prog.func(f"{EVAL}:FormulaEvaluator.apply")
    run.analysed(fn.qual)
    fl = Flow(prog, fn)
    sites: list[Site] = result_sites(fl, lambda c: u(c.func).split("[")[0] == "Sample")
    ok = bool(sites)
    detail = "no Sample is returned"

    def value_leaves(flow: Any, nid: int, expr: ast.AST, atom: Any, fuel: int = 6) -> list[tuple[Any, int, ast.AST]]:
        """The expressions the sample's value can be under a scenario (atom=None: under any)."""
        out: list[tuple[Any, int, ast.AST]] = []
        for alt in select_ifexp(expr, (lambda e: atom(flow)(e, nid)) if atom is not None else (lambda e: None)):
            if isinstance(alt, ast.Name) and fuel > 0:
                for o in flow.origin(alt, nid, through_helpers=False):
                    if o.kind != "expr" or o.node is None or o.nid is None:
                        out.append((flow, nid, alt))
                    elif atom is not None and o.flow.cfg.path(o.flow.cfg.entry, [o.nid], edge_ok=pruned(o.flow.cfg, atom(o.flow))) is None:
                        continue  # this definition is not executed in the scenario
                    else:
                        out.extend(value_leaves(o.flow, o.nid, o.node, atom, fuel - 1))
            else:
                out.append((flow, nid, alt))
        return out

    def classify(flow: Any, nid: int, e: ast.AST) -> tuple[str, ast.AST | None]:
        if isinstance(e, ast.Constant) and e.value is None:
            return "none", None
        if isinstance(e, ast.Call) and u(e.func) == "self._create_method" and len(e.args) + len(e.keywords) == 1:
            arg = e.args[0] if e.args else e.keywords[0].value
            o = flow.origin1(arg, nid)
            if o is not None and o.kind == "expr":
                return "value", unawait(o.node)
        return "other", None

    res_nodes: list[ast.AST] = []
    kinds: set[str] = set()
    if ok:
        for s in sites:
            v = s.args(["timestamp", "value"]).get("value")
            if v is None:
                kinds.add("other")
                continue
            for f2, n2, leaf in value_leaves(s.flow, s.nid, v, None):
                k, r = classify(f2, n2, leaf)
                kinds.add(k)
                if r is not None and not any(r is x for x in res_nodes):
                    res_nodes.append(r)
        ok = kinds == {"none", "value"}
        detail = ("the value sample is not built by self._create_method(<result>)" if "other" in kinds
                  else "expected a `Sample(ts, None)` and a `Sample(ts, create(res))` outcome")
    if ok:
        ok = len(res_nodes) == 1 and isinstance(res_nodes[0], ast.Call) and method_call(res_nodes[0], None, "pop") \
            and not res_nodes[0].args
        detail = "the emitted value is not the value popped from the evaluation stack"
    if ok:
        res = res_nodes[0]

        def atom_for(scn: str) -> Any:
            def for_flow(flow: Any) -> Any:
                def atom0(e: ast.AST, nid: int) -> bool | None:
                    if isinstance(e, ast.Call) and len(e.args) == 1 and not e.keywords:
                        name = _math_fn(flow, e.func)
                        if name is not None and flow.is_node(e.args[0], res, nid):
                            return {"isnan": scn == "nan", "isinf": scn == "inf", "isfinite": scn == "fin"}[name]
                    return None
                return lifted(flow, atom0)
            return for_flow

        for scn, want in (("nan", "none"), ("inf", "none"), ("fin", "value")):
            af = atom_for(scn)
            got: set[str] = set()
            for s in sites:
                if any(fl2.cfg.path(fl2.cfg.entry, [n2], edge_ok=pruned(fl2.cfg, af(fl2))) is None for fl2, n2 in s.chain):
                    continue  # this return cannot be reached in the scenario
                v = s.args(["timestamp", "value"])["value"]
                got |= {classify(f2, n2, leaf)[0] for f2, n2, leaf in value_leaves(s.flow, s.nid, v, af)}
            if got != {want}:
                ok = False
                detail = ("`return Sample(ts, None)` is not taken exactly when isnan(res) or isinf(res) "
                          f"(result {scn}: {sorted(got) or 'nothing'} returned)")
                break
    if ok:
        # all outcomes carry the same timestamp
        t0 = sites[0].flow.origin(sites[0].args(["timestamp", "value"]).get("timestamp") or ast.Constant(None), sites[0].nid)
        ok = all("timestamp" in s.args(["timestamp", "value"]) and names_eq(
            s.flow.origin(s.args(["timestamp", "value"])["timestamp"], s.nid), t0) for s in sites)
        detail = "None-sample and value-sample carry different timestamps"
    run.check(ok, "C13.OUT", fn.qual, "NaN/inf result -> Sample(ts, None)", detail,
              node=fn.node, file=fn.file)

    # builders forward nones_are_zeros unchanged to every push_metric -- in build() itself or in whatever private helper
    # of the class / module does the pushing for it (the value is followed back through locals, the helpers' parameters
    # and their defaults to where it comes from)
    from ..engine.normalize import positional

    pm = prog.func(f"{ENGINE}:FormulaBuilder.push_metric")
    pparams = [p for p in pm.params if p != "self"]
    if "nones_are_zeros" not in pparams:
        raise AnalysisError(f"{pm.qual}: no nones_are_zeros parameter")
    for cname in ("HigherOrderFormulaBuilder", "HigherOrderFormulaBuilder3Phase"):
        b = prog.func(f"{ENGINE}:{cname}.build")
        run.analysed(b.qual)
        if "nones_are_zeros" not in b.params:
            raise AnalysisError(f"{b.qual}: no nones_are_zeros parameter")
        root, psites = push_sites(prog, b)
        for k, (pfl, nid, call) in enumerate(psites):
            if pfl.fn.node is not root.fn.node:
                run.analysed(pfl.fn.qual)
            arg = positional(call, pparams).get("nones_are_zeros")
            where = "" if pfl is root else f" (in {pfl.fn.name}(), reached from build())"
            if arg is None:
                run.violation("C13.OUT", b.qual, call, f"push_metric{where} is not given a nones_are_zeros setting at all", node=call, file=pfl.fn.file)
                continue
            orgs = origin_x(pfl, arg, nid)
            bad = sorted({_org_text(o, root) for o in orgs if not (o.kind == "param" and o.name == "nones_are_zeros" and o.flow is root)})
            run.check(bool(orgs) and not bad, "C13.OUT", b.qual, call,
                      f"push_metric{where} is not given build()'s own nones_are_zeros unchanged: the setting it receives can be {bad}.  "
                      f"A composition built with {cname}.build(..., nones_are_zeros=True) then treats its inputs as strict (a missing "
                      "value on one of them makes the result None instead of counting as 0), or the reverse -- the request "
                      "\"count missing values as zero\" has to reach every input stream of the formula, through every helper on the "
                      "way: a helper parameter that build() does not pass (so that the helper's default is used), a constant, the "
                      "negation, or another object's setting are all the same mistake",
                      node=call, file=pfl.fn.file, instance=f"{b.qual}: push_metric #{k + 1}{where} gets build()'s nones_are_zeros")
        run.check(bool(psites), "C13.OUT", b.qual, "build() pushes the metrics with the flag",
                  "build() never pushes a metric (neither itself nor through a private helper): the inputs (and their "
                  "missing-value setting) are lost", node=b.node, file=b.file)
        # "counts as zero *on request*": missing values propagate unless the caller asks otherwise
        a = b.node.args
        dflt = dict(zip([x.arg for x in a.kwonlyargs], a.kw_defaults))
        dflt.update(dict(zip([x.arg for x in (a.posonlyargs + a.args)][len(a.posonlyargs + a.args) - len(a.defaults):], a.defaults)))
        d = dflt.get("nones_are_zeros")
        run.check(d is None or (isinstance(d, ast.Constant) and d.value is False), "C13.OUT", b.qual,
                  "nones_are_zeros defaults to False", "missing inputs count as zero by default (the property: only on request)",
                  node=b.node, file=b.file)

    return engine_drops_round(run, prog)


def _org_text(o: Any, root: Any) -> str:
    if o.kind == "expr" and o.node is not None:
        owner = "" if o.flow is root else f" (evaluated for {o.flow.fn.name}())"
        if isinstance(o.node, ast.Constant):
            return f"the constant {u(o.node)}{owner}"
        return f"`{u(o.node)[:60]}`{owner}"
    if o.kind == "param":
        return f"parameter `{o.name}` of {o.flow.fn.name}()"
    return o.text()


CLOSURE_OF: dict[int, tuple[Any, Any, int]] = {}  # id(flow of a closure) -> (that flow, flow of the enclosing function, node of the call)


def origin_x(flow: Any, expr: ast.AST, nid: int, fuel: int = 4) -> list[Any]:
    """Flow.origin(), with the free variables of a closure (see push_sites) read in the enclosing function at the call."""
    out: list[Any] = []
    for o in flow.origin(expr, nid):
        link = CLOSURE_OF.get(id(o.flow))
        if o.kind == "global" and link is not None and link[0] is o.flow and fuel > 0:
            _ch, outer, at = link
            out.extend(origin_x(outer, ast.Name(id=o.name, ctx=ast.Load()), at, fuel - 1))
        else:
            out.append(o)
    return out


def push_sites(prog: Program, raw: FuncInfo) -> tuple[Any, list[tuple[Any, int, ast.Call]]]:
    """(flow of build(), every `<builder>.push_metric(...)` call build() can execute): in its own body (simple helpers and
    closures spliced in) or in a private helper of the class / module it calls, directly or through other helpers -- each
    with the flow it sits in, whose parameters are bound to the caller's arguments (defaults included), so `origin()`
    of anything handed to push_metric leads back into build()."""
    from ._c06_util import spliced as _spliced

    from ..engine.normalize import _bind

    root = Flow(prog, _spliced(prog, raw))
    out: list[tuple[Any, int, ast.Call]] = []
    seen: set[int] = set()

    def visit(fl: Any, trail: tuple[int, ...]) -> None:
        nested = {n.name: n for n in ast.walk(fl.fn.node) if isinstance(n, (ast.FunctionDef, ast.AsyncFunctionDef)) and n is not fl.fn.node}
        for nid, c in fl.calls(lambda c: True):
            if isinstance(c.func, ast.Attribute) and c.func.attr == "push_metric":
                if id(c) not in seen:
                    seen.add(id(c))
                    out.append((fl, nid, c))
                continue
            ch = fl.child(c, nid)
            if ch is None and isinstance(c.func, ast.Name) and c.func.id in nested and fl.depth < 4:
                # a closure of this function: its parameters are bound to the call's arguments, its free variables
                # are the enclosing function's variables *at the call* (see origin_x)
                b = _bind(nested[c.func.id], c)
                if b is not None:
                    ch = Flow(prog, FuncInfo(c.func.id, fl.fn.module, nested[c.func.id], None, fl.fn),
                              {k: (fl, nid, v) for k, v in b.items()}, fl.depth + 1)
                    CLOSURE_OF[id(ch)] = (ch, fl, nid)
            if ch is not None and id(ch.fn.node) not in trail:
                visit(ch, trail + (id(ch.fn.node),))

    visit(root, (id(raw.node),))
    return root, out


def engine_drops_round(run: Run, prog: Program, rule: str | None = "C13.OUT") -> bool:
    """Does FormulaEngine._run lose the round when evaluator.apply() raises an Exception?  With `rule`
    the obligation "every evaluated sample is sent" is decided as well."""
    # engine loop: what happens to a round whose evaluation raises?
    rfn = prog.func(f"{ENGINE}:FormulaEngine._run")
    run.analysed(rfn.qual)
    rcfg = CFG(rfn.node, rfn.file)
    applies = [x for x in nodes_with_call(rcfg, lambda c: method_call(c, None, "apply"))
               if rcfg.is_await(x)]
    if len(applies) != 1:
        raise AnalysisError(f"{rfn.qual}: expected one awaited evaluator.apply(), found {len(applies)}")
    a = applies[0]
    sends = nodes_with_call(rcfg, lambda c: method_call(c, None, "send"))
    # normal path: every completed apply() is sent before the next apply()
    wit = rcfg.path([m for m, lab in rcfg.succ[a] if not lab.startswith("exc:")][0],
                    [a, rcfg.exit], avoid=sends)
    nxt = [m for m, lab in rcfg.succ[a] if not lab.startswith("exc:")]
    if nxt and nxt[0] in sends:
        wit = None
    if rule is not None:
        run.check(bool(sends) and wit is None, rule, rfn.qual, "every evaluated sample is sent",
                  "a sample returned by evaluator.apply() can be dropped without being sent",
                  node=rfn.node, file=rfn.file, path=rcfg.describe_path(wit))
    e_targets = [m for m, lab in rcfg.succ[a] if lab == "exc:E"]
    drops = False
    for t in e_targets:
        if rcfg.path(t, [a], avoid=sends) is not None:
            drops = True
    run.note(f"FormulaEngine._run on an Exception from apply(): "
             f"{'drops the round (no sample sent)' if drops else 'still sends a sample'}")
    return drops


def check_read(run: Run, prog: Program) -> None:
    """C13.READ: what MetricFetcher.apply pushes is the sample stored by fetch_next(), so the fetcher's
    stream may only be advanced through fetch_next(): any other reader leaves the stored sample stale
    (a present value pushed for a timestamp whose sample is missing, or the reverse)."""
    ev = prog.cls(f"{EVAL}:FormulaEvaluator")
    uses = 0
    units: list[FuncInfo] = []
    for m0 in ev.methods.values():
        # a method, and the closures defined in it (each a function of its own: its body is not part of the method's CFG)
        units.append(m0)
        units.extend(FuncInfo(x.name, m0.module, x, None, m0) for x in ast.walk(m0.node)
                     if isinstance(x, (ast.FunctionDef, ast.AsyncFunctionDef)) and x is not m0.node)
    for m in units:
        fl = Flow(prog, m)

        def is_fetcher(e: ast.AST, nid: int, fl: Flow = fl) -> bool:
            out = fl.origin(e, nid, through_helpers=False)
            for o in out:
                if o.kind == "expr" and isinstance(o.node, ast.Subscript) and all(
                        q.kind == "expr" and u(q.node) == "self._metric_fetchers" for q in o.flow.origin(o.node.value, o.nid, through_helpers=False)):
                    continue
                if o.kind == "iter" and o.node is not None:
                    it = u(o.node)
                    if (it == "self._metric_fetchers.values()" and o.idx is None) or (it == "self._metric_fetchers.items()" and o.idx == 1):
                        continue
                return False
            return bool(out)

        for n in fl.cfg.nodes:
            if n.ast is None or n.id not in fl.live:
                continue
            for part in parts_of(n):
                for x in ast.walk(part):
                    if isinstance(x, ast.Attribute) and isinstance(x.ctx, ast.Load) and not (
                            isinstance(x.value, ast.Attribute) and u(x.value) == "self._metric_fetchers") \
                            and isinstance(x.value, (ast.Name, ast.Subscript)) and is_fetcher(x.value, n.id):
                        uses += 1
                        run.analysed(m.qual)
                        par = fl._parent.get(id(x))
                        called = isinstance(par, ast.Call) and par.func is x
                        run.check(x.attr == "fetch_next" and called, "C13.READ", m.qual, f"fetcher.{x.attr}",
                                  f"the evaluator uses `{u(x)}` of a metric fetcher: its stream must only be advanced by "
                                  "fetch_next(), which also stores the sample MetricFetcher.apply() pushes; reading the "
                                  "stream any other way leaves the stored sample stale for the next evaluation",
                                  node=x, file=m.file, instance=f"{m.qual}: fetcher.{x.attr} at a {n.kind} node #{uses}")
    if uses < 1:
        raise AnalysisError(f"C13.READ: only {uses} uses of metric fetchers found in FormulaEvaluator")
    # nobody outside MetricFetcher consumes a fetcher's stream
    mfc = prog.cls(f"{STEPS}:MetricFetcher")
    for fn in prog.all_functions():
        if not fn.module.name.startswith("timeseries.formula_engine") or (fn.cls is not None and fn.cls is mfc):
            continue
        for c in (x for x in ast.walk(fn.node) if isinstance(x, ast.Call)):
            if isinstance(c.func, ast.Attribute) and c.func.attr in ("receive", "consume", "ready", "__anext__", "close") \
                    and isinstance(c.func.value, ast.Attribute) and c.func.value.attr in ("stream", "_stream"):
                run.violation("C13.READ", fn.qual, c, f"`{u(c)}` consumes a metric fetcher's stream behind the fetcher's back",
                              node=c, file=fn.file)
    run.ok("C13.READ", "no reader of `<fetcher>.stream` outside MetricFetcher in timeseries.formula_engine")



# ---------------------------------------------------------------------------------------------
def stream_converters(prog: Program) -> list[tuple[FuncInfo, ast.Call, FuncInfo]]:
    """(holder, `.map(f)` call, f as a function) for every per-sample conversion put on a resampled stream by the
    formula-engine package before it reaches a MetricFetcher: the callable handed to `<receiver>.map(...)`, a lambda
    (read as `def f(p): return <body>`) or a function defined next to the call."""
    import copy

    out: list[tuple[FuncInfo, ast.Call, FuncInfo]] = []
    for fn in prog.all_functions():
        if fn.module.name != RFB:
            continue
        for c in (x for x in ast.walk(fn.node) if isinstance(x, ast.Call)):
            if not (isinstance(c.func, ast.Attribute) and c.func.attr == "map" and len(c.args) == 1 and not c.keywords):
                continue
            f = c.args[0]
            node: Any = None
            if isinstance(f, ast.Lambda):
                node = ast.FunctionDef(name="<lambda>", args=f.args, body=[ast.copy_location(ast.Return(value=f.body), f.body)],
                                       decorator_list=[], returns=None, type_comment=None, type_params=[])
                ast.copy_location(node, f)
                ast.fix_missing_locations(node)
            elif isinstance(f, ast.Name):
                node = next((x for x in ast.walk(fn.node) if isinstance(x, ast.FunctionDef) and x.name == f.id and x is not fn.node), None)
                if node is None and f.id in fn.module.functions:
                    node = fn.module.functions[f.id].node
            elif isinstance(f, ast.Attribute) and u(f.value) == "self" and fn.cls is not None:
                m = prog.resolve_method(fn.cls, f.attr)
                node = m.node if m is not None else None
            if node is None:
                raise AnalysisError(f"{fn.qual}: cannot read the conversion `{u(f)}` put on the stream by `{u(c)[:60]}`")
            out.append((fn, c, FuncInfo(getattr(node, "name", "<lambda>"), fn.module, node, None, fn)))
            _ = copy
    return out


def check_conv(run: Run, prog: Program) -> None:
    """C13.CONV ("None exactly when some input ... is missing"): before a resampled sample reaches its MetricFetcher
    it is converted (Sample[Quantity] -> Sample[QuantityT]).  Decided per scenario on the paths of the conversion:
    value present -> every sample it can return carries `create(<that value>.base_value)`, never None, whatever
    the number is (0.0, -0.0, negative); value None -> None; the timestamp is handed through.  Only a None test of
    the sample's value (or plain truthiness of that Quantity-or-None, Quantity defines no __bool__) separates the
    two; a test on the extracted number (`if base_value`, `x or None`, `> 0`) is undecided in the scenario and so
    lets a present reading leave as None."""
    convs = stream_converters(prog)
    if not convs:
        raise AnalysisError(f"{RFB}: no per-sample conversion (`<receiver>.map(...)`) found on the resampled streams")
    for holder, call, fn in convs:
        run.analysed(holder.qual)
        ps = [p for p in fn.params if p not in ("self", "cls")]
        if len(ps) != 1:
            raise AnalysisError(f"{holder.qual}: the conversion `{u(call.args[0])[:40]}` does not take exactly one sample")
        p = ps[0]
        fl = Flow(prog, fn)
        sites = result_sites(fl, lambda c: u(c.func).split("[")[0] == "Sample")

        def is_param(e: ast.AST, flow: Any, nid: int) -> bool:
            o = flow.origin(e, nid)
            return bool(o) and all(q.kind == "param" and q.name == p and q.flow is fl for q in o)

        def is_value(e: ast.AST, flow: Any, nid: int) -> bool:
            """`e` denotes <the incoming sample>.value (directly or through a local)"""
            o = flow.origin(e, nid)
            return bool(o) and all(q.kind == "expr" and isinstance(q.node, ast.Attribute) and q.node.attr == "value"
                                   and is_param(q.node.value, q.flow, q.nid) for q in o)

        depth = [0]

        def noneness(flow: Any, nid: int, e: ast.AST, af: Any) -> bool | None:
            """Is the (Optional) local `e` None in the scenario?  Decided when all it can hold agrees: None / the sample's
            value itself / a number or object made from it."""
            if depth[0] > 3:
                return None
            depth[0] += 1
            try:
                verdicts: set[bool | None] = set()
                for f2, n2, x in leaves(flow, nid, e, af):
                    if isinstance(x, ast.Constant):
                        verdicts.add(x.value is None)
                    elif is_value(x, f2, n2):
                        verdicts.add(af(f2)(ast.Compare(left=x, ops=[ast.Is()], comparators=[ast.Constant(None)]), n2))
                    elif isinstance(x, ast.Call) or (isinstance(x, ast.Attribute) and x.attr == "base_value"):
                        verdicts.add(False)
                    else:
                        verdicts.add(None)
                return verdicts.pop() if len(verdicts) == 1 else None
            finally:
                depth[0] -= 1

        def scene(present: bool) -> Any:
            memo: dict[int, Any] = {}

            def for_flow(flow: Any) -> Any:
                if id(flow) in memo:
                    return memo[id(flow)]

                def atom(e: ast.AST, nid: int) -> bool | None:
                    ta = truth_atom(e)
                    if ta is not None and is_value(ta[0], flow, nid):
                        return (not present) if ta[1] else present
                    if isinstance(e, (ast.Name, ast.Attribute)) and is_value(e, flow, nid):
                        return present  # a Quantity is always truthy: this is the None test
                    if ta is not None and isinstance(ta[0], ast.Name):
                        v = noneness(flow, nid, ta[0], for_flow)
                        return None if v is None else (v if ta[1] else not v)
                    if isinstance(e, ast.Name) and noneness(flow, nid, e, for_flow) is True:
                        return False  # None is falsy; the truth value of a number is NOT decided
                    return None
                memo[id(flow)] = lifted(flow, atom)
                return memo[id(flow)]
            return for_flow

        def leaves(flow: Any, nid: int, expr: ast.AST, af: Any, fuel: int = 6) -> list[tuple[Any, int, ast.AST]]:
            out: list[tuple[Any, int, ast.AST]] = []
            for alt in select_ifexp(expr, lambda e: af(flow)(e, nid)):
                if isinstance(alt, ast.BoolOp):
                    # `a and b` / `a or b` yields one of its operands: the first whose truth value stops the evaluation
                    # (each undecided operand is a possible result), else the last
                    stop_on = isinstance(alt.op, ast.Or)
                    for i, v in enumerate(alt.values):
                        t = tri(v, lambda e: af(flow)(e, nid)) if i < len(alt.values) - 1 else stop_on
                        if t is None or t == stop_on:
                            out.extend(leaves(flow, nid, v, af, fuel))
                        if t == stop_on:
                            break
                    continue
                if isinstance(alt, ast.Name) and fuel > 0:
                    for o in flow.origin(alt, nid, through_helpers=False):
                        if o.kind != "expr" or o.node is None or o.nid is None:
                            out.append((flow, nid, alt))
                        elif o.flow.cfg.path(o.flow.cfg.entry, [o.nid], edge_ok=pruned(o.flow.cfg, af(o.flow))) is None:
                            continue
                        else:
                            out.extend(leaves(o.flow, o.nid, o.node, af, fuel - 1))
                else:
                    out.append((flow, nid, alt))
            return out

        def kind(flow: Any, nid: int, e: ast.AST, af: Any, present: bool) -> str:
            if isinstance(e, ast.Constant) and e.value is None:
                return "None"
            if is_value(e, flow, nid):
                return "the unconverted value" if present else "None"
            if isinstance(e, ast.Call) and len(e.args) + len(e.keywords) == 1 and u(e.func) in ("self._create_method", "self._create"):
                arg = e.args[0] if e.args else e.keywords[0].value
                inner = leaves(flow, nid, arg, af)
                if inner and all(isinstance(x, ast.Attribute) and x.attr == "base_value" and is_value(x.value, f2, n2) for f2, n2, x in inner):
                    return "created"
                return "created from " + ", ".join(sorted({u(x) for _f, _n, x in inner}))
            return f"`{u(e)[:50]}`"

        for present, want in ((True, "created"), (False, "None")):
            af = scene(present)
            got: set[str] = set()
            for s_ in sites:
                if any(f2.cfg.path(f2.cfg.entry, [n2], edge_ok=pruned(f2.cfg, af(f2))) is None for f2, n2 in s_.chain):
                    continue
                v = s_.args(["timestamp", "value"]).get("value")
                if v is None:
                    got.add("<no value argument>")
                    continue
                got |= {kind(f2, n2, leaf, af, present) for f2, n2, leaf in leaves(s_.flow, s_.nid, v, af)}
            label = "a present value is handed on as create(value.base_value)" if present else "a None value stays None"
            run.check(got == {want}, "C13.CONV", holder.qual, label,
                      (f"the conversion put on the resampled stream (`{u(call.args[0])[:40]}`) can turn a sample whose value is present into "
                       f"{sorted(got - {want})}: what decides between `None` and the converted value is not (only) a None test of the "
                       "sample's value but a test on the number itself, so a reading of exactly 0.0 / -0.0 (or whatever the test "
                       "rejects) reaches MetricFetcher as *missing* -- the formula emits None (or counts a fallback in) for a "
                       "timestamp at which no input is missing.  The same holds for `x or None`, `if base_value`, `> 0` spellings"
                       if present else
                       f"the conversion maps a sample without value to {sorted(got)} instead of None"),
                      node=call, file=holder.file, instance=f"{holder.qual}: {label}")
        ts_ok = bool(sites)
        for s_ in sites:
            t = s_.args(["timestamp", "value"]).get("timestamp")
            o = s_.flow.origin(t, s_.nid) if t is not None else []
            ts_ok = ts_ok and bool(o) and all(q.kind == "expr" and isinstance(q.node, ast.Attribute) and q.node.attr == "timestamp"
                                             and is_param(q.node.value, q.flow, q.nid) for q in o)
        run.check(ts_ok, "C13.CONV", holder.qual, "the sample's timestamp is handed through",
                  "the converted sample does not carry the timestamp of the sample it was made from", node=call, file=holder.file)


# ---------------------------------------------------------------------------------------------
def build_controls(prog: Program) -> list[tuple[str, str, str, str, str]]:
    """Seeded in-memory controls cut out of the live source at structurally located anchors."""
    out: list[tuple[str, str, str, str, str]] = []

    def add(name: str, module: str, patch: tuple[str, str] | None, rule: str) -> None:
        if patch is not None:
            out.append((name, module, patch[0], patch[1], rule))

    def step(name: str) -> Any:
        return prog.func(f"{STEPS}:{name}.apply")

    def calls_in(fn: Any, pred: Any) -> list[ast.Call]:
        return [c for c in ast.walk(fn.node) if isinstance(c, ast.Call) and pred(c)]

    # Consumption: max(val, 0) -> max(0, val)
    cons = step("Consumption")
    for c in calls_in(cons, lambda c: u(c.func) == "max" and len(c.args) == 2)[:1]:
        txt = seg(cons.module, c)
        a, b = seg(cons.module, c.args[0]), seg(cons.module, c.args[1])
        add("Consumption with swapped max operands", STEPS, stmt_patch(cons, c, lambda t: t.replace(txt, f"max({b}, {a})", 1)), "C13.NAN")
    # MetricFetcher.apply: the NaN pushed for a missing value becomes 0.0 / inf no longer counts as missing
    mf = step("MetricFetcher")
    for x in (x for x in ast.walk(mf.node) if isinstance(x, ast.Attribute) and u(x) == "math.nan"):
        add("fetcher pushes 0.0 regardless of the flag", STEPS, stmt_patch(mf, x, lambda t: t.replace("math.nan", "0.0", 1)), "C13.FETCH")
        break
    for c in calls_in(mf, lambda c: isinstance(c.func, ast.Attribute) and c.func.attr == "isinf" and not c.args)[:1]:
        txt = seg(mf.module, c)
        add("inf treated as valid in MetricFetcher.apply", STEPS, stmt_patch(mf, c, lambda t: t.replace(txt, "False", 1)), "C13.FETCH")
    # MetricFetcher.apply: the zero-fill made to depend on fetcher state outside (value, flag): only without a fallback
    for x in (x for x in ast.walk(mf.node) if isinstance(x, ast.Attribute) and isinstance(x.ctx, ast.Load) and u(x) == "self._nones_are_zeros"):
        txt = seg(mf.module, x)
        add("zero-fill only for streams without a fallback", STEPS, stmt_patch(
            mf, x, lambda t, txt=txt: t.replace(txt, f"({txt} and self._fallback is None)", 1)), "C13.FETCH")
        break
    # evaluator: the isinf test of the result is dropped
    ev_mod = prog.module(EVAL)
    ev = prog.cls(f"{EVAL}:FormulaEvaluator")
    done = False
    for m in ev.methods.values():
        for c in calls_in(m, lambda c: u(c.func) in ("isinf", "math.isinf") and len(c.args) == 1):
            txt = seg(ev_mod, c)
            add("evaluator forgets isinf", EVAL, stmt_patch(m, c, lambda t: t.replace(txt, "False", 1)), "C13.OUT")
            done = True
            break
        if done:
            break
    # builder: nones_are_zeros not forwarded
    b = prog.func(f"{ENGINE}:HigherOrderFormulaBuilder.build")
    for c in calls_in(b, lambda c: isinstance(c.func, ast.Attribute) and c.func.attr == "push_metric")[:1]:
        for k in c.keywords:
            if k.arg == "nones_are_zeros":
                txt = seg(b.module, k.value)
                add("builder ignores nones_are_zeros", ENGINE, src_patch(
                    b.module, k.value.lineno, k.value.end_lineno or k.value.lineno,
                    lambda t: t.replace(f"nones_are_zeros={txt}", "nones_are_zeros=False", 1)), "C13.OUT")
    # builder: the pushing moved into a helper whose own nones_are_zeros parameter (default False) build() does not pass
    for cname in ("HigherOrderFormulaBuilder3Phase", "HigherOrderFormulaBuilder"):
        b3 = prog.func(f"{ENGINE}:{cname}.build")
        done3 = False
        for c in calls_in(b3, lambda c: isinstance(c.func, ast.Attribute) and c.func.attr == "push_metric")[:1]:
            if not any(k.arg == "nones_are_zeros" for k in c.keywords):
                continue
            ctxt, base = seg(b3.module, c), seg(b3.module, c.func.value)
            rest = [seg(b3.module, a_) for a_ in c.args] + [f"{k.arg}={seg(b3.module, k.value)}" for k in c.keywords if k.arg != "nones_are_zeros"]
            first = min([b3.node.lineno] + [d.lineno for d in b3.node.decorator_list])
            ind = " " * b3.node.col_offset
            pm_ = prog.func(f"{ENGINE}:FormulaBuilder.push_metric")
            pa = pm_.node.args
            pos_ = [x.arg for x in pa.posonlyargs + pa.args if x.arg != "self"]
            kwo_ = [x.arg for x in pa.kwonlyargs]
            if pa.defaults or pa.vararg or pa.kwarg or "nones_are_zeros" not in kwo_:
                continue
            sig = ", ".join(pos_ + ["*"] + [f"{k}=False" if k == "nones_are_zeros" else f"{k}=None" for k in kwo_])
            fwd = ", ".join(pos_ + [f"{k}={k}" for k in kwo_])
            helper = (f"{ind}def _ctl_push(self, builder, {sig}):\n"
                      f"{ind}    builder.push_metric({fwd})\n\n")
            if ctxt and base and all(rest):
                add(f"{cname}.build pushes through a helper without handing its flag on", ENGINE, src_patch(
                    b3.module, first, c.end_lineno or c.lineno,
                    lambda t, ctxt=ctxt, base=base, rest=rest, helper=helper: helper + t.replace(ctxt, f"self._ctl_push({', '.join([base] + rest)})", 1)
                    if ctxt in t else t), "C13.OUT")
                done3 = True
        if done3:
            break
    # builder: the three-phase build() has no branch for constants (every round of `engine3 * 2.0` raises)
    b3k = prog.func(f"{ENGINE}:HigherOrderFormulaBuilder3Phase.build")
    for cmp_ in (x for x in ast.walk(b3k.node) if isinstance(x, ast.Compare)):
        if "TokenType.CONSTANT" in u(cmp_):
            ctxt = seg(b3k.module, cmp_)
            add("three-phase build() drops constant tokens", ENGINE, src_patch(
                b3k.module, cmp_.lineno, cmp_.end_lineno or cmp_.lineno, lambda t, ctxt=ctxt: t.replace(ctxt, "False", 1)), "C13.TOTAL")
            break
    # builder: a "pass-through" shortcut hands the operand's inner stream on
    for c in calls_in(b, lambda c: isinstance(c.func, ast.Attribute) and c.func.attr == "push_metric")[:1]:
        for a_ in list(c.args) + [k.value for k in c.keywords]:
            if isinstance(a_, ast.Call) and isinstance(a_.func, ast.Attribute) and a_.func.attr == "new_receiver":
                txt, base = seg(b.module, a_), seg(b.module, a_.func.value)
                if txt and base:
                    add("composition reads the operand's inner stream", ENGINE, stmt_patch(
                        b, a_, lambda t, txt=txt, base=base: t.replace(txt, f'(getattr({base}, "_inner_stream", None) or {txt})', 1)), "C13.SUB")
                break
    # Adder: a division sneaks in
    ad = step("Adder")
    for x in (x for x in ast.walk(ad.node) if isinstance(x, ast.BinOp) and isinstance(x.op, ast.Add)):
        txt, lhs = seg(ad.module, x), seg(ad.module, x.left)
        add("Adder divides", STEPS, stmt_patch(ad, x, lambda t: t.replace(txt, f"{txt} / {lhs}", 1)), "C13.TOTAL")
        break
    # Divider: the zero-divisor arm yields inf instead of NaN
    dv = step("Divider")
    for x in (x for x in ast.walk(dv.node) if isinstance(x, ast.Attribute) and u(x) == "math.nan"):
        add("Divider yields inf for a zero divisor", STEPS, stmt_patch(dv, x, lambda t: t.replace("math.nan", "math.inf", 1)), "C13.UNDEF")
        break
    # Divider: the exact zero test widened to a tolerance (small valid divisors become "undefined")
    for c in (x for x in ast.walk(dv.node) if isinstance(x, ast.Compare) and len(x.ops) == 1 and isinstance(x.ops[0], (ast.Eq, ast.NotEq))):
        sides = [c.left, c.comparators[0]]
        zero = next((s_ for s_ in sides if isinstance(s_, ast.Constant) and s_.value == 0 and not isinstance(s_.value, bool)), None)
        if zero is None:
            continue
        other = seg(dv.module, sides[1] if zero is sides[0] else sides[0])
        txt = seg(dv.module, c)
        neg = "not " if isinstance(c.ops[0], ast.NotEq) else ""
        if txt and other:
            add("Divider treats an almost-zero divisor as zero", STEPS, stmt_patch(
                dv, c, lambda t, txt=txt, other=other, neg=neg: t.replace(txt, f"({neg}abs({other}) <= 1e-9)", 1)), "C13.DEF")
        break
    # the synchronisation drains a stream behind the fetcher's back
    sy = prog.func(f"{EVAL}:FormulaEvaluator.{first_run_sync_name(prog)}")
    for c in calls_in(sy, lambda c: isinstance(c.func, ast.Attribute) and c.func.attr == "fetch_next")[:1]:
        txt, base = seg(sy.module, c), seg(sy.module, c.func.value)  # type: ignore[union-attr]
        add("synchronisation reads the raw stream", EVAL, stmt_patch(sy, c, lambda t: t.replace(txt, f"{base}.stream.receive()", 1)), "C13.READ")
    # EMIT: the arrival test inverted (a complete round raises); OUT: missing values count as zero by default
    for m in ev.methods.values():
        hit = next((i for i in ast.walk(m.node) if isinstance(i, ast.If) and any(isinstance(b_, ast.Raise) for b_ in i.body)
                    and any(isinstance(x, ast.Call) and u(x.func) in ("any", "all") for x in ast.walk(i.test))), None)
        if hit is not None:
            txt = seg(ev_mod, hit.test)
            add("arrival test inverted", EVAL, src_patch(ev_mod, hit.lineno, hit.test.end_lineno or hit.lineno,
                                                       lambda t, txt=txt: t.replace(txt, f"not ({txt})", 1)), "C13.EMIT")
            break
    a = b.node.args
    for arg_, d_ in zip(a.kwonlyargs, a.kw_defaults):
        if arg_.arg == "nones_are_zeros" and isinstance(d_, ast.Constant) and d_.value is False:
            add("zeros by default", ENGINE, src_patch(b.module, d_.lineno, d_.end_lineno or d_.lineno,
                                                      lambda t: t.replace("nones_are_zeros: bool = False", "nones_are_zeros: bool = True", 1)
                                                      if "nones_are_zeros: bool = False" in t else t.replace("= False", "= True", 1)), "C13.OUT")
    from . import c06 as _c06
    for nm, md, o_, n_, _r in _c06.build_controls(prog):
        if nm in ("drain loops interchanged", "steps before synchronisation"):
            out.append((nm, md, o_, n_, "C13.SYNC"))
    # CONV: presence of a resampled reading judged by the truth value of the number
    for holder, _call, cf in stream_converters(prog):
        for cmp_ in (x for x in ast.walk(cf.node) if isinstance(x, ast.Compare) and truth_atom(x) is not None):
            operand, is_none = truth_atom(cmp_)  # type: ignore[misc]
            txt, otxt = seg(holder.module, cmp_), seg(holder.module, operand)
            if txt and otxt:
                new = f"not {otxt}.base_value" if is_none else f"{otxt}.base_value"
                add("a zero reading counts as missing", RFB, stmt_patch(holder, cmp_, lambda t, txt=txt, new=new: t.replace(txt, new, 1)), "C13.CONV")
                break
        break
    # POOL: the engine cache key loses the missing-value policy
    for fn_ in prog.all_functions():
        if fn_.name != "from_string" or "nones_are_zeros" not in fn_.params:
            continue
        for a in (x for x in ast.walk(fn_.node) if isinstance(x, ast.Assign) and len(x.targets) == 1 and isinstance(x.targets[0], ast.Name)
                  and any(isinstance(n, ast.Name) and n.id == "nones_are_zeros" for n in ast.walk(x.value))
                  and any(isinstance(y, ast.Subscript) and isinstance(y.slice, ast.Name) and y.slice.id == x.targets[0].id for y in ast.walk(fn_.node))):
            others = [p_ for p_ in fn_.params if p_ not in ("self", "nones_are_zeros")]
            add("engine cache key without the missing-value policy", fn_.module.name, stmt_patch(
                fn_, a, lambda t, a=a, others=others: f"{' ' * a.col_offset}{a.targets[0].id} = " + " + ".join(f"str({o})" for o in others) + "\n"), "C13.POOL")
            break
    if len(out) < 6:
        raise AnalysisError(f"C13: only {len(out)} of 19 seeded controls could be derived from the source ({[o[0] for o in out]})")
    return out


def check_emit(run: Run, prog: Program) -> None:
    """C13.EMIT ("a sample is emitted for every input timestamp either way"): when every input delivered a
    sample and the evaluation is well-formed apply() returns -- shared with C06.EMIT."""
    from . import c06

    c06.bind_sync(prog)
    try:
        rnd = c06.Round(prog)
    except c06.RoundBroken as exc:
        raw = prog.func(f"{EVAL}:FormulaEvaluator.apply")
        run.violation("C13.EMIT", raw.qual, exc.what, exc.message, node=raw.node, file=raw.file)
        return
    c06.check_emit(run, prog, rnd, rule="C13.EMIT")


def check_aligned(run: Run, prog: Program) -> None:
    """C13.SYNC: "None exactly when an input *for that timestamp* is missing" presupposes that the values combined
    belong to one timestamp and that a failed first alignment is retried -- the first-run synchronisation and
    timestamp rules of C06 (every lagging stream advanced, flag cleared only by a completed synchronisation,
    nothing fetched after evaluation began), run there and reported here."""
    from . import c06

    s06 = Run("C06", "quick", 0)
    c06.bind_sync(prog)
    c06.check_sync(s06, prog)
    try:
        c06.check_ts(s06, prog, c06.Round(prog))
    except c06.RoundBroken:
        pass  # reported by C13.EMIT
    rereport(run, s06, ("C06.SYNC", "C06.TS"), "C13.SYNC")


def run_rules(run: Run, prog: Program) -> None:
    check_aligned(run, prog)
    drops = check_output(run, prog)
    check_steps(run, prog, drops)
    check_fetcher(run, prog)
    check_read(run, prog)
    check_emit(run, prog)
    check_conv(run, prog)
    check_sub(run, prog)
    check_token_kinds(run, prog)
    check_policy_key(run, prog)


def operand_stream_leaves(flow: Any, nid: int, expr: ast.AST, fuel: int = 8) -> list[tuple[Any, int, ast.AST | None, str]]:
    """Everything the expression can evaluate to, followed through conditional expressions, `a or b`, walrus, locals and
    private helpers of the class: (flow, node, expression | None, description)."""
    out: list[tuple[Any, int, ast.AST | None, str]] = []
    for alt in select_ifexp(expr, lambda e: None):
        if isinstance(alt, ast.BoolOp):
            for v in alt.values:
                out.extend(operand_stream_leaves(flow, nid, v, fuel))
            continue
        if isinstance(alt, ast.NamedExpr):
            out.extend(operand_stream_leaves(flow, nid, alt.value, fuel))
            continue
        if fuel > 0 and (isinstance(alt, ast.Name) or isinstance(unawait(alt), ast.Call)):
            for o in flow.origin(alt, nid):
                if o.kind == "expr" and o.node is not None and o.nid is not None and not (o.node is alt and o.flow is flow):
                    out.extend(operand_stream_leaves(o.flow, o.nid, o.node, fuel - 1))
                elif o.kind == "expr" and o.node is not None:
                    out.append((o.flow, o.nid if o.nid is not None else nid, o.node, u(o.node)))
                else:
                    out.append((o.flow, o.nid if o.nid is not None else nid, None, o.text()))
            continue
        out.append((flow, nid, alt, u(alt)))
    return out


def check_sub(run: Run, prog: Program) -> None:
    """C13.SUB ("... on a stream not configured to treat missing values as zero ...; on streams so configured a missing
    value behaves exactly like 0" -- the setting is per stream): an operand of a composed formula is a formula engine
    of its own, whose inputs carry the missing-value setting (and fallback) they were pushed with.  The composition
    may only consume such an operand through its *output*: whatever build() hands to push_metric for an operand engine
    is `<engine>.new_receiver()` on every alternative.  A stream taken from inside the operand (its fetcher's raw
    receiver, its builder's inputs, a "pass-through" shortcut) bypasses the operand's own MetricFetcher and is
    re-wrapped with the OUTER build's nones_are_zeros."""
    from ..engine.normalize import positional

    pm = prog.func(f"{ENGINE}:FormulaBuilder.push_metric")
    pparams = [p for p in pm.params if p != "self"]
    if len(pparams) < 2:
        raise AnalysisError(f"{pm.qual}: expected (name, stream, ...)")
    for cname in ("HigherOrderFormulaBuilder", "HigherOrderFormulaBuilder3Phase"):
        raw = prog.func(f"{ENGINE}:{cname}.build")
        run.analysed(raw.qual)
        _root, sites = push_sites(prog, raw)
        if not sites:
            raise AnalysisError(f"{raw.qual}: no push_metric() call found (C13.SUB)")
        for k, (fl, nid, c) in enumerate(sites):
            arg = positional(c, pparams).get(pparams[1])
            if arg is None:
                raise AnalysisError(f"{raw.qual}: `{u(c)[:60]}` passes no stream")
            leaves = operand_stream_leaves(fl, nid, arg)
            bad = sorted({txt for _f, _n, e, txt in leaves
                          if not (isinstance(e, ast.Call) and isinstance(e.func, ast.Attribute) and e.func.attr == "new_receiver")})
            run.check(bool(leaves) and not bad, "C13.SUB", raw.qual, f"operand stream of push_metric #{k + 1}",
                      f"build() can hand push_metric the stream {bad} for an operand engine instead of that engine's output "
                      "`<engine>.new_receiver()`: the operand's own evaluation -- its MetricFetcher with the nones_are_zeros it was "
                      "created with (FormulaEngine.from_receiver(..., nones_are_zeros=True), push_metric(..., nones_are_zeros=True)), "
                      "its fallback, its steps -- is bypassed and the raw stream is wrapped again with the OUTER build()'s setting, so "
                      "a stream configured to count missing values as zero yields None in the composed formula (and the reverse).  "
                      "The same holds for any shortcut that reaches into the operand (`._builder`, a fetcher's `.stream`, a cached "
                      "input receiver) on some branch only", node=c, file=raw.file,
                      instance=f"{raw.qual}: push_metric #{k + 1} gets <engine>.new_receiver()")


def check_token_kinds(run: Run, prog: Program) -> None:
    """C13.TOTAL (composition API; "a sample is emitted for every input timestamp"): a token kind the operator methods
    record (COMPONENT_METRIC, OPER, CONSTANT) but a build() does not replay leaves an operator without its operand in
    the compiled steps -- every evaluation raises, FormulaEngine._run drops every round, no sample (not even None) is
    ever emitted.  The sibling agreement "both build() methods handle every kind the builder can hold, each through its
    own push" is C05.TAB's (check_ho_kinds / check_ho_build), run there and reported here."""
    from . import c05

    s05 = Run("C05", "quick", 0)
    c05.check_ho_kinds(s05, prog)
    c05.check_ho_build(s05, prog)
    rereport(run, s05, ("C05.TAB",), "C13.TOTAL")


def check_policy_key(run: Run, prog: Program) -> None:
    """C13.POOL ("... or count as zero *on request*"): a cache of engines built from formula strings hands a stored
    engine only to a request with the same missing-value policy (the rule is C05.POOL's, asked for the parameters
    that reach from_string's `nones_are_zeros` instead of those that select the expression)."""
    from .c05 import check_pool

    check_pool(run, prog, rule="C13.POOL", policy_mode=True)


def check(run: Run, prog: Program, tier: str) -> str:
    run.rule("C13.NAN", "for every non-empty subset of a step's operands being NaN, every abstract "
             "path of apply() pushes NaN")
    run.rule("C13.TOTAL", "no abstract path of a step's apply() raises (the engine drops the round "
             "on any exception)")
    run.rule("C13.STACK", "apply() replaces its operands by exactly one value")
    run.rule("C13.FETCH", "MetricFetcher.apply pushes 0.0 iff missing and nones_are_zeros, NaN iff "
             "missing otherwise, the base value otherwise; _is_value_valid agrees on 'missing'")
    run.rule("C13.OUT", "NaN/inf results map to Sample(ts, None), others through create_method; "
             "builders forward nones_are_zeros; every evaluated sample is sent")
    run.rule("C13.SYNC", "the inputs combined belong to one timestamp and a failed first alignment is retried "
             "(shared with C06.SYNC / C06.TS)")
    run.rule("C13.EMIT", "a complete round (every input delivered, well-formed evaluation) makes apply() return a sample")
    run.rule("C13.UNDEF", "a dividing step pushes NaN when its divisor is zero (never +-inf, which enclosing "
             "steps absorb into finite numbers)")
    run.rule("C13.DEF", "with every operand present and finite and no divisor exactly zero a step pushes a finite number: "
             "only an exact zero divisor is 'undefined' (no tolerance test in its place), nothing else turns finite operands into NaN / inf")
    run.rule("C13.SUB", "a composed formula consumes an operand engine only through its output (`<engine>.new_receiver()` on every "
             "alternative), so the operand's own per-stream missing-value setting stays in force")
    run.rule("C13.READ", "a metric fetcher's stream is advanced only through fetch_next() (which stores the "
             "sample apply() pushes)")
    run.rule("C13.CONV", "the per-sample conversion on a resampled stream hands a present value on as create(value.base_value) "
             "whatever the number (0.0 included) and maps None to None; only a None test of the value separates the two")
    run_rules(run, prog)
    run.rule("C13.POOL", "a cache of string-formula engines is keyed by the missing-value policy too: a request with the other "
             "nones_are_zeros setting is not answered with the stored engine")
    run.floor("C13.CONV", 3)
    run.floor("C13.UNDEF", 1)
    run.floor("C13.DEF", 8)
    run.floor("C13.SUB", 2)
    run.floor("C13.EMIT", 2)
    run.floor("C13.SYNC", 8)
    run.floor("C13.READ", 3)
    run.floor("C13.NAN", 12)
    run.floor("C13.TOTAL", 20)
    run.floor("C13.FETCH", 9)
    from ..engine.controls import run_controls

    run_controls(run, [] if run.violations else build_controls(prog), run_rules, tier)
    run.assume("IEEE-754 / CPython float semantics as encoded in sa/engine/nandomain.py "
               "(NaN comparisons false, x/0 raises, builtin max/min keep the first argument unless "
               "a later one compares beyond it); finite-operand overflow to inf is ignored")
    run.extra_cov["exhaustive"] = True
    return ("NaN-domain abstract interpretation of the AST of every FormulaStep.apply: for each "
            "step, every subset of its operands set to NaN and the rest symbolic finite values, "
            "all abstract paths (forking on undecided comparisons and on zero-ness of divisors) "
            "must push NaN and must not raise; MetricFetcher.apply is interpreted for the 4 value "
            "encodings x 2 flag settings; output mapping and flag forwarding are guard-shape rules. "
            "Exhaustive over the abstract domain; the trusted base is the encoded float semantics.")
