"""Generic facilities used by the C03 checker (kept out of sa/engine on purpose: property-local).

  Poison            a value on which every interpreted operation fails closed (AnalysisError)
  self_obj          the receiver of an analysed method: a record without fields whose *methods*
                    resolve through the program (extracted private helpers are interpreted, any
                    read of instance state fails closed)
  RoleInterp        OrderInterp + receiver objects + static/class methods + lexicographic tuple
                    comparison + a call hook (which abstract values reach which callee parameter)
  SetV / Lin / AgeInterp
                    a small-scope model of `dict[group, set[Proposal]]` with Python's set semantics
                    (identity membership, in-place `-=`, "changed size during iteration") and linear
                    terms over (loop_time, creation_time_i, max_age) so that an age test written in
                    any algebraically equivalent form is decided in the order domain
  resolve_local     a Name resolved through its unique assignment(s) in a function
  splice            source-level replacement of AST nodes (structural in-memory controls)
"""
from __future__ import annotations

import ast
import copy
from typing import Any, Callable, Iterable, Iterator

from ..engine.absint import Obj, _Raise
from ..engine.order import Atom, OrderInterp
from ..engine.report import AnalysisError
from ..engine.resolver import ClassInfo, FuncInfo, Module, Program


class Poison:
    """Stands for a value the abstract run must not depend on."""

    def __init__(self, what: str) -> None:
        self.what = what

    def __repr__(self) -> str:
        return f"<not modelled: {self.what}>"


def self_obj(cls: ClassInfo, **fields: Any) -> Obj:
    o = Obj(cls.name, **fields)
    o.clsinfo = cls  # type: ignore[attr-defined]
    return o


def is_static(fn: FuncInfo) -> bool:
    return any(isinstance(d, ast.Name) and d.id == "staticmethod" for d in fn.node.decorator_list)


def is_property(fn: FuncInfo) -> bool:
    return any((isinstance(d, ast.Name) and d.id in ("property", "cached_property"))
               or (isinstance(d, ast.Attribute) and d.attr in ("cached_property",))
               for d in fn.node.decorator_list)


class StateRead(AnalysisError):
    """Interpreted code touched instance state of a receiver that is modelled without state."""


class RoleInterp(OrderInterp):
    def __init__(self, prog: Program, module: Module,
                 on_call: Callable[[FuncInfo, dict[str, Any]], None] | None = None) -> None:
        super().__init__(prog, module)
        self.on_call = on_call
        self.visited: set[str] = set()   # qualified names of every program function interpreted
        self.tolerant: list[str] = []    # this abstract run: isclose tests that let a non-zero value pass as zero

    def reset(self) -> None:
        super().reset()
        self.tolerant = []

    # ---- receivers: methods resolve through the program, state reads fail closed
    def obj_method(self, base: Obj, attr: str, node: ast.AST) -> Any:
        info = getattr(base, "clsinfo", None)
        if info is None:
            return super().obj_method(base, attr, node)
        m = self.prog.resolve_method(info, attr)
        if m is None:
            raise StateRead(f"interpreted code reads instance state {info.name}.{attr} "
                            f"(line {getattr(node, 'lineno', '?')}): not modelled")
        if is_property(m):
            return self.call_func(m, [base], {})
        return ("bound", m, base)

    def set_attr(self, base: Any, attr: str, v: Any, node: ast.AST) -> None:
        if isinstance(base, Obj) and getattr(base, "clsinfo", None) is not None and attr not in base.fields:
            raise StateRead(f"interpreted code writes instance state {base.cls}.{attr} "
                            f"(line {getattr(node, 'lineno', '?')}): not modelled")
        super().set_attr(base, attr, v, node)

    # ---- Quantity.isclose against zero with explicit tolerances
    #      math.isclose(v, 0, rel_tol=r, abs_tol=t)  <=>  |v| <= max(r*|v|, t)
    #        t == 0 and r < 1 : v == 0 (the engine's model)
    #        r >= 1           : always true
    #        t > 0            : true for v == 0; for v != 0 true or false (|v| <= t or not) — the order
    #                           domain has no magnitudes, so both outcomes are explored and a non-zero v
    #                           that counts as "close" keeps every order relation to the other inputs
    def _isclose(self, recv: Any, pos: list[Any], kw: dict[str, Any], node: ast.AST) -> Any:
        extra = set(kw) - {"other", "rel_tol", "abs_tol"}
        if extra or len(pos) > 3:
            raise AnalysisError(f"isclose called with {sorted(extra) or 'too many'} arguments: not modelled")
        other = pos[0] if pos else kw.get("other")
        rel = pos[1] if len(pos) > 1 else kw.get("rel_tol", 1e-9)
        tol = pos[2] if len(pos) > 2 else kw.get("abs_tol", 0.0)
        if isinstance(recv, Atom) and recv.name == "ZERO" and isinstance(other, Atom):
            recv, other = other, recv          # math.isclose is symmetric
        if not (isinstance(recv, Atom) and isinstance(other, Atom) and other.name == "ZERO"):
            raise AnalysisError("isclose against a non-zero value is not order-only")
        num = (int, float)
        exact = isinstance(rel, num) and isinstance(tol, num) and not isinstance(rel, bool) \
            and not isinstance(tol, bool) and tol == 0 and 0 <= rel < 1
        if exact:
            return self.cmp3(recv, other) == "="
        if (isinstance(rel, num) and rel < 0) or (isinstance(tol, num) and tol < 0):
            raise _Raise("ValueError (negative tolerance in isclose)", node)
        if self.cmp3(recv, other) == "=":
            return True
        shown = ast.unparse(node) if isinstance(node, ast.AST) else "isclose(...)"
        self.tolerant.append(shown)
        if isinstance(rel, num) and rel >= 1:
            return True
        return self.choose(2, f"`{shown}` for a non-zero {recv} (0 = beyond the tolerance, 1 = within it: "
                              "treated as zero)") == 1

    def apply(self, fn: Any, pos: list[Any], kw: dict[str, Any], node: ast.AST) -> Any:
        if isinstance(fn, tuple) and len(fn) == 3 and fn[0] == "builtin" and fn[1] == "isclose":
            return self._isclose(fn[2], pos, kw, node)
        if isinstance(fn, tuple) and fn and fn[0] == "bound" and is_static(fn[1]):
            return self._call_plain(fn[1], pos, kw)
        if isinstance(fn, FuncInfo) and fn.cls is not None and is_static(fn):
            return self._call_plain(fn, pos, kw)
        return super().apply(fn, pos, kw, node)

    def _call_plain(self, fn: FuncInfo, pos: list[Any], kw: dict[str, Any]) -> Any:
        self.visited.add(fn.qual)
        args = self.bind_args(fn.node, pos, kw)
        if self.on_call is not None:
            self.on_call(fn, args)
        self.module_stack.append(fn.module)
        try:
            return self.call_node(fn.node, args)
        finally:
            self.module_stack.pop()

    def call_func(self, fn: FuncInfo, pos: list[Any], kw: dict[str, Any]) -> Any:
        self.visited.add(fn.qual)
        if self.on_call is not None:
            p, sv = list(pos), None
            if fn.cls is not None and p:
                sv, p = p[0], p[1:]
            try:
                self.on_call(fn, self.bind_args(fn.node, p, kw, sv))
            except AnalysisError:
                pass  # the real call below reports it
        return super().call_func(fn, pos, kw)

    def identical(self, a: Any, b: Any) -> bool:
        # `x is None` on a value the run must not depend on is a dependence too
        for v in (a, b):
            if isinstance(v, Poison):
                raise AnalysisError(f"identity test on {v!r} not interpretable")
        return super().identical(a, b)

    # ---- lexicographic comparison of tuples of atoms / concrete keys
    def _rel(self, a: Any, b: Any) -> str:
        if isinstance(a, Atom) and isinstance(b, Atom):
            return self.cmp3(a, b)
        conc = (int, float, str)
        if isinstance(a, conc) and isinstance(b, conc) and type(a) is type(b):
            return "<" if a < b else ("=" if a == b else ">")  # type: ignore[operator]
        raise AnalysisError(f"ordering of {a!r} and {b!r} not interpretable")

    # ---- Python raises where the analysed code would: reported as a raising abstract path
    def attr_of(self, base: Any, attr: str, node: ast.AST) -> Any:
        if base is None:
            raise _Raise(f"AttributeError ('NoneType' object has no attribute '{attr}')", node)
        return super().attr_of(base, attr, node)

    def unknown_name(self, ident: str, node: ast.AST) -> Any:
        if ident in ("all", "any"):
            return ("builtin", ident)
        return super().unknown_name(ident, node)

    def apply_other(self, fn: Any, pos: list[Any], kw: dict[str, Any], node: ast.AST) -> Any:
        # an unmodelled external callable must not silently become a (truthy) record
        if isinstance(fn, Obj) and fn.cls.startswith("ext:"):
            raise AnalysisError(f"call of {fn.cls[4:]} (line {getattr(node, 'lineno', '?')}) is not modelled")
        return super().apply_other(fn, pos, kw, node)

    def builtin(self, name: str, pos: list[Any], kw: dict[str, Any], node: ast.AST) -> Any:
        if name in ("all", "any") and len(pos) == 1 and not kw:
            vals = [self.truth(x, node) for x in self.iterate(pos[0], node)]
            return all(vals) if name == "all" else any(vals)
        if name in ("max", "min") and len(pos) >= 2 and any(x is None for x in pos) \
                and all(x is None or isinstance(x, Atom) for x in pos):
            raise _Raise(f"TypeError ({name}() of None and a quantity)", node)
        return super().builtin(name, pos, kw, node)

    def compare_values(self, op: ast.cmpop, a: Any, b: Any, node: ast.AST) -> Any:
        if ((a is None and isinstance(b, Atom)) or (b is None and isinstance(a, Atom))) \
                and isinstance(op, (ast.Lt, ast.LtE, ast.Gt, ast.GtE)):
            raise _Raise("TypeError (ordering comparison of None and a quantity)", node)
        if isinstance(a, tuple) and isinstance(b, tuple):
            rel = "="
            for x, y in zip(a, b):
                rel = self._rel(x, y)
                if rel != "=":
                    break
            else:
                rel = "=" if len(a) == len(b) else ("<" if len(a) < len(b) else ">")
            return {ast.Lt: rel == "<", ast.LtE: rel in ("<", "="), ast.Gt: rel == ">",
                    ast.GtE: rel in (">", "="), ast.Eq: rel == "=", ast.NotEq: rel != "="}[type(op)]
        return super().compare_values(op, a, b, node)


# --------------------------------------------------------------------------------------------
def same(x: Any, y: Any) -> bool:
    """Python's set/list membership: identity, or `==` — for the modelled records equality of the
    (priority, source_id) key, which is what C03.ORD establishes for Proposal.__eq__/__hash__."""
    if x is y:
        return True
    if isinstance(x, Obj) and isinstance(y, Obj) and x.cls == y.cls and {"priority", "source_id"} <= set(x.fields) \
            and {"priority", "source_id"} <= set(y.fields):
        return (x.fields["priority"], x.fields["source_id"]) == (y.fields["priority"], y.fields["source_id"])
    return False


class SetV:
    """A Python set of records: membership by `same`, insertion-ordered iteration."""

    def __init__(self, items: Iterable[Any] = ()) -> None:
        self.items: list[Any] = []
        for x in items:
            if not self.has(x):
                self.items.append(x)

    def has(self, x: Any) -> bool:
        return any(same(x, y) for y in self.items)

    def without(self, others: Iterable[Any]) -> list[Any]:
        others = list(others)
        return [x for x in self.items if not any(same(x, y) for y in others)]

    def __repr__(self) -> str:
        return "{" + ", ".join(repr(x) for x in self.items) + "}"


class Lin:
    """Integer linear combination of named reals."""

    def __init__(self, coeffs: dict[str, int]) -> None:
        self.c = {k: v for k, v in coeffs.items() if v}

    def plus(self, other: "Lin", sign: int = 1) -> "Lin":
        out = dict(self.c)
        for k, v in other.c.items():
            out[k] = out.get(k, 0) + sign * v
        return Lin(out)

    def __repr__(self) -> str:
        return " ".join(f"{v:+d}*{k}" for k, v in sorted(self.c.items())) or "0"


class AgeInterp(RoleInterp):
    """Order domain over the atoms age_i (= loop_time - creation_time_i) and MAX (= maximum age)."""

    NOW, MAXAGE = "now", "max_age"

    def __init__(self, prog: Program, module: Module) -> None:
        super().__init__(prog, module)
        self.max_atom = Atom("MAX_AGE")
        self.age_atoms: dict[str, Atom] = {}

    def reset(self) -> None:
        super().reset()
        self.max_atom = Atom("MAX_AGE")
        self.age_atoms = {}

    def age(self, cname: str) -> Atom:
        return self.age_atoms.setdefault(cname, Atom(f"age({cname})"))

    # ---- sets
    def iterate(self, v: Any, node: ast.AST) -> Any:
        if isinstance(v, SetV):
            return self._guarded(v, node)
        return super().iterate(v, node)

    def _guarded(self, v: SetV, node: ast.AST) -> Iterator[Any]:
        snap = list(v.items)
        for x in snap:
            if len(v.items) != len(snap):
                raise _Raise("RuntimeError (set changed size during iteration)", node)
            yield x
        if len(v.items) != len(snap):
            raise _Raise("RuntimeError (set changed size during iteration)", node)

    def get_attr(self, base: Any, attr: str, node: ast.AST) -> Any:
        if isinstance(base, SetV):
            if attr in ("add", "remove", "discard", "copy", "difference_update", "difference", "clear",
                        "intersection_update", "intersection", "update", "union"):
                return ("setv", base, attr)
            raise AnalysisError(f"set.{attr} not modelled")
        if isinstance(base, list) and attr in ("remove", "copy", "clear"):
            return ("listv", base, attr)
        if isinstance(base, dict) and attr in ("clear", "copy", "update", "popitem"):
            return ("dictv", base, attr)
        return super().get_attr(base, attr, node)

    def apply(self, fn: Any, pos: list[Any], kw: dict[str, Any], node: ast.AST) -> Any:
        if isinstance(fn, tuple) and fn and fn[0] == "setv":
            s, m = fn[1], fn[2]
            if m == "add":
                if not s.has(pos[0]):
                    s.items.append(pos[0])
                return None
            if m in ("remove", "discard"):
                if s.has(pos[0]):
                    s.items[:] = s.without([pos[0]])
                elif m == "remove":
                    raise _Raise("KeyError", node)
                return None
            if m == "copy":
                return SetV(s.items)
            if m == "clear":
                s.items[:] = []
                return None
            others = [y for p in pos for y in self.iterate(p, node)]
            if m in ("intersection_update", "intersection"):
                both = [x for x in s.items if any(same(x, y) for y in others)]
                if m == "intersection":
                    return SetV(both)
                s.items[:] = both
                return None
            if m in ("update", "union"):
                tgt = s if m == "update" else SetV(s.items)
                for y in others:
                    if not tgt.has(y):
                        tgt.items.append(y)
                return None if m == "update" else tgt
            keep = s.without(others)
            if m == "difference":
                return SetV(keep)
            s.items[:] = keep
            return None
        if isinstance(fn, tuple) and fn and fn[0] == "dictv":
            d, m = fn[1], fn[2]
            if m == "clear":
                d.clear()
                return None
            if m == "copy":
                return dict(d)
            if m == "update" and len(pos) == 1 and isinstance(pos[0], dict) and not kw:
                d.update(pos[0])
                return None
            if m == "popitem" and d:
                k = next(reversed(d))
                return (k, d.pop(k))
            raise AnalysisError(f"dict.{m} not interpretable here")
        if isinstance(fn, tuple) and fn and fn[0] == "listv":
            lst, m = fn[1], fn[2]
            if m == "copy":
                return list(lst)
            if m == "clear":
                lst[:] = []
                return None
            for i, x in enumerate(lst):
                if same(x, pos[0]):
                    del lst[i]
                    return None
            raise _Raise("ValueError", node)
        return super().apply(fn, pos, kw, node)

    def builtin(self, name: str, pos: list[Any], kw: dict[str, Any], node: ast.AST) -> Any:
        if name in ("set", "frozenset"):
            return SetV(self.iterate(pos[0], node)) if pos else SetV()
        if name == "len" and pos and isinstance(pos[0], SetV):
            return len(pos[0].items)
        return super().builtin(name, pos, kw, node)

    def unknown_name(self, ident: str, node: ast.AST) -> Any:
        if ident == "frozenset":
            return ("builtin", "frozenset")
        return super().unknown_name(ident, node)

    def contains(self, container: Any, item: Any, node: ast.AST) -> bool:
        if isinstance(container, SetV):
            return container.has(item)
        if isinstance(container, (list, tuple)):
            return any(same(item, x) for x in container)
        return super().contains(container, item, node)

    def truth_of(self, v: Any, node: ast.AST | None) -> bool:
        if isinstance(v, SetV):
            return bool(v.items)
        return super().truth_of(v, node)

    def eval(self, e: ast.AST | None) -> Any:
        if isinstance(e, ast.SetComp):
            return SetV(self.comprehension(e))
        if isinstance(e, ast.Set):
            return SetV(self.eval(x) for x in e.elts)
        return super().eval(e)

    def stmt(self, s: ast.stmt) -> None:
        if isinstance(s, ast.AugAssign) and isinstance(s.op, (ast.Sub, ast.BitAnd, ast.BitOr)):
            tgt = s.target
            load = ast.copy_location(
                ast.Name(id=tgt.id, ctx=ast.Load()) if isinstance(tgt, ast.Name) else
                ast.Attribute(value=tgt.value, attr=tgt.attr, ctx=ast.Load()) if isinstance(tgt, ast.Attribute) else
                ast.Subscript(value=tgt.value, slice=tgt.slice, ctx=ast.Load()), tgt)  # type: ignore[union-attr]
            cur = self.eval(load)
            if isinstance(cur, SetV):
                other = list(self.iterate(self.eval(s.value), s))
                if isinstance(s.op, ast.Sub):      # set.__isub__ mutates in place
                    cur.items[:] = cur.without(other)
                elif isinstance(s.op, ast.BitAnd):
                    cur.items[:] = [x for x in cur.items if any(same(x, y) for y in other)]
                else:
                    for y in other:
                        if not cur.has(y):
                            cur.items.append(y)
                return
        super().stmt(s)

    # ---- linear terms
    def binop(self, op: ast.operator, a: Any, b: Any, node: ast.AST) -> Any:
        if isinstance(a, Lin) and isinstance(b, Lin) and isinstance(op, (ast.Add, ast.Sub)):
            return a.plus(b, 1 if isinstance(op, ast.Add) else -1)
        if isinstance(a, SetV) and isinstance(op, ast.Sub):
            return SetV(a.without(self.iterate(b, node)))
        return super().binop(op, a, b, node)

    def unaryop(self, op: ast.unaryop, v: Any, node: ast.AST) -> Any:
        if isinstance(v, Lin) and isinstance(op, ast.USub):
            return Lin({k: -c for k, c in v.c.items()})
        return super().unaryop(op, v, node)

    def compare_values(self, op: ast.cmpop, a: Any, b: Any, node: ast.AST) -> Any:
        if isinstance(a, Lin) and isinstance(b, Lin):
            d = a.plus(b, -1).c           # sign(d) decides the comparison
            if not d:
                rel = "="
            else:
                cs = [k for k in d if k not in (self.NOW, self.MAXAGE)]
                k = d.get(self.NOW, 0)
                if len(cs) != 1 or k not in (1, -1) or d != {self.NOW: k, cs[0]: -k, self.MAXAGE: -k}:
                    raise AnalysisError(f"comparison of {a!r} with {b!r} is not an age test "
                                        "(loop_time - creation_time against the maximum age)")
                rel = self.cmp3(self.age(cs[0]), self.max_atom)
                if k == -1:
                    rel = {"<": ">", ">": "<", "=": "="}[rel]
            return {ast.Lt: rel == "<", ast.LtE: rel in ("<", "="), ast.Gt: rel == ">",
                    ast.GtE: rel in (">", "="), ast.Eq: rel == "=", ast.NotEq: rel != "="}[type(op)]
        return super().compare_values(op, a, b, node)


# --------------------------------------------------------------------------------------------
def resolve_local(fn: ast.AST, expr: ast.AST, params: Iterable[str] = ()) -> ast.AST:
    """Follow a Name through its unique plain assignment in `fn` (parameters are terminal)."""
    seen: set[str] = set()
    params = set(params)
    while isinstance(expr, ast.Name) and expr.id not in params and expr.id not in seen:
        seen.add(expr.id)
        name = expr.id
        binds = sum(1 for n in ast.walk(fn) if isinstance(n, ast.Name) and n.id == name
                    and isinstance(n.ctx, (ast.Store, ast.Del)))
        vals: list[ast.AST] = []
        for n in ast.walk(fn):
            if isinstance(n, ast.Assign) and len(n.targets) == 1 and isinstance(n.targets[0], ast.Name) \
                    and n.targets[0].id == name:
                vals.append(n.value)
            elif isinstance(n, ast.AnnAssign) and isinstance(n.target, ast.Name) and n.target.id == name \
                    and n.value is not None:
                vals.append(n.value)
        if binds != 1 or len(vals) != 1:
            break
        expr = vals[0]
    return expr


class _Rename(ast.NodeTransformer):
    def __init__(self, name: str, value: ast.AST) -> None:
        self.name, self.value = name, value

    def visit_Name(self, node: ast.Name) -> ast.AST:  # noqa: N802
        if node.id == self.name and isinstance(node.ctx, ast.Load):
            return ast.copy_location(copy.deepcopy(self.value), node)
        return node


def unroll_literal_loops(stmts: list[ast.stmt], limit: int = 8) -> list[ast.stmt]:
    """`for x in (a, b): body` -> body[x:=a]; body[x:=b] (plain name target, literal tuple / list of
    side-effect-free element expressions, no break / continue / rebinding of x in the body)."""
    out: list[ast.stmt] = []
    for s in stmts:
        if isinstance(s, ast.For) and isinstance(s.target, ast.Name) and isinstance(s.iter, (ast.Tuple, ast.List)) \
                and 0 < len(s.iter.elts) <= limit and not s.orelse \
                and not any(isinstance(n, (ast.Call, ast.Await, ast.Starred)) for e in s.iter.elts for n in ast.walk(e)) \
                and not any(isinstance(n, (ast.Break, ast.Continue)) or (
                    isinstance(n, ast.Name) and n.id == s.target.id and not isinstance(n.ctx, ast.Load))
                    for b in s.body for n in ast.walk(b)):
            for e in s.iter.elts:
                for b in s.body:
                    out.append(_Rename(s.target.id, e).visit(copy.deepcopy(b)))
            continue
        out.append(s)
    return out


def splice(source: str, edits: list[tuple[ast.AST, str]]) -> str:
    """`source` with the text of each node replaced (nodes must come from a parse of `source`)."""
    lines = source.splitlines(keepends=True)
    starts = [0]
    for ln in lines:
        starts.append(starts[-1] + len(ln))

    def off(lineno: int, col: int) -> int:
        return starts[lineno - 1] + len(lines[lineno - 1].encode("utf-8")[:col].decode("utf-8"))

    spans = sorted(((off(n.lineno, n.col_offset), off(n.end_lineno, n.end_col_offset), new)  # type: ignore[attr-defined]
                    for n, new in edits), reverse=True)
    for a, b, new in spans:
        source = source[:a] + new + source[b:]
    return source


def seg(source: str, node: ast.AST) -> str:
    t = ast.get_source_segment(source, node)
    if t is None:
        raise AnalysisError("source segment not available")
    return t
