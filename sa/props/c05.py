"""C05  Formula output equals the arithmetic value of the expression — compiler structure.

  C05.PREC   the shift/reduce decision list of FormulaBuilder.push_oper is extracted and partially
             evaluated (constant folding with the literal precedence table) for every pair
             (operator on the stack, incoming operator); the resulting matrix must be an
             algebraically legal one; after a reduce the loop continues unconditionally.
  C05.TAB    tokenizer operators ⊆ precedence keys; every key but ")" has a push_oper branch building
             a step whose __repr__ is that key; consumers handle every token type producers emit.
  C05.STEP   each operator step computes `first-pushed OP last-pushed` (NaN-domain interpreter with
             symbolic finite operands), replacing its operands by exactly one value.
  C05.PAREN  the higher-order builder turns X into `( X ) op Y` with Y an atom or `( Y' )` — deque
             effects interpreted abstractly for several shapes of Y'; a second and third push on the states the
             first leaves behind must *mean* `(held) op operand` (token stream read with the reference grammar,
             compared as rational functions), so a folding / re-grouping shortcut may not re-associate.
  C05.EVAL   the evaluator applies all steps in list order on a fresh stack and requires one
             residual value; finalize() drains the operator stack LIFO; one name -> one fetcher.
  C05.TOK    the tokenizer's character iterator reads string[pos] only while pos < len(that same string).
  C05.POOL   whoever caches the engines built from formula strings (the caller of ResampledFormulaBuilder.from_string)
             keys the cache by everything that decides which expression over which inputs the engine evaluates.
  C05.VALUE  expressions are values: every operator / method of the composition API is interpreted (clone spellings
             modelled the way Python copies) and must leave the token deque of `self` and of the operand untouched.
  C05.IDENT  both build() methods key an operand engine's stream by the engine's identity (a lookup by id(engine) / the
             engine); the table of names is injective and stable by construction.
  C05.ALIGN  the operands of one evaluation belong to one timestamp (first-run synchronisation; shared
             with C06.SYNC).

Roles are bound by dataflow (sa/props/_c06_util.py); the shift/reduce decision is obtained by
interpreting push_oper (private helpers spliced in) on each (stack top, incoming) scenario.
"""
from __future__ import annotations

import ast
from typing import Any

from ..engine.absint import Interp, Obj, _Raise
from ..engine.cfg import CFG, own_parts
from ..engine.nandomain import F
from ..engine.report import AnalysisError, Run
from ..engine.resolver import ClassInfo, FuncInfo, Program, body_walk
from ..engine.normalize import positional
from ..engine.util import canon, method_call, u
from ._c06_util import (Flow, HelperCalls, cmp_eval, expr_guards, first_run_sync_name, indent_of, inline_all, lifted, rereport, names_eq, private_callee, pruned, seg, spliced, src_patch,
                        select_ifexp, stmt_patch, transitive_helpers, tri, truth_atom)
from .c13 import _self_fields, step_classes, step_interp

ENGINE = "timeseries.formula_engine._formula_engine"
STEPS = "timeseries.formula_engine._formula_steps"
TOK = "timeseries.formula_engine._tokenizer"
RFB = "timeseries.formula_engine._resampled_formula_builder"
EVAL = "timeseries.formula_engine._formula_evaluator"

BIN = ("+", "-", "*", "/")
MUST_REDUCE = {("-", "+"), ("-", "-"), ("/", "*"), ("/", "/"), ("*", "+"), ("*", "-"), ("/", "+"), ("/", "-")}
MUST_SHIFT = {("+", "*"), ("+", "/"), ("-", "*"), ("-", "/")}
EITHER = {("+", "+"), ("+", "-"), ("*", "*"), ("*", "/")}


class Unknown(Exception):
    pass


def precedence_table(prog: Program) -> dict[str, int]:
    mod = prog.module(ENGINE)
    node = mod.assigns.get("_operator_precedence")
    if not isinstance(node, ast.Dict):
        raise AnalysisError("_operator_precedence literal dict not found")
    out = {}
    for k, v in zip(node.keys, node.values):
        if not (isinstance(k, ast.Constant) and isinstance(v, ast.Constant)):
            raise AnalysisError("_operator_precedence is not a literal table")
        out[k.value] = v.value
    return out


class _Top:
    """The operator step on top of the build stack in the scenario under evaluation."""

    def __init__(self, key: str) -> None:
        self.key = key


class _Step:
    """A freshly constructed step object (`Adder()` ...)."""

    def __init__(self, cls: str) -> None:
        self.cls = cls


class _Stack:
    """The builder's operator stack (whatever it is called locally): non-empty with `top` on top, or
    empty; after the first pop nothing more is known about it."""

    def __init__(self, top: _Top | None) -> None:
        self.top = top
        self.popped = 0

    def __bool__(self) -> bool:
        if self.popped:
            raise Unknown("emptiness of the build stack after a pop")
        return self.top is not None


class _Out:
    """The builder's output list (self._steps)."""


class _NonEmpty:
    """len() of the (non-empty) build stack: only its relation to 0 / 1 is known."""

    def _cmp(self, other: Any, at0: bool, at1: bool) -> bool:
        if other == 0:
            return at0
        if other == 1:
            return at1
        raise Unknown("len(self._build_stack) compared with a constant other than 0 / 1")

    def __gt__(self, o: Any) -> bool:
        if o == 0:
            return True
        raise Unknown("len(self._build_stack) > n")

    def __ge__(self, o: Any) -> bool:
        return self._cmp(o, True, True)

    def __lt__(self, o: Any) -> bool:
        return self._cmp(o, False, False)

    def __le__(self, o: Any) -> bool:
        if o == 0:
            return False
        raise Unknown("len(self._build_stack) <= n")

    def __eq__(self, o: Any) -> bool:  # type: ignore[override]
        if o == 0:
            return False
        raise Unknown("len(self._build_stack) == n")

    def __ne__(self, o: Any) -> bool:  # type: ignore[override]
        if o == 0:
            return True
        raise Unknown("len(self._build_stack) != n")

    __hash__ = None  # type: ignore[assignment]


class _Decided(Exception):
    def __init__(self, result: str, pushed: Any = None) -> None:
        super().__init__(result)
        self.result = result
        self.pushed = pushed


class Shunt:
    """Interpreter of FormulaBuilder.push_oper on one scenario (`prev` on top of the operator stack or an
    empty stack; `new` arriving), up to the end of the first pass of the unwinding loop or to the push of
    the new operator's step.  Statements of any shape are executed (if / match / while, early returns,
    aliases of the stack, locals); calls of private helpers of the module / class are interpreted with
    their arguments bound, whether or not they were spliced in beforehand."""

    def __init__(self, prog: Program | None, fn: FuncInfo, table: dict[str, int], prev: str | None, new: str) -> None:
        self.prog, self.fn, self.table = prog, fn, table
        self.stack = _Stack(_Top(prev) if prev is not None else None)
        self.out = _Out()
        self.new = new
        self.emit = 0
        self.loops = 0
        self.depth = 0

    # ---- expressions
    def ev(self, e: ast.AST, env: dict[str, Any]) -> Any:
        if isinstance(e, ast.Constant):
            return e.value
        if isinstance(e, ast.Name):
            if e.id in env:
                return env[e.id]
            raise Unknown(e.id)
        if isinstance(e, (ast.Tuple, ast.List, ast.Set)):
            return tuple(self.ev(x, env) for x in e.elts)
        if isinstance(e, ast.Attribute):
            t = u(e)
            if t == "self._build_stack":
                return self.stack
            if t == "self._steps":
                return self.out
            raise Unknown(t)
        if isinstance(e, ast.Subscript):
            if u(e.value) == "_operator_precedence":
                k = self.ev(e.slice, env)
                k = k.key if isinstance(k, _Top) else k
                if k not in self.table:
                    raise Unknown(f"precedence of {k!r}")
                return self.table[k]
            base = self.ev(e.value, env)
            if isinstance(base, _Stack) and u(e.slice) == "-1" and base.top is not None and not base.popped:
                return base.top
            if isinstance(base, _Stack) and (isinstance(e.slice, ast.Constant) and isinstance(e.slice.value, int)
                                             or isinstance(e.slice, ast.UnaryOp) and isinstance(e.slice.operand, ast.Constant)):
                raise _Decided("looks-below-the-top")  # the decision must be taken on the most recently stacked operator
            raise Unknown(u(e))
        if isinstance(e, ast.Compare):
            left = self.ev(e.left, env)
            for op, right in zip(e.ops, e.comparators):
                r = self.ev(right, env)
                l = left
                if isinstance(op, (ast.Is, ast.IsNot)) and (l is None or r is None):
                    res = (l is r) if isinstance(op, ast.Is) else (l is not r)
                else:
                    if any(isinstance(x, (_Top, _Step, _Stack, _Out)) for x in (l, r)):
                        raise Unknown(u(e))
                    fn = {ast.Lt: lambda: l < r, ast.LtE: lambda: l <= r, ast.Gt: lambda: l > r,
                          ast.GtE: lambda: l >= r, ast.Eq: lambda: l == r, ast.NotEq: lambda: l != r,
                          ast.In: lambda: l in r, ast.NotIn: lambda: l not in r,
                          ast.Is: lambda: l is r, ast.IsNot: lambda: l is not r}.get(type(op))
                    if fn is None:
                        raise Unknown(u(e))
                    res = fn()
                if not res:
                    return False
                left = r
            return True
        if isinstance(e, ast.BoolOp):
            is_and = isinstance(e.op, ast.And)
            v: Any = is_and
            for x in e.values:  # short-circuit, like Python
                v = self.ev(x, env)
                if bool(v) != is_and:
                    return v
            return v
        if isinstance(e, ast.UnaryOp) and isinstance(e.op, ast.Not):
            return not self.ev(e.operand, env)
        if isinstance(e, ast.IfExp):
            return self.ev(e.body, env) if self.ev(e.test, env) else self.ev(e.orelse, env)
        if isinstance(e, ast.NamedExpr) and isinstance(e.target, ast.Name):
            env[e.target.id] = self.ev(e.value, env)
            return env[e.target.id]
        if isinstance(e, ast.Call):
            return self.call(e, env)
        raise Unknown(u(e))

    def call(self, c: ast.Call, env: dict[str, Any]) -> Any:
        f = c.func
        name = u(f)
        if name in ("repr", "str") and len(c.args) == 1 and not c.keywords:
            v = self.ev(c.args[0], env)
            return v.key if isinstance(v, _Top) else v
        if name == "bool" and len(c.args) == 1:
            return bool(self.ev(c.args[0], env))
        if name == "len" and len(c.args) == 1:
            v = self.ev(c.args[0], env)
            if isinstance(v, _Stack) and not v.popped:
                return _NonEmpty() if v.top is not None else 0
            raise Unknown(u(c))
        if name == "isinstance":
            raise Unknown(u(c))
        if isinstance(f, ast.Attribute) and f.attr in ("pop", "append", "get"):
            try:
                base = self.ev(f.value, env)
            except Unknown:
                base = None
            if isinstance(base, _Stack) and f.attr == "pop" and not c.args:
                if base.popped or base.top is None:
                    raise Unknown("second pop in one pass / pop from an empty stack")
                base.popped += 1
                return base.top
            if isinstance(base, _Out) and f.attr == "append" and len(c.args) == 1:
                v = self.ev(c.args[0], env)
                if v is not self.stack.top or self.emit:
                    raise AnalysisError(f"{self.fn.qual}: `{u(c)}` does not emit the stacked operator exactly once")
                self.emit += 1
                return None
            if isinstance(base, _Stack) and f.attr == "append" and len(c.args) == 1:
                raise _Decided("dispatch", self.ev(c.args[0], env))
        if isinstance(f, ast.Name) and f.id[:1].isupper() and f.id not in env:
            return _Step(f.id)  # a step class being instantiated
        tgt = private_callee(self.prog, self.fn, c) if self.prog is not None else None
        if tgt is None and isinstance(f, ast.Attribute) and isinstance(f.value, ast.Name) and f.value.id == "self" \
                and self.prog is not None and self.fn.cls is not None:
            tgt = self.prog.resolve_method(self.fn.cls, f.attr)  # an anchored / public sibling method
        if tgt is not None and self.depth < 6:
            a = tgt.node.args
            names = [x.arg for x in a.posonlyargs + a.args]
            if names and names[0] in ("self", "cls") and not any(u(d) == "staticmethod" for d in tgt.node.decorator_list):
                names = names[1:]
            frame: dict[str, Any] = {}
            for n, v in zip(names, c.args):
                frame[n] = self.ev(v, env)
            for k in c.keywords:
                if k.arg is not None:
                    frame[k.arg] = self.ev(k.value, env)
            dflt = dict(zip(names[len(names) - len(a.defaults):], a.defaults))
            for n in names:
                if n not in frame:
                    if n not in dflt:
                        raise Unknown(f"argument {n} of {tgt.name}")
                    frame[n] = self.ev(dflt[n], {})
            self.depth += 1
            try:
                kind, val = self.block(tgt.node.body, frame)
            finally:
                self.depth -= 1
            return val if kind == "return" else None
        raise Unknown(u(c))

    # ---- patterns
    def matches(self, p: ast.pattern, v: Any, env: dict[str, Any]) -> bool:
        if isinstance(p, ast.MatchValue):
            return bool(self.ev(p.value, env) == v)
        if isinstance(p, ast.MatchSingleton):
            return v is p.value
        if isinstance(p, ast.MatchOr):
            return any(self.matches(x, v, env) for x in p.patterns)
        if isinstance(p, ast.MatchAs):
            if p.pattern is not None and not self.matches(p.pattern, v, env):
                return False
            if p.name is not None:
                env[p.name] = v
            return True
        raise Unknown("match pattern " + ast.unparse(p))

    # ---- statements
    def block(self, stmts: list[ast.stmt], env: dict[str, Any]) -> tuple[str, Any]:
        for s in stmts:
            if isinstance(s, ast.Pass) or (isinstance(s, ast.Expr) and isinstance(s.value, ast.Constant)):
                continue
            if isinstance(s, ast.Assign) and len(s.targets) == 1 and isinstance(s.targets[0], ast.Name):
                env[s.targets[0].id] = self.ev(s.value, env)
            elif isinstance(s, ast.Assign) and len(s.targets) == 1 and isinstance(s.targets[0], (ast.Tuple, ast.List)) \
                    and all(isinstance(t, ast.Name) for t in s.targets[0].elts):
                vals = self.ev(s.value, env)
                if not isinstance(vals, tuple) or len(vals) != len(s.targets[0].elts):
                    raise Unknown(u(s))
                for t, v in zip(s.targets[0].elts, vals):
                    env[t.id] = v  # type: ignore[attr-defined]
            elif isinstance(s, ast.AnnAssign) and isinstance(s.target, ast.Name):
                if s.value is not None:
                    env[s.target.id] = self.ev(s.value, env)
            elif isinstance(s, ast.Expr):
                self.ev(s.value, env)
            elif isinstance(s, ast.If):
                r = self.block(s.body, env) if self.ev(s.test, env) else self.block(s.orelse, env)
                if r[0] != "next":
                    return r
            elif isinstance(s, ast.Match):
                subj = self.ev(s.subject, env)
                for case in s.cases:
                    if self.matches(case.pattern, subj, env) and (case.guard is None or self.ev(case.guard, env)):
                        r = self.block(case.body, env)
                        if r[0] != "next":
                            return r
                        break
            elif isinstance(s, ast.While):
                if self.loops:
                    raise Unknown("a second loop")
                if not self.ev(s.test, env):
                    r = self.block(s.orelse, env)
                    if r[0] != "next":
                        return r
                    continue
                self.loops += 1
                r = self.block(s.body, env)
                pop = self.stack.popped
                if r[0] in ("break", "return"):
                    raise _Decided("reduce-and-stop" if self.emit and pop else
                                   "discard" if pop and not self.emit else
                                   "shift" if not self.emit else "emit-without-pop")
                if self.emit and pop:
                    raise _Decided("reduce")
                # neither stopped nor consumed: the loop spins on the same stacked operator (or loses it half-way)
                raise _Decided("emit-without-pop" if self.emit else "pop-without-emit-and-continue" if pop else "stuck")
            elif isinstance(s, ast.Break):
                return "break", None
            elif isinstance(s, ast.Continue):
                return "continue", None
            elif isinstance(s, ast.Return):
                return "return", (self.ev(s.value, env) if s.value is not None else None)
            elif isinstance(s, ast.Raise):
                return "raise", None
            elif isinstance(s, (ast.FunctionDef, ast.AsyncFunctionDef)):
                continue
            else:
                raise AnalysisError(f"{self.fn.qual}: statement `{u(s)[:40]}` of the shift/reduce decision not recognised")
        return "next", None

    def run(self) -> tuple[str, Any]:
        """(decision, pushed value): decision as in decision(); pushed is what was appended to the build stack."""
        if len(self.fn.params) < 2:
            raise AnalysisError(f"{self.fn.qual}: operator parameter not found")
        try:
            self.block(self.fn.node.body, {self.fn.params[1]: self.new})
            return "dispatch", None
        except _Decided as d:
            return d.result, d.pushed


def decision(fn: FuncInfo, table: dict[str, int], prev: str, new: str, prog: Program | None = None) -> str:
    """shift | reduce | reduce-and-stop | discard for `new` arriving with `prev` on top of the operator stack."""
    sh = Shunt(prog, fn, table, prev, new)
    try:
        result, _pushed = sh.run()
    except Unknown as exc:
        raise AnalysisError(f"{fn.qual}: cannot evaluate the shift/reduce decision for stack top `{prev}`, "
                            f"incoming `{new}`: {exc}") from exc
    if result == "dispatch":
        # the operator is pushed (or dropped, for `)`) without the unwinding loop having run
        if sh.stack.popped or sh.emit:
            raise AnalysisError(f"{fn.qual}: the build stack is modified outside the unwinding loop")
        return "shift"
    return result


def pushed_step(fn: FuncInfo, table: dict[str, int], key: str, prog: Program | None) -> str | None:
    """Class of the step push_oper puts on an empty operator stack for `key` (None: nothing is pushed)."""
    try:
        result, pushed = Shunt(prog, fn, table, None, key).run()
    except Unknown as exc:
        raise AnalysisError(f"{fn.qual}: cannot evaluate what is pushed for operator `{key}`: {exc}") from exc
    if result != "dispatch":
        raise AnalysisError(f"{fn.qual}: the unwinding loop runs on an empty stack (operator `{key}`)")
    return pushed.cls if isinstance(pushed, _Step) else None


def check_prec(run: Run, prog: Program) -> None:
    fn = spliced(prog, prog.func(f"{ENGINE}:FormulaBuilder.push_oper"))
    run.analysed(fn.qual)
    table = precedence_table(prog)
    matrix = {}
    for prev in BIN:
        for new in BIN:
            d = decision(fn, table, prev, new, prog)
            matrix[(prev, new)] = d
            if (prev, new) in MUST_REDUCE:
                ok, why = d == "reduce", (f"`a {prev} b {new} c` must apply `{prev}` first (left-to-right / "
                                          "higher precedence) but the incoming operator is shifted")
            elif (prev, new) in MUST_SHIFT:
                ok, why = d == "shift", (f"`a {prev} b {new} c` must apply `{new}` first (higher precedence) "
                                         "but the stacked operator is reduced")
            else:
                ok, why = d in ("shift", "reduce"), "decision is neither shift nor reduce"
            run.check(ok, "C05.PREC", fn.qual, f"stack top `{prev}`, incoming `{new}` -> {d}",
                      f"{why} (precedence table: {prev}={table.get(prev)}, {new}={table.get(new)})",
                      node=fn.node, file=fn.file, instance=f"({prev}, {new}) -> {d}")
    for new in BIN:
        d = decision(fn, table, "(", new, prog)
        run.check(d == "shift", "C05.PREC", fn.qual, f"stack top `(`, incoming `{new}` -> {d}",
                  "an open parenthesis is reduced/discarded by a binary operator", node=fn.node, file=fn.file)
    for prev in BIN:
        d = decision(fn, table, prev, ")", prog)
        run.check(d == "reduce", "C05.PREC", fn.qual, f"stack top `{prev}`, incoming `)` -> {d}",
                  "a closing parenthesis does not reduce the operators inside the parentheses",
                  node=fn.node, file=fn.file)
    run.check(decision(fn, table, "(", ")", prog) == "discard", "C05.PREC", fn.qual, "stack top `(`, incoming `)`",
              "a closing parenthesis does not discard its matching open parenthesis (and stop there)",
              node=fn.node, file=fn.file)
    for prev in BIN + ("(", "max", "min", "consumption", "production"):
        d = decision(fn, table, prev, "(", prog)
        run.check(d == "shift", "C05.PREC", fn.qual, f"stack top `{prev}`, incoming `(` -> {d}",
                  "an open parenthesis triggers reductions (it must always be shifted)", node=fn.node, file=fn.file,
                  instance=f"({prev}, ( ) -> {d}")
    # functions bind tighter than any binary operator: `( X ) min Y + Z` never reduces across
    for f_op in ("max", "min", "consumption", "production"):
        for new in BIN + (")",):
            d = decision(fn, table, f_op, new, prog)
            run.check(d == "reduce", "C05.PREC", fn.qual, f"stack top `{f_op}`, incoming `{new}` -> {d}",
                      f"`{f_op}` is not applied before a following `{new}`", node=fn.node, file=fn.file)
    run.sample({"shift_reduce_matrix": {f"{p} {n}": d for (p, n), d in matrix.items()}})
    # after a reduce the loop continues with the next stacked operator, unconditionally
    cfg = CFG(fn.node, fn.file)
    loops = [n for n in cfg.nodes if n.kind == "while"]
    if len(loops) != 1:
        raise AnalysisError(f"{fn.qual}: while loop not found in CFG")
    h = loops[0]
    emits = [n.id for n in cfg.nodes if n.kind == "stmt" and n.ast is not None and any(
        isinstance(x, ast.Call) and method_call(x, "self._steps", "append") for x in ast.walk(n.ast))
        and n.id in cfg.reachable([m for m, lab in cfg.succ[h.id] if lab == "true"], avoid=[h.id])]
    ok = bool(emits)
    wit = None
    for e in emits:
        after = cfg.reachable([e], avoid=[h.id], edge_ok=lambda a, b, lab: not lab.startswith("exc:"))
        leaves = [x for x in after if any(m not in after and m != h.id and not lab.startswith("exc:")
                                          for m, lab in cfg.succ[x])]
        tests = [x for x in after if cfg.nodes[x].kind == "test"]
        if leaves or tests:
            ok = False
            wit = cfg.path(e, [cfg.exit], avoid=[h.id])
    run.check(ok, "C05.PREC", fn.qual, "reduce -> back to the loop test",
              "after moving one operator to the output the unwinding loop can stop before the remaining "
              "stacked operators of lower-or-equal precedence are moved (e.g. `a - b * c + d` would "
              "group as a - (b*c + d))", node=fn.node, file=fn.file, path=cfg.describe_path(wit))


# ---------------------------------------------------------------------------------------------
def repr_const(cls: ClassInfo) -> str | None:
    m = cls.methods.get("__repr__")
    if m is None:
        return None
    rets = [n for n in body_walk(m.node) if isinstance(n, ast.Return)]
    if len(rets) == 1 and isinstance(rets[0].value, ast.Constant) and isinstance(rets[0].value.value, str):
        return rets[0].value.value
    return None


def check_tab(run: Run, prog: Program) -> None:
    table = precedence_table(prog)
    fn = prog.func(f"{ENGINE}:FormulaBuilder.push_oper")
    steps = {c.name: c for c in step_classes(prog)}
    # what push_oper puts on the operator stack for each operator: interpreted, not pattern-matched (an if/elif
    # chain, a match statement, a lookup helper ... are all the same)
    fn = spliced(prog, fn)
    branches: dict[str, str] = {}
    scope = [fn.node] + [h.node for h in transitive_helpers(Flow(prog, fn))]
    literals = {x.value for nd in scope for x in ast.walk(nd) if isinstance(x, ast.Constant) and isinstance(x.value, str)
                and len(x.value) <= 16 and " " not in x.value and x.value}
    for key in sorted(set(table) | literals):
        try:
            cls_name = pushed_step(fn, table, key, prog)
        except AnalysisError:
            if key in table:
                raise
            continue  # a string literal that is not an operator (and cannot even be looked up)
        if cls_name is not None:
            branches[key] = cls_name
    for key in table:
        if key == ")":
            continue
        cls = branches.get(key)
        ok = cls in steps and repr_const(steps[cls]) == key
        run.check(ok, "C05.TAB", fn.qual, f'oper == "{key}" -> {cls}()',
                  f"operator `{key}` of the precedence table is pushed as `{cls}` whose __repr__ is "
                  f"`{repr_const(steps[cls]) if cls in steps else None}`: the shunting-yard looks precedences "
                  "up by repr(), and the evaluator would apply a different operation than written",
                  node=fn.node, file=fn.file)
    run.check(set(branches) <= set(table), "C05.TAB", fn.qual, "every pushed operator has a precedence",
              f"operators without precedence entry: {sorted(set(branches) - set(table))}", node=fn.node, file=fn.file)
    # tokenizer operators
    tk = prog.func(f"{TOK}:Tokenizer.__next__")
    run.analysed(tk.qual)
    # which characters become an OPER token: decided per character on the paths of __next__ (its private helpers
    # read in), whatever the spelling of the classification (in / not in / ==, literal tuples or module constants)
    tk_scope = [tk.node] + [h.node for h in transitive_helpers(Flow(prog, tk))]
    tfl = Flow(prog, inline_all(prog, tk))
    for nm in sorted(getattr(tfl.fn.node, "_inlined", ())):
        hm = tk.cls.methods.get(nm) if tk.cls is not None else None
        if hm is not None and any(isinstance(x, ast.Call) and u(x.func) == "Token" for x in ast.walk(hm.node)):
            run.analysed(hm.qual)  # the classification lives (partly) there
    tmod = tk.module

    def const_set(e: ast.AST) -> set[Any] | None:
        if isinstance(e, ast.Name) and e.id in tmod.assigns:
            e = tmod.assigns[e.id]
        if isinstance(e, ast.Constant):
            return set(e.value) if isinstance(e.value, str) and len(e.value) != 1 else {e.value}
        if isinstance(e, (ast.Tuple, ast.List, ast.Set)) and all(isinstance(x, ast.Constant) for x in e.elts):
            return {x.value for x in e.elts}  # type: ignore[attr-defined]
        if isinstance(e, ast.Call) and u(e.func) in ("frozenset", "set", "tuple", "list") and len(e.args) == 1:
            return const_set(e.args[0])
        return None

    oper_sites: list[tuple[int, list[Any]]] = []
    for nid, c in tfl.calls(lambda c: u(c.func) == "Token"):
        a = positional(c, ["type", "value"])
        if u(a.get("type")) == "TokenType.OPER" and "value" in a:
            oper_sites.append((nid, tfl.origin(a["value"], nid)))
    cands = {x.value for nd in tk_scope + list(tmod.assigns.values()) for x in ast.walk(nd)
             if isinstance(x, ast.Constant) and isinstance(x.value, str) and len(x.value) == 1} | {k for k in table if len(k) == 1}
    def char_is(ch: str, vo: list[Any]) -> Any:
        """Scenario "the character under classification is `ch`" (vo: the origins that denote that character)."""
        def atom(e: ast.AST, nid: int) -> bool | None:
            if isinstance(e, ast.Call) and isinstance(e.func, ast.Attribute) and not e.args and not e.keywords \
                    and e.func.attr in _STR_PREDICATES:
                xo = tfl.origin(e.func.value, nid)
                if xo and all(q.kind == "iter" for q in xo) and names_eq(xo, vo):
                    return bool(getattr(ch, e.func.attr)())  # a pure str predicate of the one character: evaluated
                return None
            if not (isinstance(e, ast.Compare) and len(e.ops) == 1):
                return None
            for x, y in ((e.left, e.comparators[0]), (e.comparators[0], e.left)):
                xo = tfl.origin(x, nid)
                if xo and all(q.kind == "iter" for q in xo) and names_eq(xo, vo):
                    cs = const_set(y)
                    if cs is None:
                        return None
                    op = e.ops[0]
                    if isinstance(op, (ast.Eq, ast.NotEq)) and len(cs) == 1:
                        return (ch in cs) == isinstance(op, ast.Eq)
                    if isinstance(op, (ast.In, ast.NotIn)) and x is e.left:
                        return (ch in cs) == isinstance(op, ast.In)
            return None
        return lifted(tfl, atom)

    ops: set[str] = set()
    for ch in sorted(cands):
        for site, vo in oper_sites:
            if tfl.cfg.path(tfl.cfg.entry, [site], edge_ok=pruned(tfl.cfg, char_is(ch, vo))) is not None:
                ops.add(ch)
    # the character loop: blanks are skipped (never end the token stream), `#` starts a component id
    chars = [h for h in tfl.cfg.nodes if h.kind == "for" and h.id in tfl.live and isinstance(h.ast.target, ast.Name)  # type: ignore[union-attr]
             and u(h.ast.iter) == "self._formula"]  # type: ignore[union-attr]
    ok_ws = ok_hash = len(chars) == 1
    if ok_ws:
        h = chars[0]
        b0 = [m for m, lab in tfl.cfg.succ[h.id] if lab == "iter"]
        vo_loop = tfl.origin(ast.Name(id=h.ast.target.id, ctx=ast.Load()), b0[0])  # type: ignore[union-attr]
        def str_test(a: int) -> bool:
            """A branch condition whose only calls are pure str predicates (`char.isspace()`): it cannot raise."""
            n = tfl.cfg.nodes[a]
            calls = [x for x in ast.walk(n.ast) if isinstance(x, ast.Call)] if n.kind == "test" and n.ast is not None else []
            return bool(calls) and all(isinstance(x.func, ast.Attribute) and x.func.attr in _STR_PREDICATES and not x.args and not x.keywords
                                       and isinstance(x.func.value, ast.Name) for x in calls)

        for ch in (" ", "\n", "\t"):
            e_ws0 = pruned(tfl.cfg, char_is(ch, vo_loop), normal_only=False)
            e_ws = lambda a, b, lab, e_ws0=e_ws0: e_ws0(a, b, lab) and not (lab.startswith("exc:") and str_test(a))  # noqa: E731
            ok_ws = ok_ws and tfl.cfg.path(b0[0], [h.id], edge_ok=e_ws) is not None \
                and tfl.cfg.path(b0[0], [tfl.cfg.exit, tfl.cfg.raise_exit], avoid=[h.id], edge_ok=e_ws) is None
        metric_sites = [nid for nid, c in tfl.calls(lambda c: u(c.func) == "Token")
                        if u(positional(c, ["type", "value"]).get("type")) == "TokenType.COMPONENT_METRIC"]
        e_hash = pruned(tfl.cfg, char_is("#", vo_loop))
        ok_hash = bool(metric_sites) and tfl.cfg.path(b0[0], metric_sites, edge_ok=e_hash) is not None \
            and not any(tfl.cfg.path(b0[0], [site], edge_ok=e_hash) is not None for site, _vo in oper_sites)
    run.check(ok_ws, "C05.TAB", tk.qual, "whitespace between tokens is skipped",
              "a blank, tab or newline ends (or breaks) the token stream instead of being skipped: the rest of the formula is lost",
              node=tk.node, file=tk.file)
    run.check(ok_hash, "C05.TAB", tk.qual, "`#` starts a component-metric token",
              "`#` is not tokenised as a component metric", node=tk.node, file=tk.file)
    run.check(ops == {"+", "-", "*", "/", "(", ")"} and ops <= set(table), "C05.TAB", tk.qual,
              f"tokenizer operators {sorted(ops)}",
              "the tokenizer's operator characters are not exactly + - * / ( ) or lack a precedence",
              node=tk.node, file=tk.file)
    emitted = {n.attr for nd in tk_scope for n in ast.walk(nd) if isinstance(n, ast.Attribute) and u(n.value) == "TokenType"}
    fs = prog.func(f"{RFB}:ResampledFormulaBuilder.from_string")
    run.analysed(fs.qual)
    handled = {n.attr for n in ast.walk(fs.node) if isinstance(n, ast.Attribute) and u(n.value) == "TokenType"}
    run.check(emitted <= handled, "C05.TAB", fs.qual, f"from_string handles {sorted(handled)}",
              f"the tokenizer emits {sorted(emitted)} but from_string handles only {sorted(handled)}",
              node=fs.node, file=fs.file)
    ffl = Flow(prog, spliced(prog, fs))
    src_params = [p for p in ffl.params if p != "self"]
    loops = [n for n in ffl.cfg.nodes if n.kind == "for" and n.id in ffl.live and isinstance(n.ast.target, ast.Name)  # type: ignore[union-attr]
             and any(o.kind == "expr" and isinstance(o.node, ast.Call) and u(o.node.func) == "Tokenizer" for o in ffl.origin(n.ast.iter, n.id))]  # type: ignore[union-attr]
    ok = len(loops) == 1 and bool(src_params)
    if ok:
        lp = loops[0]
        mk = ffl.origin1(lp.ast.iter, lp.id)  # type: ignore[union-attr]
        targ = positional(mk.node, ["formula"]).get("formula") if mk is not None and isinstance(mk.node, ast.Call) else None
        ok = targ is not None and all(o.kind == "param" and o.name == src_params[0] for o in ffl.origin(targ, mk.nid))  # type: ignore[union-attr]
        region = ffl.cfg.reachable([m for m, lab in ffl.cfg.succ[lp.id] if lab == "iter"], avoid=[lp.id])

        def tok_value(e: ast.AST | None, nid: int) -> bool:
            """`<loop variable>.value`, possibly through a local."""
            if e is None:
                return False
            o = ffl.origin1(e, nid)
            return o is not None and o.kind == "expr" and isinstance(o.node, ast.Attribute) and o.node.attr == "value" \
                and all(q.kind == "iter" and q.nid == lp.id and q.idx is None for q in ffl.origin(o.node.value, o.nid))

        opers = [(n, c) for n, c in ffl.calls(lambda c: method_call(c, "self", "push_oper")) if n in region]
        mets = [(n, c) for n, c in ffl.calls(lambda c: method_call(c, "self", "push_component_metric")) if n in region]
        body0 = [m for m, lab in ffl.cfg.succ[lp.id] if lab == "iter"]
        pushes = [n for n, _c in opers + mets]
        ok = ok and len(opers) == 1 and len(mets) == 1 and bool(body0) \
            and not any(isinstance(x, ast.Break) for st in lp.ast.body for x in ast.walk(st)) \
            and (body0[0] in pushes or ffl.cfg.path(body0[0], [lp.id], avoid=pushes, edge_ok=lambda a, b, lab: not lab.startswith("exc:")) is None)  # type: ignore[union-attr]
        if ok:
            (on, oc), (mn, mc) = opers[0], mets[0]
            oparams = [p for p in prog.func(f"{ENGINE}:FormulaBuilder.push_oper").params if p != "self"]
            mfn = prog.resolve_method(fs.cls, "push_component_metric") if fs.cls is not None else None
            mparams = [p for p in mfn.params if p != "self"] if mfn is not None else ["component_id"]
            oa = positional(oc, oparams)
            ma = positional(mc, mparams)
            cid = ma.get(mparams[0]) if mparams else None
            naz = ma.get("nones_are_zeros")
            co = ffl.origin1(cid, mn) if cid is not None else None
            cid, cnid = (co.node, co.nid) if co is not None and co.kind == "expr" else (None, mn)
            ok = len(oa) == 1 and tok_value(oa.get(oparams[0]), on) \
                and isinstance(cid, ast.Call) and u(cid.func) == "int" and len(cid.args) == 1 and tok_value(cid.args[0], cnid) \
                and naz is not None and all(o.kind == "param" and o.name == "nones_are_zeros" for o in ffl.origin(naz, mn))
    if ok:
        def type_is(kind: str) -> Any:
            def atom(e: ast.AST, nid: int) -> bool | None:
                if isinstance(e, ast.Compare) and len(e.ops) == 1 and isinstance(e.ops[0], (ast.Eq, ast.NotEq, ast.Is, ast.IsNot)):
                    for x, y in ((e.left, e.comparators[0]), (e.comparators[0], e.left)):
                        xo = ffl.origin1(x, nid)
                        if xo is not None and xo.kind == "expr" and isinstance(xo.node, ast.Attribute) and xo.node.attr == "type" \
                                and all(q.kind == "iter" and q.nid == lp.id for q in ffl.origin(xo.node.value, xo.nid)) \
                                and u(y).startswith("TokenType."):
                            same = u(y) == f"TokenType.{kind}"
                            return same if isinstance(e.ops[0], (ast.Eq, ast.Is)) else not same
                return None
            return pruned(ffl.cfg, lifted(ffl, atom))
        e_op, e_me = type_is("OPER"), type_is("COMPONENT_METRIC")
        ok = ffl.cfg.path(body0[0], [on], edge_ok=e_op) is not None and ffl.cfg.path(body0[0], [mn], edge_ok=e_op) is None \
            and ffl.cfg.path(body0[0], [mn], edge_ok=e_me) is not None and ffl.cfg.path(body0[0], [on], edge_ok=e_me) is None
    run.check(ok, "C05.TAB", fs.qual, "every token pushed in order",
              "tokens are not pushed one by one in input order with their own value", node=fs.node, file=fs.file)
    check_ho_kinds(run, prog)


def check_ho_kinds(run: Run, prog: Program) -> None:
    """C05.TAB (composition API, sibling agreement): every token kind the operator methods can append to a builder
    (COMPONENT_METRIC, OPER, CONSTANT -- read from _push, consumption, production and the helpers they call) is handled
    by BOTH build() methods; a build() without a branch for a kind drops those tokens silently and compiles a malformed
    step list (a dangling operator: every evaluation raises, the engine never emits a sample)."""
    cls = prog.cls(f"{ENGINE}:_BaseHOFormulaBuilder")
    producers: list[FuncInfo] = []
    ph = push_helper(prog)
    for m in [ph] + [prog.resolve_method(cls, nm) for nm in (*OPERATOR_METHODS.values(), "consumption", "production", "__init__")]:
        if m is not None and not any(m is x for x in producers):
            producers.append(m)
            producers.extend(transitive_helpers(Flow(prog, m)))
    emitted = {n.attr for f_ in producers for n in ast.walk(f_.node) if isinstance(n, ast.Attribute) and u(n.value) == "TokenType"}
    if not {"COMPONENT_METRIC", "OPER"} <= emitted:
        raise AnalysisError(f"{cls.qual}: the token kinds the builder records could not be read ({sorted(emitted)})")
    for cname, exc in (("HigherOrderFormulaBuilder", set()), ("HigherOrderFormulaBuilder3Phase", set())):
        b = prog.func(f"{ENGINE}:{cname}.build")
        run.analysed(b.qual)
        # build() and the private helpers it does the replay through
        units = [b] + transitive_helpers(Flow(prog, b))
        handled = {n.attr for f_ in units for n in ast.walk(f_.node) if isinstance(n, ast.Attribute) and u(n.value) == "TokenType"}
        run.check(emitted - exc <= handled, "C05.TAB", b.qual, f"build handles {sorted(handled)}",
                  f"the builder can hold {sorted(emitted)} tokens but build() handles only {sorted(handled)}: the tokens of the missing kind are "
                  "dropped without a word and the compiled steps are malformed (an operator without its operand) -- every evaluation raises, "
                  "FormulaEngine._run drops every round, the composed engine never emits a sample",
                  node=b.node, file=b.file)
        ok = any(isinstance(s, ast.For) and u(s.iter) == "self._steps" for f_ in units for s in body_walk(f_.node))
        run.check(ok, "C05.TAB", b.qual, "tokens replayed in order", "tokens are not replayed in order",
                  node=b.node, file=b.file)




# ---------------------------------------------------------------------------------------------
def check_step(run: Run, prog: Program) -> None:
    specs = {"+": "(a + b)", "-": "(a - b)", "*": "(a * b)", "/": "(a / b)"}
    n = 0
    for cls in step_classes(prog):
        key = repr_const(cls)
        if key not in ("+", "-", "*", "/", "max", "min", "consumption", "production"):
            continue
        fn = cls.methods["apply"]
        run.analysed(fn.qual)
        n += 1
        interp = step_interp(prog, fn, _self_fields)
        param = fn.params[1]
        stacks: list[list[Any]] = []
        ops: list[tuple[F, F]] = []
        arity = 1 if key in ("consumption", "production") else 2

        def make_args() -> dict[str, Any]:
            a, b = F("fin", "a"), F("fin", "b")
            st = [F("fin", "S"), a] + ([b] if arity == 2 else [])
            stacks.append(st)
            ops.append((a, b))
            return {"self": Obj("self"), param: st}

        outs = interp.explore(fn.node, make_args)
        for out, st, (a, b) in zip(outs, stacks, ops):
            labels = dict(zip(out.labels, out.decisions))
            inst = f"{cls.name}.apply path {labels}"
            if out.kind == "raise":
                continue  # totality is C13.TOTAL's business
            if len(st) != 2:
                run.violation("C05.STEP", fn.qual, f"{cls.name} stack effect",
                              f"leaves {len(st) - 1} values", node=fn.node, file=fn.file)
                continue
            res = interp.lift(st[1])
            ok, why = True, ""
            if key in specs:
                zero_div = key == "/" and labels.get("b == 0") == 1
                if zero_div:
                    ok = isinstance(res, F) and res.kind == "nan"
                    why = "division by zero does not yield NaN (-> None sample)"
                else:
                    ok = isinstance(res, F) and res.expr == specs[key]
                    why = (f"computes `{getattr(res, 'expr', res)}` instead of `{specs[key]}` "
                           "(a = first pushed operand, b = top of stack)")
            elif key in ("max", "min"):
                ok = res is a or res is b
                why = f"result `{getattr(res, 'expr', res)}` is not one of the operands"
                if ok:
                    facts = (out.state or {}).get("order", {})
                    rel = facts.get((min(a.id, b.id), max(a.id, b.id)))
                    # rel = sign of (lower id ? higher id) on this path: a has the lower id
                    if rel is not None and rel != 0:
                        a_bigger = rel > 0
                        want = (a if a_bigger else b) if key == "max" else (b if a_bigger else a)
                        ok = res is want
                        why = f"{key}(a, b) returns the {'smaller' if key == 'max' else 'larger'} operand"
            else:
                want_pos = "a" if key == "consumption" else "(-a)"
                if isinstance(res, F) and res.expr in (want_pos,):
                    ok = True
                elif isinstance(res, F) and res.kind == "fin" and res.zero is True:
                    ok = True
                else:
                    ok = False
                    why = f"result `{getattr(res, 'expr', res)}` is neither `{want_pos}` nor zero"
                if ok and isinstance(res, F):
                    # ... and it is the larger of the two values that were compared (the operand vs. zero)
                    facts = (out.state or {}).get("order", {})
                    mine = [(k, r) for k, r in facts.items() if res.id in k]
                    if len(mine) == 1 and mine[0][1] != 0:
                        (lo, _hi), r = mine[0]
                        sign = r if res.id == lo else -r
                        ok = sign > 0
                        why = f"the result `{res.expr}` is the smaller of the operand and zero (the step clips the wrong side)"
            run.check(ok, "C05.STEP", fn.qual, f"{cls.name}.apply result",
                      f"step `{key}` {why}", node=fn.node, file=fn.file, instance=inst)
    if n < 8:
        raise AnalysisError(f"C05.STEP: only {n} operator steps found")


# ---------------------------------------------------------------------------------------------
class DequeModel(list):
    pass


_BUILDER_CLASSES = ("_BaseHOFormulaBuilder", "HigherOrderFormulaBuilder", "HigherOrderFormulaBuilder3Phase")


class HOInterp(HelperCalls, Interp):
    """Interprets the operator methods of the composition API (and what they delegate to: _push, _clone, helpers) on
    token deques with abstract operands.  Objects are copied the way Python copies them -- `copy.copy(builder)` shares
    the token deque until the attribute is re-bound (`.copy()`, `deque(...)`, `copy.copy / deepcopy(<deque>)`);
    `type(self).__new__(type(self))`, `type(self)(...)` / `self.__class__(...)` and `__dict__.update` are the
    hand-written spellings of a clone -- and every in-place change of a deque is logged with the call and the method
    it sits in (C05.VALUE names them)."""

    def __init__(self, prog: Program, module: Any) -> None:
        super().__init__()
        self.prog = prog
        self.module = module
        self.mutations: list[tuple[int, str, ast.AST, str]] = []  # (id(deque), deque method, call, enclosing function)
        self.fn_stack: list[str] = []

    def call_node(self, fn: Any, args: dict[str, Any], closure_env: dict[str, Any] | None = None) -> Any:
        self.fn_stack.append(getattr(fn, "name", "<lambda>"))
        try:
            return super().call_node(fn, args, closure_env)
        finally:
            self.fn_stack.pop()

    def unknown_name(self, ident: str, node: ast.AST) -> Any:
        if ident in ("isinstance", "len", "bool", "list", "tuple", "all", "any", "deque", "type", "vars", "id"):
            return ("builtin", ident)
        if ident == "TokenType":
            return Obj("TokenType")
        if ident == "copy":
            return Obj("module:copy")
        if ident in _BUILDER_CLASSES:
            return ident
        if ident in ("FormulaEngine", "FormulaEngine3Phase", "Quantity", "float", "int", "RuntimeError", "TypeError", "ValueError"):
            return ident
        raise AnalysisError(f"name {ident} not modelled in the HO-builder interpreter")

    @staticmethod
    def _shallow(v: Any) -> Any:
        if isinstance(v, DequeModel):
            return DequeModel(v)
        if isinstance(v, Obj):
            return Obj(v.cls, **v.fields)  # the fields are shared: a copied builder still holds the SAME deque
        if isinstance(v, (list, dict, set)):
            return type(v)(v)
        return v

    def _deep(self, v: Any) -> Any:
        if isinstance(v, DequeModel):
            return DequeModel(v)  # the tokens themselves are immutable pairs; engines keep their identity in the model
        if isinstance(v, Obj) and v.cls == "Builder":
            return Obj(v.cls, **{k: self._deep(x) if isinstance(x, DequeModel) else x for k, x in v.fields.items()})
        return self._shallow(v)

    def get_attr(self, base: Any, attr: str, node: ast.AST) -> Any:
        if isinstance(base, Obj) and base.cls == "TokenType":
            return f"TT.{attr}"
        if isinstance(base, Obj) and base.cls == "module:copy" and attr in ("copy", "deepcopy"):
            return ("builtin", f"copy.{attr}")
        if isinstance(base, DequeModel) and attr in ("appendleft", "append", "extend", "popleft", "pop", "extendleft", "clear", "copy", "insert",
                                                     "__copy__"):
            return ("deque", base, attr)
        if isinstance(base, Obj) and base.cls == "Builder" and attr == "__class__":
            return ("builderclass", base)
        if isinstance(base, Obj) and base.cls == "Builder" and attr == "__dict__":
            return base.fields
        if isinstance(base, tuple) and base and base[0] == "builderclass" and attr == "__new__":
            return ("buildernew", base[1])
        if isinstance(base, dict) and attr == "update":
            return ("dictupdate", base)
        if isinstance(base, dict) and attr == "copy":
            return ("dictcopy", base)
        return super().get_attr(base, attr, node)

    def set_attr(self, base: Any, attr: str, v: Any, node: ast.AST) -> None:
        if isinstance(base, Obj) and attr == "__dict__" and isinstance(v, dict):
            keep = {k: x for k, x in base.fields.items() if k == "kinds"}
            base.fields.clear()
            base.fields.update(keep)
            base.fields.update(v)
            return
        super().set_attr(base, attr, v, node)

    def _new_builder(self, like: Obj) -> Obj:
        return Obj("Builder", kinds=set(like.fields.get("kinds", {"_BaseHOFormulaBuilder"})))

    def apply(self, fn: Any, pos: list[Any], kw: dict[str, Any], node: ast.AST) -> Any:
        if isinstance(fn, tuple) and fn and fn[0] == "buildernew":
            return self._new_builder(fn[1])
        if isinstance(fn, tuple) and fn and fn[0] == "builderclass":
            # a constructor call: a new builder initialised by the class's own __init__
            me = self._new_builder(fn[1])
            init = self.helper_prog.resolve_method(self.helper_cls, "__init__") if self.helper_prog is not None and self.helper_cls is not None else None
            if init is None:
                raise AnalysisError("constructor of the builder not found in the HO-builder interpreter")
            self.call_node(init.node, self.bind_args(init.node, pos, kw, self_value=me), {})
            return me
        if isinstance(fn, tuple) and fn and fn[0] == "dictupdate":
            fn[1].update(pos[0] if pos else {})
            fn[1].update(kw)
            return None
        if isinstance(fn, tuple) and fn and fn[0] == "dictcopy":
            return dict(fn[1])
        if isinstance(fn, tuple) and fn[0] == "deque":
            _, d, m = fn
            if m not in ("copy", "__copy__"):
                self.mutations.append((id(d), m, node, self.fn_stack[-1] if self.fn_stack else "?"))
            if m == "pop":
                if not d:
                    raise _Raise("IndexError", node)
                return list.pop(d)
            if m == "insert":
                list.insert(d, pos[0], pos[1])
                return None
            if m == "__copy__":
                return DequeModel(d)
            if m == "appendleft":
                d.insert(0, pos[0])
            elif m == "append":
                d.append(pos[0])
            elif m == "popleft":
                if not d:
                    raise _Raise("IndexError", node)
                return d.pop(0)
            elif m == "extendleft":
                for x in list(pos[0]):
                    d.insert(0, x)
            elif m == "clear":
                del d[:]
            elif m == "copy":
                return DequeModel(d)
            else:
                d.extend(pos[0])
            return None
        if isinstance(fn, str):
            return Obj("Exception", name=fn)
        return super().apply(fn, pos, kw, node)

    def builtin(self, name: str, pos: list[Any], kw: dict[str, Any], node: ast.AST) -> Any:
        if name == "copy.copy" and len(pos) == 1:
            return self._shallow(pos[0])
        if name == "copy.deepcopy" and pos:
            return self._deep(pos[0])
        if name == "deque":
            return DequeModel(list(self.iterate(pos[0], node)) if pos else [])
        if name == "type" and len(pos) == 1 and isinstance(pos[0], Obj) and pos[0].cls == "Builder":
            return ("builderclass", pos[0])
        if name == "vars" and len(pos) == 1 and isinstance(pos[0], Obj):
            return pos[0].fields
        if name == "id" and len(pos) == 1:
            return ("id", id(pos[0]))
        if name == "isinstance":
            v, classes = pos
            classes = classes if isinstance(classes, tuple) else (classes,)
            kinds = v.fields["kinds"] if isinstance(v, Obj) and "kinds" in v.fields else set()
            if isinstance(v, bool):
                kinds = {"bool", "int"}
            elif isinstance(v, (int, float)):
                kinds = {type(v).__name__}
            return any(c in kinds for c in classes)
        return super().builtin(name, pos, kw, node)

    # numbers the builder computes itself (a scalar folded into a recorded constant ...) stay symbolic: the value is
    # an expression over the operands, evaluated when the token stream's meaning is compared (check_paren)
    def binop(self, op: ast.operator, a: Any, b: Any, node: ast.AST) -> Any:
        sym = {ast.Add: "+", ast.Sub: "-", ast.Mult: "*", ast.Div: "/"}.get(type(op))

        def numeric(v: Any) -> bool:
            return (isinstance(v, (int, float)) and not isinstance(v, bool)) or (
                isinstance(v, Obj) and bool(v.fields.get("kinds", set()) & {"float", "int", "Quantity"}))

        if sym is not None and numeric(a) and numeric(b):
            if not isinstance(a, Obj) and not isinstance(b, Obj):
                try:
                    return {"+": a + b, "-": a - b, "*": a * b}[sym] if sym != "/" else a / b
                except ZeroDivisionError:
                    raise _Raise("ZeroDivisionError", node) from None
            quant = any(isinstance(v, Obj) and "Quantity" in v.fields.get("kinds", set()) for v in (a, b))
            return Obj("Val", kinds={"Quantity"} if quant else {"float"}, expr=(sym, a, b))
        return super().binop(op, a, b, node)

    def unaryop(self, op: ast.unaryop, v: Any, node: ast.AST) -> Any:
        if isinstance(op, ast.USub) and isinstance(v, Obj) and v.fields.get("kinds", set()) & {"float", "int", "Quantity"}:
            return Obj("Val", kinds=set(v.fields["kinds"]), expr=("-", 0, v))
        return super().unaryop(op, v, node)

    def exc_name(self, exc: ast.AST | None) -> str:
        return "RuntimeError"

    def compare_values(self, op: ast.cmpop, a: Any, b: Any, node: ast.AST) -> Any:
        if isinstance(op, (ast.Eq, ast.NotEq)):
            same = (a == b) if not (isinstance(a, Obj) or isinstance(b, Obj)) else (a is b)
            return same if isinstance(op, ast.Eq) else not same
        return super().compare_values(op, a, b, node)

    def get_item(self, base: Any, key: Any, node: ast.AST) -> Any:
        if isinstance(base, DequeModel) and isinstance(key, int):
            try:
                return list.__getitem__(base, key)
            except IndexError:
                raise _Raise("IndexError", node) from None
        return super().get_item(base, key, node)

    def set_item(self, base: Any, key: Any, v: Any, node: ast.AST) -> None:
        if isinstance(base, DequeModel) and isinstance(key, int):
            try:
                list.__setitem__(base, key, v)
            except IndexError:
                raise _Raise("IndexError", node) from None
            return
        super().set_item(base, key, v, node)

    def truth_of(self, v: Any, node: ast.AST | None) -> bool:
        return True



# ---------------------------------------------------------------------------------------------
# what a recorded token stream *means*: the reference reading (ordinary precedence, left to right, functions bind
# tightest -- exactly what C05.PREC demands of push_oper) as an expression tree over the operands
class Ambiguous(Exception):
    pass


_REF_PREC = {"+": 1, "-": 1, "*": 2, "/": 2, "max": 3, "min": 3, "consumption": 3, "production": 3}


def stream_tree(tokens: list[Any]) -> Any:
    """('atom', key, label) | ('num', value) | (op, left, right) | (unary op, operand) for a token list of the
    composition API's model (strings = opaque sub-expressions, ('TT.OPER', s), ('TT.COMPONENT_METRIC' | 'TT.CONSTANT', obj))."""
    out: list[Any] = []
    ops: list[str] = []

    def reduce_top() -> None:
        op = ops.pop()
        if op in ("consumption", "production"):
            if not out:
                raise Ambiguous(f"`{op}` without operand")
            out.append((op, out.pop()))
        else:
            if len(out) < 2:
                raise Ambiguous(f"`{op}` lacks an operand")
            r, l = out.pop(), out.pop()
            out.append((op, l, r))

    expect_operand = True
    for t in tokens:
        if isinstance(t, tuple) and len(t) == 2 and t[0] == "TT.OPER":
            o = t[1]
            if o == "(":
                if not expect_operand:
                    raise Ambiguous("`(` directly after an operand")
                ops.append(o)
            elif o == ")":
                if expect_operand:
                    raise Ambiguous("`)` directly after an operator")
                while ops and ops[-1] != "(":
                    reduce_top()
                if not ops:
                    raise Ambiguous("unbalanced `)`")
                ops.pop()
            elif o in _REF_PREC:
                if expect_operand:
                    raise Ambiguous(f"operator `{o}` where an operand is expected")
                while ops and ops[-1] != "(" and _REF_PREC[ops[-1]] >= _REF_PREC[o]:
                    if _REF_PREC[ops[-1]] == 3 and _REF_PREC[o] == 3 and ops[-1] != o:
                        raise Ambiguous(f"`{ops[-1]}` and `{o}` at one parenthesis level")
                    reduce_top()
                ops.append(o)
                if o in ("consumption", "production"):
                    reduce_top()  # postfix: applies to the operand just completed
                else:
                    expect_operand = True
            else:
                raise Ambiguous(f"unknown operator token {o!r}")
            continue
        if not expect_operand:
            raise Ambiguous("two operands in a row")
        expect_operand = False
        if isinstance(t, str):
            out.append(("atom", t, t))
        elif isinstance(t, tuple) and len(t) == 2 and t[0] in ("TT.COMPONENT_METRIC", "TT.CONSTANT"):
            out.append(value_tree(t[1]))
        else:
            raise Ambiguous(f"token {t!r} not understood")
    if expect_operand:
        raise Ambiguous("the stream ends with an operator")
    while ops:
        if ops[-1] == "(":
            raise Ambiguous("unbalanced `(`")
        reduce_top()
    if len(out) != 1:
        raise Ambiguous(f"{len(out)} separate expressions")
    return out[0]


def value_tree(v: Any) -> Any:
    if isinstance(v, Obj) and "expr" in v.fields:
        op, a, b = v.fields["expr"]
        return (op, value_tree(a), value_tree(b))
    if isinstance(v, Obj):
        return ("atom", id(v), v.fields.get("label", v.cls))
    if isinstance(v, (int, float)) and not isinstance(v, bool):
        return ("num", v)
    raise Ambiguous(f"operand {v!r} not understood")


def tree_text(t: Any) -> str:
    if t[0] == "atom":
        return str(t[2])
    if t[0] == "num":
        return repr(t[1])
    if len(t) == 2:
        return f"{t[0]}({tree_text(t[1])})"
    if t[0] in ("max", "min"):
        return f"{t[0]}({tree_text(t[1])}, {tree_text(t[2])})"
    return f"({tree_text(t[1])} {t[0]} {tree_text(t[2])})"


def tree_value(t: Any, env: dict[Any, Any]) -> Any:
    from fractions import Fraction

    if t[0] == "atom":
        return env[t[1]]
    if t[0] == "num":
        return Fraction(t[1])
    if len(t) == 2:
        v = tree_value(t[1], env)
        return max(v, Fraction(0)) if t[0] == "consumption" else max(-v, Fraction(0))
    a, b = tree_value(t[1], env), tree_value(t[2], env)
    if t[0] == "+":
        return a + b
    if t[0] == "-":
        return a - b
    if t[0] == "*":
        return a * b
    if t[0] == "/":
        return a / b
    return max(a, b) if t[0] == "max" else min(a, b)


def same_value(a: Any, b: Any, seed: int = 5) -> tuple[bool, str]:
    """Do two expression trees denote the same function of their operands?  Compared exactly (rationals) at four
    points with distinct non-zero operand values of both signs -- two different rational functions of this size
    do not agree on all of them."""
    import random
    from fractions import Fraction

    if a == b:
        return True, ""
    atoms: dict[Any, str] = {}

    def collect(t: Any) -> None:
        if t[0] == "atom":
            atoms[t[1]] = str(t[2])
        elif t[0] != "num":
            for x in t[1:]:
                collect(x)

    collect(a)
    collect(b)
    rng = random.Random(seed)
    for _ in range(4):
        env = {k: Fraction(rng.randint(2, 97), rng.randint(2, 89)) * rng.choice((1, -1)) for k in sorted(atoms, key=str)}
        try:
            va, vb = tree_value(a, env), tree_value(b, env)
        except ZeroDivisionError:
            continue
        if va != vb:
            point = ", ".join(f"{atoms[k]}={float(v):.3g}" for k, v in env.items())
            return False, f"{point}: {float(va):.6g} instead of {float(vb):.6g}"
    return True, ""


OPERATOR_METHODS = {"+": "__add__", "-": "__sub__", "*": "__mul__", "/": "__truediv__", "max": "max", "min": "min"}


def push_helper(prog: Program) -> FuncInfo | None:
    """The operand-pushing helper of the composition API, bound by role: the private method of the HO-builder base class that
    every public operator (`__add__` ... `min`) calls -- on self or on a clone of it -- with its own operator symbol and its
    operand (`_push` is only the hint).  None when the operators do the pushing themselves."""
    cls = prog.cls(f"{ENGINE}:_BaseHOFormulaBuilder")
    common: set[str] | None = None
    for sym, mname in OPERATOR_METHODS.items():
        m = prog.resolve_method(cls, mname)
        if m is None:
            raise AnalysisError(f"{cls.qual}.{mname} not found")
        operand = m.params[1] if len(m.params) > 1 else None
        mine: set[str] = set()
        for c in ast.walk(m.node):
            if isinstance(c, ast.Call) and isinstance(c.func, ast.Attribute) and c.func.attr.startswith("_") and not c.func.attr.startswith("__") \
                    and prog.resolve_method(cls, c.func.attr) is not None:
                args = list(c.args) + [k.value for k in c.keywords]
                if any(isinstance(a, ast.Constant) and a.value == sym for a in args) and any(isinstance(a, ast.Name) and a.id == operand for a in args):
                    mine.add(c.func.attr)
        common = mine if common is None else common & mine
    if not common:
        return None
    name = "_push" if "_push" in common else sorted(common)[0]
    return prog.resolve_method(cls, name)


def _ho_method(prog: Program, name: str) -> FuncInfo:
    cls = prog.cls(f"{ENGINE}:_BaseHOFormulaBuilder")
    m = prog.resolve_method(cls, name)
    if m is None:
        raise AnalysisError(f"{cls.qual}.{name} not found")
    return m


def apply_public(prog: Program, mod: Any, meth: FuncInfo, state: list[Any], other_factory: Any = None) -> list[tuple[Any, dict[str, Any]]]:
    """Interpret one public method of the composition API (`a + b`, `a.max(b)`, `a.consumption()` ...) on a builder holding
    `state`: [(outcome, run record)] with the builder, its token deque as it was handed in, the operand (and its deque),
    the tokens of the returned builder, and the in-place deque changes made on the way."""
    it = HOInterp(prog, mod).bind_helpers(prog, meth)
    runs: list[dict[str, Any]] = []

    def make_args() -> dict[str, Any]:
        me = Obj("Builder", kinds={"_BaseHOFormulaBuilder"}, _steps=DequeModel(state), _create_method=Obj("create_method"))
        rec: dict[str, Any] = {"me": me, "store": me.fields["_steps"], "before": list(state), "other": None, "ostore": None, "obefore": None,
                               "mark": len(it.mutations)}
        args: dict[str, Any] = {"self": me}
        if other_factory is not None:
            other = other_factory()
            rec["other"] = other
            if isinstance(other, Obj) and isinstance(other.fields.get("_steps"), DequeModel):
                rec["ostore"] = other.fields["_steps"]
                rec["obefore"] = list(other.fields["_steps"])
            if len(meth.params) < 2:
                raise AnalysisError(f"{meth.qual}: no operand parameter")
            args[meth.params[1]] = other
        runs.append(rec)
        return args

    outs = it.explore(meth.node, make_args)
    if len(outs) != len(runs):
        raise AnalysisError(f"{meth.qual}: {len(runs)} abstract runs but {len(outs)} outcomes in the HO-builder interpreter")
    for k, rec in enumerate(runs):
        rec["muts"] = it.mutations[rec["mark"]: runs[k + 1]["mark"] if k + 1 < len(runs) else len(it.mutations)]
        v = outs[k].value if outs[k].kind == "return" else None
        rec["result"] = list(v.fields["_steps"]) if isinstance(v, Obj) and isinstance(v.fields.get("_steps"), (DequeModel, list)) else None
        rec["returned"] = v
    return list(zip(outs, runs))


def value_findings(meth: FuncInfo, rec: dict[str, Any]) -> list[tuple[str, ast.AST | None]]:
    """C05.VALUE on one interpreted call: what it did to the token store of `self` and of the operand."""
    out: list[tuple[str, ast.AST | None]] = []
    for who, obj, store, before in (("self", rec["me"], rec["store"], rec["before"]), ("the operand", rec["other"], rec["ostore"], rec["obefore"])):
        if store is None:
            continue
        now = obj.fields.get("_steps")
        calls = [(m, node, fname) for did, m, node, fname in rec["muts"] if did == id(store)]
        if now is store and list(store) == before and not calls:
            continue
        if calls:
            m, node, fname = calls[0]
            shared = rec["returned"] is not obj and isinstance(rec["returned"], Obj) and rec["returned"].fields.get("_steps") is store
            what = (f"`{u(node)[:70]}` in {fname}() changes the token store of {who} in place"
                    + (" -- the builder it is called on is a shallow copy that still holds the very deque of " + who if shared else "")
                    + (f" ({len(calls)} such calls: " + ", ".join(sorted({f'{x[2]}(): .{x[0]}' for x in calls})) + ")" if len(calls) > 1 else ""))
            out.append((what, node))
        else:
            out.append((f"the token store of {who} is re-bound / holds {_fmt(list(now) if isinstance(now, list) else [])} after the call instead of "
                        f"{_fmt(before)}", None))
    return out


VALUE_TEXT = ("expressions are values: `s = a + b; x = s * 2.0; y = s - c` must leave `s` denoting a + b -- an operator or method of the "
              "composition API that extends the token store of the builder it is applied to (or of its operand) and hands the same object "
              "back makes every later use of that expression see the operator applied by the earlier one (y evaluates ((a + b) * 2.0) - c; "
              "s / (s + c) is not even well-formed).  The store that is extended has to be one made on that path: a clone whose token "
              "deque is a copy (copy.copy(self) alone still shares the deque), or a new builder")


def check_paren(run: Run, prog: Program) -> None:
    push = push_helper(prog) or _ho_method(prog, "__add__")  # (the anchor the chain findings are filed under)
    run.analysed(push.qual)
    mod = prog.module(ENGINE)
    OP = lambda s: ("TT.OPER", s)  # noqa: E731
    rhs_shapes = {
        "engine": (lambda: Obj("Engine", kinds={"FormulaEngine"}, label="e1"), lambda o: [("TT.COMPONENT_METRIC", o)]),
        "quantity": (lambda: Obj("Q", kinds={"Quantity"}, label="q1"), lambda o: [("TT.CONSTANT", o)]),
        "float": (lambda: Obj("Flt", kinds={"float"}, label="c1"), lambda o: [("TT.CONSTANT", o)]),
    }
    builder_tokens = [
        ["Y"],
        [OP("("), "Y1", OP(")"), OP("+"), "Y2"],
        [OP("("), "Y1", OP(")"), OP("-"), OP("("), "Y2", OP(")")],
    ]
    n = 0
    first_level: list[tuple[str, str, list[Any]]] = []  # (operator, operand shape, resulting tokens) of every accepted first push
    for oper in ("+", "-", "*", "/", "max", "min"):
        meth = _ho_method(prog, OPERATOR_METHODS[oper])
        run.analysed(meth.qual)
        scenarios: list[tuple[str, Any, Any]] = []
        for name, (mk_obj, want) in rhs_shapes.items():
            if name == "quantity" and oper in ("*", "/"):
                continue
            if name == "float" and oper in ("+", "-", "max", "min"):
                continue
            scenarios.append((name, mk_obj, want))
        for i, toks in enumerate(builder_tokens):
            scenarios.append((f"builder#{i}", (lambda toks=toks: Obj("Builder", kinds={"_BaseHOFormulaBuilder"}, _steps=DequeModel(toks))),
                              (lambda o, toks=toks: [OP("(")] + toks + [OP(")")])))
        bad_value: list[tuple[str, str, ast.AST | None]] = []
        for name, mk_other, want_rhs in scenarios:
            for out, rec in apply_public(prog, mod, meth, ["X"], mk_other):
                n += 1
                got = rec["result"] if rec["result"] is not None else []
                want = [OP("("), "X", OP(")"), OP(oper)] + want_rhs(rec["other"])
                ok = out.kind == "return" and rec["result"] is not None and got == want
                if out.kind == "return" and rec["result"] is not None:
                    first_level.append((oper, name, got))
                run.check(ok, "C05.PAREN", meth.qual, f"{meth.name}({name})",
                          (f"the returned builder holds {_fmt(got)} instead of {_fmt(want)}: the left operand "
                           "and a builder right operand must each be enclosed in their own parentheses, "
                           "otherwise the flattened token stream regroups under operator precedence") if out.kind == "return" and rec["result"] is not None
                          else f"`{meth.name}` with a {name} operand {out.kind}s {out.value!r} instead of a builder holding {_fmt(want)}",
                          node=meth.node, file=meth.file, instance=f"_push('{oper}', {name})")
                for what, node in value_findings(meth, rec):
                    bad_value.append((name, what, node))
        run.check(not bad_value, "C05.VALUE", meth.qual, f"`{meth.name}` leaves its operands as they are",
                  (f"{bad_value[0][1]} (operand shape {bad_value[0][0]}"
                   + (f"; {len(bad_value)} findings over the operand shapes" if len(bad_value) > 1 else "") + f"): {VALUE_TEXT}") if bad_value else "",
                  node=(bad_value[0][2] if bad_value and bad_value[0][2] is not None else meth.node), file=meth.file,
                  instance=f"{meth.qual}: neither self's nor the operand's token store changes ({len(scenarios)} operand shapes)")
    n += _check_chains(run, prog, push, mod, first_level)
    for fname in ("consumption", "production"):
        fn = _ho_method(prog, fname)
        run.analysed(fn.qual)
        bad_value = []
        for out, rec in apply_public(prog, mod, fn, ["X"]):
            n += 1
            got = rec["result"] if rec["result"] is not None else []
            want = [OP("("), "X", OP(")"), OP(fname)]
            run.check(out.kind == "return" and rec["result"] is not None and got == want, "C05.PAREN", fn.qual,
                      f"{fname}()", f"the returned builder holds {_fmt(got)} instead of {_fmt(want)}",
                      node=fn.node, file=fn.file)
            for what, node in value_findings(fn, rec):
                bad_value.append(("-", what, node))
        run.check(not bad_value, "C05.VALUE", fn.qual, f"`{fname}` leaves the builder it is applied to as it is",
                  f"{bad_value[0][1]}: {VALUE_TEXT}" if bad_value else "",
                  node=(bad_value[0][2] if bad_value and bad_value[0][2] is not None else fn.node), file=fn.file,
                  instance=f"{fn.qual}: self's token store does not change")
    if n < 30:
        raise AnalysisError(f"C05.PAREN: only {n} builder scenarios interpreted")
    # the engine-level operators start a builder with the engine as left operand
    eng = prog.cls(f"{ENGINE}:FormulaEngine")
    for meth in ("__add__", "__sub__", "__mul__", "__truediv__", "max", "min", "consumption", "production"):
        m = prog.resolve_method(eng, meth)
        if m is None:
            raise AnalysisError(f"FormulaEngine.{meth} not found")
        run.analysed(m.qual)
        rets = [r for r in body_walk(m.node) if isinstance(r, ast.Return)]
        txt = u(rets[0].value).replace(" ", "") if rets else ""
        arg = f"({m.params[1]})" if len(m.params) > 1 else "()"
        want_name = {"__add__": "+", "__sub__": "-", "__mul__": "*", "__truediv__": "/"}.get(meth)
        ok = txt.startswith("HigherOrderFormulaBuilder(self,self._create_method)") and (
            txt.endswith(f".{meth}{arg}") if want_name is None else
            txt.endswith(f"{ {'+': '+', '-': '-', '*': '*', '/': '/'}[want_name] }{m.params[1]}"))
        run.check(ok, "C05.PAREN", m.qual, txt or meth,
                  f"FormulaEngine.{meth} does not build `HigherOrderFormulaBuilder(self) {meth} other`",
                  node=m.node, file=m.file)



def _check_chains(run: Run, prog: Program, push: FuncInfo, mod: Any, first_level: list[tuple[str, str, list[Any]]]) -> int:
    """C05.PAREN beyond the first operator: `e op1 a op2 b` built through the API means `(e op1 a) op2 b`.  _push is
    interpreted on every builder state a first push leaves behind (every operator x operand shape), for every second
    operator x operand shape, and -- for operands that are plain constants -- a third time; whatever tokens it leaves
    (parenthesised, or rewritten / folded in any way) are read with the reference grammar and must denote
    `(<what the builder held>) op <operand>` as a function of the operands.  A rewrite that is only valid for some
    operators (folding a scalar into the previous constant re-associates `/` and `-`), drops an operand or regroups
    is reported with the operand values that show it."""
    OP = lambda s: ("TT.OPER", s)  # noqa: E731
    n = 0

    def operand(shape: str, tag: str) -> tuple[Any, list[Any]]:
        """(the `other` argument, the tokens that denote it)"""
        if shape == "engine":
            o = Obj("Engine", kinds={"FormulaEngine"}, label=f"e{tag}")
            return o, [("TT.COMPONENT_METRIC", o)]
        if shape in ("quantity", "float"):
            o = Obj("Q" if shape == "quantity" else "Flt", kinds={"Quantity" if shape == "quantity" else "float"}, label=f"{'q' if shape == 'quantity' else 'c'}{tag}")
            return o, [("TT.CONSTANT", o)]
        toks = {"builder#0": [f"Y{tag}"], "builder#1": [OP("("), f"Y{tag}a", OP(")"), OP("+"), f"Y{tag}b"],
                "builder#2": [OP("("), f"Y{tag}a", OP(")"), OP("-"), OP("("), f"Y{tag}b", OP(")")]}[shape]
        return Obj("Builder", kinds={"_BaseHOFormulaBuilder"}, _steps=DequeModel(toks)), toks

    def legal(oper: str, shape: str) -> bool:
        return not (shape == "quantity" and oper in ("*", "/")) and not (shape == "float" and oper in ("+", "-", "max", "min"))

    def one_push(state: list[Any], oper: str, shape: str, tag: str) -> tuple[list[Any] | None, Any, str]:
        """(tokens after the push | None when it does not return, expected tree, description of a failure)"""
        try:
            held = stream_tree(state)
        except Ambiguous:
            return None, None, "skip"  # the first push already left a malformed stream: reported there
        made: list[tuple[Any, list[Any]]] = []

        def mk_other() -> Any:
            made.append(operand(shape, tag))
            return made[-1][0]

        meth = _ho_method(prog, OPERATOR_METHODS[oper])
        res = apply_public(prog, mod, meth, state, mk_other)
        want = (oper, held, stream_tree(made[0][1])) if made else None
        if len(res) != 1:
            return None, want, f"{len(res)} abstract paths"
        out0, rec = res[0]
        want = (oper, held, stream_tree(made[-1][1]))
        if out0.kind != "return" or rec["result"] is None:
            return None, want, f"the push {out0.kind}s {out0.value if out0.kind == 'raise' else 'something other than a builder'}"
        got = rec["result"]
        try:
            tree = stream_tree(got)
        except Ambiguous as exc:
            return got, want, f"the tokens {_fmt(got)} are not a well-formed expression ({exc})"
        same, point = same_value(tree, want)
        if not same:
            return got, want, (f"the tokens {_fmt(got)} denote {tree_text(tree)}, not {tree_text(want)} (at {point})")
        return got, want, ""

    shapes = ("engine", "quantity", "float", "builder#0", "builder#1", "builder#2")
    second: dict[tuple[str, str], list[Any]] = {}
    for op1 in ("+", "-", "*", "/", "max", "min"):
        for op2 in ("+", "-", "*", "/", "max", "min"):
            bad = ""
            cases = 0
            for o1, shape1, state in first_level:
                if o1 != op1:
                    continue
                for shape2 in shapes:
                    if not legal(op2, shape2):
                        continue
                    got, _want, why = one_push(state, op2, shape2, "2")
                    if why == "skip":
                        continue
                    cases += 1
                    if why and not bad:
                        bad = f"builder holding {_fmt(state)} (`e {op1} <{shape1}>`), then `{op2} <{shape2}>`: {why}"
                    if got is not None and not why and shape1 in ("quantity", "float") and shape2 in ("quantity", "float"):
                        second[(op1, op2)] = got
            n += 1
            if not cases:
                continue
            run.check(not bad, "C05.PAREN", push.qual, f"_push('{op1}', a) then _push('{op2}', b) means (e {op1} a) {op2} b",
                      f"{bad}: operators applied through the composition API are left-associative whatever came before -- a "
                      "shortcut that merges the new operand into what was recorded (constant folding, dropping a parenthesis level) "
                      "is only an identity for `*` and `+` chains; for `/` and `-` it re-associates to the right "
                      "(x / c / d becomes x / (c / d))", node=push.node, file=push.file,
                      instance=f"_push('{op1}', ..) then _push('{op2}', ..): {cases} operand shapes")
    # a third constant in a row: the state after two pushes may already be a rewritten one
    bad3, cases3 = "", 0
    for (op1, op2), state in sorted(second.items()):
        for op3 in ("+", "-", "*", "/", "max", "min"):
            shape3 = "float" if op3 in ("*", "/") else "quantity"
            _got, _want, why = one_push(state, op3, shape3, "3")
            if why == "skip":
                continue
            cases3 += 1
            if why and not bad3:
                bad3 = f"builder holding {_fmt(state)} (`e {op1} k1 {op2} k2`), then `{op3} k3`: {why}"
    if cases3:
        n += 1
        run.check(not bad3, "C05.PAREN", push.qual, "three constants in a row: ((e op1 k1) op2 k2) op3 k3",
                  f"{bad3}: a rewrite of the recorded tokens must keep `((e op1 k1) op2 k2) op3 k3`", node=push.node, file=push.file,
                  instance=f"constant chains of length three: {cases3} operator triples")
    return n


def _fmt(tokens: list[Any]) -> str:
    out = []
    for t in tokens:
        if isinstance(t, tuple):
            if isinstance(t[1], str):
                out.append(str(t[1]))
            elif isinstance(t[1], Obj) and ("label" in t[1].fields or "expr" in t[1].fields):
                try:
                    out.append(tree_text(value_tree(t[1])))
                except Ambiguous:
                    out.append(t[0].split(".")[-1].lower())
            else:
                out.append(t[0].split(".")[-1].lower())
        else:
            out.append(str(t))
    return "[" + " ".join(out) + "]"


# ---------------------------------------------------------------------------------------------
def check_eval(run: Run, prog: Program) -> None:
    raw = prog.func(f"{EVAL}:FormulaEvaluator.apply")
    run.analysed(raw.qual)
    fn = inline_all(prog, raw, stop={first_run_sync_name(prog)})  # one evaluation as a unit, wherever its parts live
    fl = Flow(prog, fn)
    cfg = fl.cfg
    normal = lambda a, b, lab: not lab.startswith("exc:")  # noqa: E731
    # --- the loop over self._steps (exactly that list, in its own order) applying every step to one stack
    loops = [n for n in cfg.nodes if n.kind == "for" and n.id in fl.live and not isinstance(n.ast, ast.AsyncFor)
             and all(o.kind == "expr" and u(o.node) == "self._steps" for o in fl.origin(n.ast.iter, n.id))]  # type: ignore[union-attr]
    others = [c for _n, c in fl.calls(lambda c: isinstance(c.func, ast.Attribute) and c.func.attr == "apply")]
    ok = len(loops) == 1
    stack_init: ast.AST | None = None
    if ok:
        h = loops[0]
        first = [m for m, lab in cfg.succ[h.id] if lab == "iter"]
        region = cfg.reachable(first, avoid=[h.id], edge_ok=normal)
        calls = [(nid, c) for nid, c in fl.calls(lambda c: isinstance(c.func, ast.Attribute) and c.func.attr == "apply")
                 if nid in region and all(o.kind == "iter" and o.nid == h.id and o.idx is None for o in fl.origin(c.func.value, nid))]  # type: ignore[union-attr]
        ok = len(calls) == 1 and len(others) == 1 and len(calls[0][1].args) == 1 and not calls[0][1].keywords \
            and isinstance(h.ast.target, ast.Name)  # type: ignore[union-attr]
        if ok:
            cn, call = calls[0]
            # unconditional, and the loop is only left when the list is exhausted (or by an exception)
            ok = (first[0] == cn or cfg.path(first[0], [h.id], avoid=[cn], edge_ok=normal) is None) \
                and not any(isinstance(x, (ast.Break, ast.Return)) for st in h.ast.body for x in ast.walk(st))  # type: ignore[union-attr]
            o = fl.origin1(call.args[0], cn)
            if ok and o is not None and o.kind == "expr":
                stack_init = o.node
            # nothing else touches the stack while the steps run
            ok = ok and stack_init is not None and not [
                x for n in region for part in own_parts(cfg.nodes[n]) for x in ast.walk(part)
                if isinstance(x, ast.Name) and x is not call.args[0] and isinstance(x.ctx, ast.Load)
                and fl.is_node(x, stack_init, n)]
    run.check(ok, "C05.EVAL", raw.qual, "for step in self._steps: step.apply(eval_stack)",
              "the evaluator does not apply every step, in list order, to the same stack",
              node=raw.node, file=raw.file)
    ok = stack_init is not None and (
        (isinstance(stack_init, ast.List) and not stack_init.elts)
        or (isinstance(stack_init, ast.Call) and u(stack_init.func) == "list" and not stack_init.args and not stack_init.keywords))
    if ok:
        assert stack_init is not None
        made = fl.node_of(stack_init)
        # created in this call, before the loop, and not filled by anything but the steps
        ok = cfg.path(cfg.entry, [loops[0].id], avoid=[made]) is None and not [
            c for nid, c in fl.calls(lambda c: isinstance(c.func, ast.Attribute) and c.func.attr in (
                "append", "extend", "insert", "push", "appendleft"))
            if fl.is_node(c.func.value, stack_init, nid)]  # type: ignore[union-attr]
    run.check(ok, "C05.EVAL", raw.qual, "eval_stack = [] per evaluation",
              "the evaluation stack is not fresh for every evaluation", node=raw.node, file=raw.file)
    # --- exactly one residual value: with 0, 2 or 3 values left the evaluation cannot complete normally
    ok = stack_init is not None and len(loops) == 1
    wit = None
    if ok:
        assert stack_init is not None
        done = [m for m, lab in cfg.succ[loops[0].id] if lab == "done"]
        post = cfg.reachable(done, edge_ok=normal)

        def touches(c: ast.Call, nid: int) -> bool:
            if u(c.func) == "len":
                return False
            if isinstance(c.func, ast.Attribute) and isinstance(c.func.value, ast.Name) and fl.is_node(c.func.value, stack_init, nid):
                return True
            return any(isinstance(a, ast.Name) and fl.is_node(a, stack_init, nid) for a in list(c.args) + [k.value for k in c.keywords])

        mutators = [nid for nid, c in fl.calls(lambda c: True) if nid in post and touches(c, nid)]
        clean = cfg.reachable(done, avoid=mutators, edge_ok=normal)

        def size_atom(n: int) -> Any:
            def val(e: ast.AST, nid: int, fuel: int = 4) -> int | None:
                if isinstance(e, ast.Constant) and isinstance(e.value, int) and not isinstance(e.value, bool):
                    return e.value
                if isinstance(e, ast.Call) and u(e.func) == "len" and len(e.args) == 1 and nid in clean \
                        and fl.is_node(e.args[0], stack_init, nid):
                    return n
                if isinstance(e, ast.Name) and fuel > 0:
                    o = fl.origin1(e, nid)
                    if o is not None and o.kind == "expr" and o.node is not None and o.nid is not None and not isinstance(o.node, ast.Name):
                        return val(o.node, o.nid, fuel - 1)
                return None

            def atom(e: ast.AST, nid: int) -> bool | None:
                if isinstance(e, ast.Compare) and len(e.ops) == 1:
                    a, b = val(e.left, nid), val(e.comparators[0], nid)
                    if a is not None and b is not None:
                        return cmp_eval(e.ops[0], a, b)
                    return None
                if isinstance(e, ast.Name) and nid in clean and fl.is_node(e, stack_init, nid):
                    return n > 0
                v = val(e, nid)
                return None if v is None or isinstance(e, ast.Constant) else v != 0
            return atom

        for n in (0, 2, 3):
            for d in done:
                wit = wit or (cfg.path(d, [cfg.exit], edge_ok=pruned(cfg, lifted(fl, size_atom(n)))) if d != cfg.exit else [(d, "")])
        ok = wit is None and any(cfg.path(d, [cfg.exit], edge_ok=pruned(cfg, lifted(fl, size_atom(1)))) is not None for d in done)
    run.check(ok, "C05.EVAL", raw.qual, "exactly one residual value required",
              "a malformed evaluation (more or fewer than one value left) is not rejected", node=raw.node, file=raw.file,
              path=cfg.describe_path(wit))
    fin = prog.func(f"{ENGINE}:FormulaBuilder.finalize")
    run.analysed(fin.qual)
    nfl = Flow(prog, spliced(prog, fin))
    whiles = [n for n in nfl.cfg.nodes if n.kind == "while" and n.id in nfl.live
              and canon(n.ast.test) in (("truthy", "self._build_stack"), ("not", ("==", frozenset({"len(self._build_stack)", "0"}))))]  # type: ignore[union-attr]
    ok = len(whiles) == 1
    if ok:
        w = whiles[0]
        reg = nfl.cfg.reachable([m for m, lab in nfl.cfg.succ[w.id] if lab == "true"], avoid=[w.id])
        pops = [(n, c) for n, c in nfl.calls(lambda c: method_call(c, "self._build_stack", "pop")) if n in reg]
        apps = [(n, c) for n, c in nfl.calls(lambda c: method_call(c, "self._steps", "append")) if n in reg]
        others = [c for n, c in nfl.calls(lambda c: isinstance(c.func, ast.Attribute) and u(c.func.value) in (
            "self._build_stack", "self._steps")) if not any(c is x for _n, x in pops + apps)]
        ok = len(pops) == 1 and len(apps) == 1 and not pops[0][1].args and not pops[0][1].keywords and not others \
            and len(apps[0][1].args) == 1 and nfl.is_node(apps[0][1].args[0], pops[0][1], apps[0][0]) \
            and not any(isinstance(x, (ast.Break, ast.Continue, ast.Return)) for st in w.ast.body for x in ast.walk(st)) \
            and nfl.cfg.path(nfl.cfg.entry, [nfl.cfg.exit], avoid=[w.id]) is None  # type: ignore[union-attr]
        rets = nfl.returns()
        for r in rets:
            v = nfl.cfg.nodes[r].ast.value  # type: ignore[union-attr]
            o = nfl.origin1(v, r) if v is not None else None
            t = o.node if o is not None and o.kind == "expr" else None
            ok = ok and isinstance(t, ast.Tuple) and [u(x) for x in t.elts] == ["self._steps", "self._metric_fetchers"]
        ok = ok and bool(rets)
    if not whiles:
        # bulk form: the output is extended with the operator stack reversed (top first), nothing else touches either
        ext = nfl.calls(lambda c: method_call(c, "self._steps", "extend") and len(c.args) == 1 and not c.keywords)
        touch = [c for _n, c in nfl.calls(lambda c: isinstance(c.func, ast.Attribute) and u(c.func.value) in (
            "self._build_stack", "self._steps"))]
        ok = len(ext) == 1
        if ok:
            en, ec = ext[0]
            o = nfl.origin1(ec.args[0], en)
            a = o.node if o is not None and o.kind == "expr" else None
            rev = (isinstance(a, ast.Call) and u(a.func) == "reversed" and len(a.args) == 1 and u(a.args[0]) == "self._build_stack") \
                or (isinstance(a, ast.Subscript) and u(a.value) == "self._build_stack" and u(a.slice) == "::-1")
            rest = [c for c in touch if c is not ec]
            ok = bool(rev) and all(method_call(c, "self._build_stack", "clear") and nfl.cfg.path(
                nfl.node_of(c), [en], include_src=False) is None for c in rest) \
                and nfl.cfg.path(nfl.cfg.entry, [nfl.cfg.exit], avoid=[en], edge_ok=lambda a_, b_, lab: not lab.startswith("exc:")) is None
            rets = nfl.returns()
            for r in rets:
                v = nfl.cfg.nodes[r].ast.value  # type: ignore[union-attr]
                o2 = nfl.origin1(v, r) if v is not None else None
                t = o2.node if o2 is not None and o2.kind == "expr" else None
                ok = ok and isinstance(t, ast.Tuple) and [u(x) for x in t.elts] == ["self._steps", "self._metric_fetchers"]
            ok = ok and bool(rets)
    run.check(ok, "C05.EVAL", fin.qual, "drain the operator stack LIFO",
              "finalize() does not move the remaining operators to the output in LIFO order",
              node=fin.node, file=fin.file)
    pm = prog.func(f"{ENGINE}:FormulaBuilder.push_metric")
    run.analysed(pm.qual)
    pfl = Flow(prog, spliced(prog, pm))
    pcfg = pfl.cfg
    TABLE = "self._metric_fetchers"

    def is_name(e: ast.AST, nid: int | None) -> bool:
        o = pfl.origin(e, nid)
        return bool(o) and all(q.kind == "param" and q.name == pm.params[1] for q in o)

    def lookup(e: ast.AST | None, nid: int | None) -> str | None:
        """'get' / 'index' / 'setdefault' when `e` reads the fetcher table under the metric's name."""
        if isinstance(e, ast.Call) and isinstance(e.func, ast.Attribute) and u(e.func.value) == TABLE and e.args and is_name(e.args[0], nid):
            if e.func.attr == "get" and len(e.args) == 1 and not e.keywords:
                return "get"
            if e.func.attr == "setdefault" and len(e.args) == 2:
                return "setdefault"
        if isinstance(e, ast.Subscript) and isinstance(e.ctx, ast.Load) and u(e.value) == TABLE and is_name(e.slice, nid):
            return "index"
        return None

    def known(present: bool) -> Any:
        def atom(e: ast.AST, nid: int) -> bool | None:
            if isinstance(e, ast.Compare) and len(e.ops) == 1 and isinstance(e.ops[0], (ast.In, ast.NotIn)) \
                    and u(e.comparators[0]) in (TABLE, TABLE + ".keys()") and is_name(e.left, nid):
                return present if isinstance(e.ops[0], ast.In) else not present
            ta = truth_atom(e)
            if ta is not None:
                o = pfl.origin(ta[0], nid, through_helpers=False)
                if o and all(q.kind == "expr" and lookup(q.node, q.nid) == "get" for q in o):
                    return (not present) if ta[1] else present
            return None
        return lifted(pfl, atom)

    normal_e = lambda a, b, lab: not lab.startswith("exc:")  # noqa: E731
    apps = pfl.calls(lambda c: method_call(c, "self._steps", "append"))
    stores = [n.id for n in pcfg.nodes if n.id in pfl.live and any(
        isinstance(t, ast.Subscript) and u(t.value) == TABLE for t in pfl._writes(n.id))]
    others = [c for _n, c in pfl.calls(lambda c: isinstance(c.func, ast.Attribute) and u(c.func.value) == TABLE
                                        and c.func.attr not in ("get", "setdefault", "keys"))]
    ok = len(apps) == 1 and len(apps[0][1].args) == 1 and not others \
        and pcfg.path(pcfg.entry, [pcfg.exit], avoid=[apps[0][0]], edge_ok=normal_e) is None
    if ok:
        an, ac = apps[0]
        # (a) the name is already known: what is appended is the fetcher the table holds; the table is not written
        e_known = pruned(pcfg, known(True), normal_only=False)
        leaves = pfl.origin(ac.args[0], an, scenario=lambda _f: e_known)
        ok = bool(leaves) and all(q.kind == "expr" and lookup(q.node, q.nid) is not None for q in leaves) \
            and pcfg.path(pcfg.entry, stores, edge_ok=e_known) is None
        # (b) first use of the name: a new MetricFetcher is made, stored under the name, and appended
        e_new = pruned(pcfg, known(False), normal_only=False)
        leaves = pfl.origin(ac.args[0], an, scenario=lambda _f: e_new)
        for q in leaves:
            kind = lookup(q.node, q.nid) if q.kind == "expr" else None
            if kind == "setdefault":
                d = pfl.origin1(q.node.args[1], q.nid)  # type: ignore[union-attr]
                ok = ok and d is not None and d.kind == "expr" and isinstance(d.node, ast.Call) and u(d.node.func).split("[")[0] == "MetricFetcher"
            elif q.kind == "expr" and isinstance(q.node, ast.Call) and u(q.node.func).split("[")[0] == "MetricFetcher":
                mine = [s_ for s_ in stores if isinstance(pcfg.nodes[s_].ast, ast.Assign)
                        and is_name(pcfg.nodes[s_].ast.targets[0].slice, s_)  # type: ignore[union-attr]
                        and pfl.is_node(pcfg.nodes[s_].ast.value, q.node, s_)]  # type: ignore[union-attr]
                ok = ok and len(mine) == 1 and len(stores) == 1 \
                    and pcfg.path(pcfg.entry, [an], avoid=mine, edge_ok=e_new) is None
            elif kind == "index" and len(stores) == 1 and isinstance(pcfg.nodes[stores[0]].ast, ast.Assign):
                # read back after `table[name] = MetricFetcher(...)`
                st_ = pcfg.nodes[stores[0]].ast
                d = pfl.origin1(st_.value, stores[0])  # type: ignore[union-attr]
                ok = ok and is_name(st_.targets[0].slice, stores[0]) and d is not None and d.kind == "expr" \
                    and isinstance(d.node, ast.Call) and u(d.node.func).split("[")[0] == "MetricFetcher" \
                    and pcfg.path(pcfg.entry, [an], avoid=stores, edge_ok=e_new) is None  # type: ignore[union-attr]
            else:
                ok = False
        ok = ok and bool(leaves)
    run.check(ok, "C05.EVAL", pm.qual, "fetcher = fetchers.setdefault(name, ...); steps.append(fetcher)",
              "a metric used twice does not share one fetcher (its stream would be read twice per round)",
              node=pm.node, file=pm.file)
    pc = prog.func(f"{ENGINE}:FormulaBuilder.push_constant")
    run.analysed(pc.qual)
    cfl = Flow(prog, spliced(prog, pc))
    apps = cfl.calls(lambda c: isinstance(c.func, ast.Attribute) and u(c.func.value) in ("self._steps", "self._build_stack"))
    ok = len(apps) == 1 and method_call(apps[0][1], "self._steps", "append") and len(apps[0][1].args) == 1 \
        and cfl.cfg.path(cfl.cfg.entry, [cfl.cfg.exit], avoid=[apps[0][0]], edge_ok=lambda a, b, lab: not lab.startswith("exc:")) is None
    if ok:
        o = cfl.origin1(apps[0][1].args[0], apps[0][0])
        c = o.node if o is not None and o.kind == "expr" else None
        ok = isinstance(c, ast.Call) and u(c.func) == "ConstantValue" and len(c.args) + len(c.keywords) == 1
        if ok:
            assert isinstance(c, ast.Call) and o is not None
            arg = positional(c, ["value"]).get("value")
            ok = arg is not None and all(q.kind == "param" and q.name == pc.params[1] for q in cfl.origin(arg, o.nid))
    run.check(ok, "C05.EVAL", pc.qual, "constants go straight to the output",
              "a constant operand is not emitted in place", node=pc.node, file=pc.file)


def check_model(run: Run, prog: Program, seed: int, max_ops: int = 4) -> None:
    """Thorough: exhaustive check of the *extracted* shift/reduce model.

    The decision function obtained by partial evaluation of push_oper (nothing from the repository is
    executed) drives an abstract shunting-yard over every well-formed token string with up to
    `max_ops` binary operators over + - * / and every parenthesisation; the resulting post-fix
    program is evaluated over the rationals at three points and compared with Python's own parse of
    the same infix string.  This discharges the lemma "operator-precedence parsing is determined
    by the pairwise relation" for the extracted matrix instead of assuming it."""
    import random
    from fractions import Fraction

    fn = spliced(prog, prog.func(f"{ENGINE}:FormulaBuilder.push_oper"))
    table = precedence_table(prog)
    cache: dict[tuple[str, str], str] = {}

    def dec(prev: str, new: str) -> str:
        if (prev, new) not in cache:
            cache[(prev, new)] = decision(fn, table, prev, new, prog)
        return cache[(prev, new)]

    def compile_tokens(tokens: list[str]) -> list[str]:
        out: list[str] = []
        stack: list[str] = []
        for t in tokens:
            if t not in "+-*/()":
                out.append(t)
                continue
            if t != "(":
                while stack:
                    d = dec(stack[-1], t)
                    if d == "shift":
                        break
                    if d == "discard":
                        stack.pop()
                        break
                    if d == "reduce-and-stop":
                        out.append(stack.pop())
                        break
                    out.append(stack.pop())
            if t != ")":
                stack.append(t)
        while stack:
            out.append(stack.pop())
        return out

    def eval_postfix(prog_: list[str], env: dict[str, Fraction]) -> Fraction | None:
        st: list[Fraction] = []
        for t in prog_:
            if t in "+-*/":
                if len(st) < 2:
                    return None
                b, a = st.pop(), st.pop()
                if t == "/" and b == 0:
                    return None
                st.append({"+": a + b, "-": a - b, "*": a * b, "/": a / b if b != 0 else Fraction(0)}[t])
            elif t in "()":
                return None
            else:
                st.append(env[t])
        return st[0] if len(st) == 1 else None

    def exprs(n_ops: int) -> list[list[str]]:
        """All infix token lists with n_ops operators, operands a,b,c,..., every parenthesisation."""
        names = "abcdef"[: n_ops + 1]

        def build(lo: int, hi: int) -> list[list[str]]:
            if lo == hi:
                return [[names[lo]]]
            res = []
            for k in range(lo, hi):
                for op in "+-*/":
                    for l in build(lo, k):
                        for r in build(k + 1, hi):
                            for lp in ((False, True) if len(l) > 1 else (False,)):
                                for rp in ((False, True) if len(r) > 1 else (False,)):
                                    res.append((["("] + l + [")"] if lp else l) + [op] + (["("] + r + [")"] if rp else r))
            return res

        seen = set()
        out = []
        for e in build(0, n_ops):
            key = " ".join(e)
            if key not in seen:
                seen.add(key)
                out.append(e)
        return out

    rng = random.Random(seed)
    points = [{n: Fraction(rng.randint(2, 97), rng.randint(2, 89)) * rng.choice((1, -1)) for n in "abcdef"} for _ in range(3)]
    total = bad = 0
    for n_ops in range(1, max_ops + 1):
        for toks in exprs(n_ops):
            total += 1
            post = compile_tokens(toks)
            infix = " ".join(toks)
            ok = True
            for env in points:
                try:
                    want = eval(compile(ast.parse(infix, mode="eval"), "<expr>", "eval"), {"__builtins__": {}}, dict(env))  # noqa: S307
                except ZeroDivisionError:
                    continue
                got = eval_postfix(post, env)
                if got is None or got != want:
                    ok = False
            if not ok:
                bad += 1
                if bad <= 3:
                    run.violation("C05.PREC", fn.qual, f"model: `{infix}` compiles to `{' '.join(post)}`",
                                  f"under the shift/reduce decisions extracted from push_oper the string `{infix}` "
                                  f"compiles to the post-fix program `{' '.join(post)}`, which does not evaluate to the "
                                  "value of the expression under ordinary precedence and left-to-right associativity",
                                  node=fn.node, file=fn.file)
    if not bad:
        run.ok("C05.PREC", f"extracted shunting-yard model agrees with ordinary arithmetic on all {total} token strings "
               f"with <= {max_ops} operators (every parenthesisation)")
    run.extra_cov["model_expressions"] = total
    run.sample({"model_check": {"expressions": total, "disagreements": bad, "max_operators": max_ops}})


def check_tok(run: Run, prog: Program) -> None:
    """C05.TOK: the character iterator under the tokenizer reads `self.<S>[self.<P>]` only while `<P>` is
    below a bound, and that bound is the length of the very string being indexed (`len` of the value
    stored in `<S>`): a bound taken from any other string cuts the formula short or overruns it."""
    cls = prog.cls(f"{TOK}:StringIter")
    init = prog.resolve_method(cls, "__init__")
    if init is None:
        raise AnalysisError(f"{cls.qual}.__init__ not found")
    ifl = Flow(prog, init)

    def stored(attr: str) -> list[tuple[int, ast.AST]]:
        out = []
        for n in ifl.cfg.nodes:
            a = n.ast
            if n.id in ifl.live and n.kind == "stmt" and isinstance(a, (ast.Assign, ast.AnnAssign)) and a.value is not None:
                tgts = a.targets if isinstance(a, ast.Assign) else [a.target]
                if any(isinstance(t, ast.Attribute) and t.attr == attr and u(t.value) == "self" for t in tgts):
                    out.append((n.id, a.value))
        return out

    def self_attr(e: ast.AST) -> str | None:
        return e.attr if isinstance(e, ast.Attribute) and u(e.value) == "self" else None

    reads = 0
    run.analysed(init.qual)
    p_attrs: set[str] = set()
    for m in cls.methods.values():
        fl = Flow(prog, m)
        for n in fl.cfg.nodes:
            if n.ast is None or n.id not in fl.live:
                continue
            for part in own_parts(n):
                for x in ast.walk(part):
                    if not (isinstance(x, ast.Subscript) and isinstance(x.ctx, ast.Load) and self_attr(x.value)):
                        continue
                    idx: ast.AST | None = x.slice
                    if isinstance(idx, ast.Name):  # the position read into a local first
                        o = fl.origin1(idx, n.id)
                        idx = o.node if o is not None and o.kind == "expr" else None
                    if idx is None or not self_attr(idx):
                        continue
                    s_attr, p_attr = self_attr(x.value), self_attr(idx)
                    reads += 1
                    run.analysed(m.qual)
                    p_attrs.add(p_attr or "")
                    # the consuming read (__next__) moves on by exactly one character on its way out; peek does not move
                    moves = [k.id for k in fl.cfg.nodes if k.id in fl.live and any(
                        isinstance(t, ast.Attribute) and t.attr == p_attr and u(t.value) == "self" for t in fl._writes(k.id))]
                    by_one = all(isinstance(fl.cfg.nodes[k].ast, ast.AugAssign) and isinstance(fl.cfg.nodes[k].ast.op, ast.Add)  # type: ignore[union-attr]
                                 and isinstance(fl.cfg.nodes[k].ast.value, ast.Constant) and fl.cfg.nodes[k].ast.value.value == 1  # type: ignore[union-attr]
                                 for k in moves)
                    nrm = lambda a_, b_, lab: not lab.startswith("exc:")  # noqa: E731
                    if m.name == "__next__":
                        adv_ok = bool(moves) and by_one and fl.cfg.path(n.id, [fl.cfg.exit], avoid=moves, edge_ok=nrm) is None \
                            and not any(fl.cfg.path(k, moves, include_src=False) is not None for k in moves) \
                            and fl.cfg.path(fl.cfg.entry, moves, avoid=[n.id]) is None
                    else:
                        adv_ok = not moves
                    run.check(adv_ok, "C05.TOK", m.qual, f"self.{p_attr} advances by one per consumed character",
                              "the position does not advance by exactly one for each character handed out (characters are "
                              "repeated, skipped or read backwards)", node=x, file=m.file,
                              instance=f"{m.qual}: advance after read #{reads}")
                    bounds: set[str] = set()

                    def atom_for(pos: int, lim: int) -> Any:
                        def val(e: ast.AST, nid: int) -> int | None:
                            if self_attr(e) == p_attr:
                                return pos
                            if isinstance(e, ast.Call) and u(e.func) == "len" and len(e.args) == 1 and self_attr(e.args[0]) == s_attr:
                                bounds.add(f"len(self.{s_attr})")
                                return lim
                            a = self_attr(e)
                            if a is not None and a not in (p_attr, s_attr):
                                bounds.add(a)
                                return lim
                            if isinstance(e, ast.Name):
                                o = fl.origin1(e, nid)
                                if o is not None and o.kind == "expr" and o.node is not None and o.nid is not None and not isinstance(o.node, ast.Name):
                                    return val(o.node, o.nid)
                            return None

                        def atom(e: ast.AST, nid: int) -> bool | None:
                            if isinstance(e, ast.Compare) and len(e.ops) == 1:
                                a, b = val(e.left, nid), val(e.comparators[0], nid)
                                if a is not None and b is not None:
                                    return cmp_eval(e.ops[0], a, b)
                            return None
                        return lifted(fl, atom)

                    guards = expr_guards(fl, x)

                    def evaluated(pos: int, lim: int, nid: int = n.id, guards: Any = guards) -> bool:
                        """Can the read happen with the position at `pos` and the bound at `lim`?  (statement reachable
                        and not cut off by a conditional expression / short-circuit around the read)"""
                        at = atom_for(pos, lim)
                        if fl.cfg.path(fl.cfg.entry, [nid], edge_ok=pruned(fl.cfg, at, normal_only=False)) is None:
                            return False
                        return all(tri(t, lambda e: at(e, nid)) in (need, None) for t, need in guards)

                    inside = evaluated(4, 5)
                    at_end = not evaluated(5, 5)
                    beyond = not evaluated(6, 5)
                    # every attribute used as the bound holds len(<the string stored in S>)
                    same = True
                    s_vals = stored(s_attr or "")
                    for b in sorted(bounds):
                        if b.startswith("len("):
                            continue
                        b_vals = stored(b)
                        same = same and len(b_vals) == 1 and len(s_vals) == 1
                        if same:
                            bn, bv = b_vals[0]
                            arg = bv.args[0] if isinstance(bv, ast.Call) and u(bv.func) == "len" and len(bv.args) == 1 and not bv.keywords else None
                            same = arg is not None and (
                                (self_attr(arg) == s_attr and ifl.cfg.path(ifl.cfg.entry, [bn], avoid=[s_vals[0][0]]) is None)
                                or names_eq(ifl.origin(arg, bn), ifl.origin(s_vals[0][1], s_vals[0][0])))
                        # ... and nothing else ever re-assigns the string or its bound
                        for other in cls.methods.values():
                            if other is not init and any(isinstance(t, ast.Attribute) and isinstance(t.ctx, (ast.Store, ast.Del))
                                                         and t.attr in (b, s_attr) and u(t.value) == "self" for t in ast.walk(other.node)):
                                same = False
                    run.check(inside and at_end and beyond and bool(bounds) and same, "C05.TOK", m.qual,
                              f"self.{s_attr}[self.{p_attr}] only while self.{p_attr} < len(self.{s_attr})",
                              f"the characters of the formula are read as self.{s_attr}[self.{p_attr}] but the end position "
                              f"({sorted(bounds) or 'none'}) is not the length of that same string: the tail of the formula is cut off "
                              "(or the read overruns)", node=x, file=m.file,
                              instance=f"{m.qual}: self.{s_attr}[self.{p_attr}] read #{reads}")
    if reads < 2:
        raise AnalysisError(f"C05.TOK: only {reads} indexed reads found in StringIter")
    p_init = [x for a_ in sorted(p_attrs) for x in stored(a_)]
    run.check(bool(p_init) and all(isinstance(v, ast.Constant) and v.value == 0 for _n, v in p_init), "C05.TOK", init.qual,
              "reading starts at position 0", "the iterator does not start at the first character", node=init.node, file=init.file)


def check_shared(run: Run, prog: Program) -> None:
    """Clauses of C05 that sibling checkers decide, run there and reported here.

    C05.NAN    a sub-expression without arithmetic value (division by a zero sub-expression -> NaN) has to stay
               undefined through every enclosing operator, otherwise a number is emitted for an expression that has
               none: C13's NaN-propagation / zero-divisor rules over every step.
    C05.ALIGN  the value is computed from the inputs of the timestamp it is stamped with: besides the first-run
               synchronisation itself (above), nothing is fetched once evaluation has begun and the emitted
               timestamp is the synchronised one (C06.TS)."""
    from . import c06, c13

    s13 = Run("C13", "quick", 0)
    c13.check_steps(s13, prog, c13.engine_drops_round(s13, prog, rule=None))
    rereport(run, s13, ("C13.NAN", "C13.UNDEF"), "C05.NAN")
    s06 = Run("C06", "quick", 0)
    c06.bind_sync(prog)
    try:
        c06.check_ts(s06, prog, c06.Round(prog))
    except c06.RoundBroken as exc:
        raw = prog.func(f"{EVAL}:FormulaEvaluator.apply")
        run.violation("C05.ALIGN", raw.qual, exc.what, exc.message, node=raw.node, file=raw.file)
    rereport(run, s06, ("C06.TS",), "C05.ALIGN")


def check_ho_build(run: Run, prog: Program) -> None:
    """C05.TAB (composition API): build() replays the recorded token stream into FormulaBuilder(s) -- decided per
    token kind on the paths of the replay loop: a COMPONENT_METRIC token reaches push_metric (only), an OPER token
    push_oper(<its value>), a CONSTANT token push_constant(<its value / base value>); the three-phase builder does
    so for each of its three per-phase builders and hands them on in phase order."""
    for cname, kinds, phases in (("HigherOrderFormulaBuilder", ("COMPONENT_METRIC", "OPER", "CONSTANT"), 1),
                                 ("HigherOrderFormulaBuilder3Phase", ("COMPONENT_METRIC", "OPER", "CONSTANT"), 3)):
        raw = prog.func(f"{ENGINE}:{cname}.build")
        run.analysed(raw.qual)
        fl = Flow(prog, spliced(prog, raw))
        ok, detail = _replay_ok(fl, kinds, phases)
        if not ok and phases == 3 and detail == NO_REPLAY_LOOP:
            # the other architecture: one private helper builds the engine of ONE phase (its own builder, its own replay
            # of the tokens, the operand's stream of that phase) and build() calls it for phase 0, 1, 2 in order
            ok, detail = _per_phase_ok(prog, run, fl, kinds)
        run.check(ok, "C05.TAB", raw.qual, "tokens replayed into the builder(s) by kind", detail, node=raw.node, file=raw.file)


NO_REPLAY_LOOP = "no replay loop over the recorded tokens"


def _per_phase_ok(prog: Program, run: Run, fl: Flow, kinds: tuple[str, ...]) -> tuple[bool, str]:
    from ..engine.normalize import _bind

    ctor = [(nid, c) for nid, c in fl.calls(lambda c: u(c.func).split("[")[0] == "FormulaEngine3Phase")]
    if len(ctor) != 1:
        return False, NO_REPLAY_LOOP
    nid, c = ctor[0]
    tup: ast.AST | None = None
    tn = nid
    for a in list(c.args) + [k.value for k in c.keywords]:
        if isinstance(a, (ast.Tuple, ast.List)) and len(a.elts) == 3:
            tup = a
            break
        o = fl.origin1(a, nid)
        if o is not None and o.kind == "expr" and isinstance(o.node, (ast.Tuple, ast.List)) and len(o.node.elts) == 3 and o.nid is not None:
            tup, tn = o.node, o.nid
            break
    if tup is None:
        return False, NO_REPLAY_LOOP
    calls: list[ast.Call] = []
    for e in tup.elts:  # type: ignore[attr-defined]
        o = fl.origin1(e, tn)
        x = o.node if o is not None and o.kind == "expr" and isinstance(e, ast.Name) else e
        if not isinstance(x, ast.Call):
            return False, NO_REPLAY_LOOP
        calls.append(x)
    nested = {n.name: n for n in ast.walk(fl.fn.node) if isinstance(n, (ast.FunctionDef, ast.AsyncFunctionDef)) and n is not fl.fn.node}
    helpers = [fl.callee(x) or (FuncInfo(x.func.id, fl.fn.module, nested[x.func.id], None, fl.fn)
                                if isinstance(x.func, ast.Name) and x.func.id in nested else None) for x in calls]
    if any(h is None for h in helpers) or len({id(h.node) for h in helpers if h is not None}) != 1:
        return False, NO_REPLAY_LOOP
    helper = helpers[0]
    assert helper is not None
    binds = [_bind(helper.node, x) for x in calls]
    if any(b is None for b in binds):
        return False, "the per-phase helper's arguments cannot be read"
    phase_ps = [p for p in binds[0] if [b[p].value if isinstance(b[p], ast.Constant) else None for b in binds] == [0, 1, 2]]  # type: ignore[index,union-attr]
    same = all(len({u(b[p]) for b in binds}) == 1 for p in binds[0] if p not in phase_ps)  # type: ignore[index,union-attr]
    if len(phase_ps) != 1 or not same:
        return False, "the three per-phase engines are not built for phase 0, 1, 2 in this order from otherwise equal arguments"
    run.analysed(helper.qual)
    hfl = Flow(prog, spliced(prog, helper))
    ok, detail = _replay_ok(hfl, kinds, 1)
    if not ok:
        return False, f"{helper.name}(): {detail}"
    # one fresh builder per call, returned built; the operand's stream is the one of the helper's phase
    pushes = hfl.calls(lambda c: isinstance(c.func, ast.Attribute) and c.func.attr in ("push_metric", "push_oper", "push_constant"))
    fresh = bool(pushes)
    made: list[ast.AST] = []
    for pn, pc in pushes:
        o = hfl.origin1(pc.func.value, pn)  # type: ignore[union-attr]
        if o is None or o.kind != "expr" or not (isinstance(o.node, ast.Call) and u(o.node.func).split("[")[0] == "FormulaBuilder"):
            fresh = False
        elif not any(o.node is m for m in made):
            made.append(o.node)
    fresh = fresh and len(made) == 1
    for r in hfl.returns():
        v = hfl.cfg.nodes[r].ast.value  # type: ignore[union-attr]
        o = hfl.origin1(v, r) if v is not None else None
        b = o.node if o is not None and o.kind == "expr" else None
        fresh = fresh and isinstance(b, ast.Call) and isinstance(b.func, ast.Attribute) and b.func.attr == "build" \
            and made and hfl.is_node(b.func.value, made[0], o.nid)  # type: ignore[union-attr]
    if not fresh or not hfl.returns():
        return False, f"{helper.name}() does not replay the tokens into one fresh FormulaBuilder and return what it builds"
    pm = prog.func(f"{ENGINE}:FormulaBuilder.push_metric")
    pps = [p for p in pm.params if p != "self"]
    for pn, pc in pushes:
        if pc.func.attr != "push_metric":  # type: ignore[union-attr]
            continue
        st = positional(pc, pps).get(pps[1]) if len(pps) > 1 else None
        subs = [x for x in ast.walk(st) if isinstance(x, ast.Subscript)] if st is not None else []
        by_phase = [x for x in subs if (lambda oo: bool(oo) and all(q.kind == "param" and q.name == phase_ps[0] for q in oo))(hfl.origin(x.slice, pn))]
        if not by_phase:
            return False, f"{helper.name}() does not take the operand's stream of its own phase (`<operand>._streams[{phase_ps[0]}]`)"
    return True, ""


def _replay_ok(fl: Flow, kinds: tuple[str, ...], phases: int) -> tuple[bool, str]:
    """(holds, what is wrong) for one replay of the recorded tokens into builder(s) in the function of `fl`."""
    want = {"COMPONENT_METRIC": "push_metric", "OPER": "push_oper", "CONSTANT": "push_constant"}
    if True:
        cfg = fl.cfg
        loops = [h for h in cfg.nodes if h.kind == "for" and h.id in fl.live and isinstance(h.ast.target, ast.Tuple)  # type: ignore[union-attr]
                 and len(h.ast.target.elts) == 2 and all(o.kind == "expr" and u(o.node) == "self._steps" for o in fl.origin(h.ast.iter, h.id))]  # type: ignore[union-attr]
        # the replay loop is the one that pushes (another pass over the tokens -- naming the engines, counting -- is not)
        push_nodes = {nid for nid, _c in fl.calls(lambda c: isinstance(c.func, ast.Attribute) and c.func.attr in want.values())}
        loops = [h for h in loops if push_nodes & cfg.reachable([m for m, lab in cfg.succ[h.id] if lab == "iter"], avoid=[h.id])] if len(loops) > 1 else loops
        ok = len(loops) == 1
        detail = "no replay loop over the recorded tokens"
        if ok:
            lp = loops[0]
            body0 = [m for m, lab in cfg.succ[lp.id] if lab == "iter"]

            def part(e: ast.AST, nid: int, idx: int) -> bool:
                o = fl.origin(e, nid)
                return bool(o) and all(q.kind == "iter" and q.nid == lp.id and q.idx == idx for q in o)

            def kind_is(kind: str) -> Any:
                def atom(e: ast.AST, nid: int) -> bool | None:
                    if isinstance(e, ast.Compare) and len(e.ops) == 1 and isinstance(e.ops[0], (ast.Eq, ast.NotEq, ast.Is, ast.IsNot)):
                        for x, y in ((e.left, e.comparators[0]), (e.comparators[0], e.left)):
                            if part(x, nid, 0) and u(y).startswith("TokenType."):
                                same = u(y) == f"TokenType.{kind}"
                                return same if isinstance(e.ops[0], (ast.Eq, ast.Is)) else not same
                    return None
                return pruned(cfg, lifted(fl, atom))

            pushes = [(nid, c) for nid, c in fl.calls(lambda c: isinstance(c.func, ast.Attribute) and c.func.attr in want.values())]
            for kind in kinds:
                e_k = kind_is(kind)
                reach = [(nid, c) for nid, c in pushes if cfg.path(body0[0], [nid], edge_ok=e_k) is not None]
                names = {c.func.attr for _n, c in reach}  # type: ignore[union-attr]
                ok = ok and names == {want[kind]} and (len(reach) == 1 or kind == "CONSTANT")
                detail = f"a {kind} token is replayed through {sorted(names) or 'nothing'} instead of {want[kind]}() exactly once"
                if not ok:
                    break
                nid, c = reach[0]
                # the token may not slip through without its push (per phase: inside an unconditional loop over the phases)
                inner = [h for h in cfg.nodes if h.kind == "for" and h.id != lp.id and h.id in fl.live
                         and nid in cfg.reachable([m for m, lab in cfg.succ[h.id] if lab == "iter"], avoid=[h.id])]
                anchors = [inner[0].id] if inner else [n2 for n2, _c in reach]
                ok = body0[0] in anchors or cfg.path(body0[0], [lp.id], avoid=anchors, edge_ok=e_k) is None
                detail = f"a {kind} token can pass the replay loop without being pushed"
                if ok and len(reach) > 1:
                    ok = not any(cfg.path(n1, [n2], avoid=[lp.id], include_src=False) is not None for n1, _a in reach for n2, _b in reach)
                    detail = f"a {kind} token can be pushed twice"
                if ok and phases == 3:
                    base = c.func.value  # type: ignore[union-attr]
                    bo = fl.origin1(base, nid)
                    per_phase = len(inner) == 1 and (
                        (u(inner[0].ast.iter) == "range(3)" and bo is not None and bo.kind == "expr" and isinstance(bo.node, ast.Subscript)  # type: ignore[union-attr]
                         and all(q.kind == "iter" and q.nid == inner[0].id for q in fl.origin(bo.node.slice, bo.nid)))
                        or (bo is not None and bo.kind == "iter" and bo.nid == inner[0].id))
                    ok = per_phase and not any(isinstance(x, (ast.Break, ast.Continue)) for st in inner[0].ast.body for x in ast.walk(st))  # type: ignore[union-attr]
                    detail = f"a {kind} token is not pushed into each of the three per-phase builders"
                if ok and kind == "OPER":
                    a = positional(c, ["oper"])
                    ok = len(a) == 1 and part(a["oper"], nid, 1)
                    detail = "push_oper is not given the token's own value"
                if ok and kind == "CONSTANT":
                    # a Quantity is pushed as its base value, a plain number as it is -- whether that is decided by a
                    # conditional expression in the argument or by an if / else around two calls
                    def q_is(is_q: bool) -> Any:
                        def atom(e: ast.AST, n3: int) -> bool | None:
                            if isinstance(e, ast.Call) and u(e.func) == "isinstance" and len(e.args) == 2 and part(e.args[0], n3, 1) \
                                    and u(e.args[1]).replace(" ", "") in ("Quantity", "(Quantity,)"):
                                return is_q
                            if isinstance(e, ast.Call) and u(e.func) == "isinstance" and len(e.args) == 2 and part(e.args[0], n3, 1) \
                                    and u(e.args[1]).replace(" ", "") in ("float", "(float,int)", "(int,float)", "int"):
                                return not is_q
                            return kind_atom(e, n3)
                        return lifted(fl, atom)

                    def kind_atom(e: ast.AST, n3: int) -> bool | None:
                        if isinstance(e, ast.Compare) and len(e.ops) == 1 and isinstance(e.ops[0], (ast.Eq, ast.NotEq, ast.Is, ast.IsNot)):
                            for x, y in ((e.left, e.comparators[0]), (e.comparators[0], e.left)):
                                if part(x, n3, 0) and u(y).startswith("TokenType."):
                                    same = u(y) == "TokenType.CONSTANT"
                                    return same if isinstance(e.ops[0], (ast.Eq, ast.Is)) else not same
                        return None

                    plain = True
                    for is_q in (True, False):
                        at = q_is(is_q)
                        e_q = pruned(cfg, at)
                        live = [(n4, c4) for n4, c4 in reach if cfg.path(body0[0], [n4], edge_ok=e_q) is not None]
                        plain = plain and len(live) >= 1
                        for n4, c4 in live:
                            v = positional(c4, ["value"]).get("value")
                            o = fl.origin1(v, n4) if v is not None else None
                            v2, vn = (o.node, o.nid) if o is not None and o.kind == "expr" else (v, n4)
                            if v is not None and part(v, n4, 1):
                                v2, vn = v, n4
                            leaves = select_ifexp(v2, lambda e, vn=vn, at=at: at(e, vn)) if v2 is not None else []
                            for leaf in leaves:
                                good = (isinstance(leaf, ast.Attribute) and leaf.attr == "base_value" and part(leaf.value, vn, 1)) if is_q \
                                    else part(leaf, vn, 1)
                                plain = plain and good
                            plain = plain and bool(leaves)
                    ok = plain
                    detail = "push_constant is not given the token's value (its base value for a Quantity)"
                if not ok:
                    break
        if ok and phases == 3:
            ctor = [(nid, c) for nid, c in fl.calls(lambda c: u(c.func).split("[")[0] == "FormulaEngine3Phase")]
            ok = len(ctor) == 1
            if ok:
                nid, c = ctor[0]
                tup = next((a for a in list(c.args) + [k.value for k in c.keywords] if isinstance(a, (ast.Tuple, ast.List)) and len(a.elts) == 3), None)
                o = None
                if tup is None:
                    for a in list(c.args) + [k.value for k in c.keywords]:
                        o = fl.origin1(a, nid)
                        if o is not None and o.kind == "expr" and isinstance(o.node, (ast.Tuple, ast.List)) and len(o.node.elts) == 3:
                            tup = o.node
                            break
                idxs = []
                for e in (tup.elts if tup is not None else []):
                    if isinstance(e, ast.Call) and isinstance(e.func, ast.Attribute) and e.func.attr == "build" \
                            and isinstance(e.func.value, ast.Subscript) and isinstance(e.func.value.slice, ast.Constant):
                        idxs.append(e.func.value.slice.value)
                ok = idxs == [0, 1, 2] or (tup is None and any(
                    isinstance(a, (ast.ListComp, ast.GeneratorExp, ast.Call)) for a in list(c.args) + [k.value for k in c.keywords]))
            detail = "the three per-phase engines are not handed on in phase order"
        return ok, detail


_DEQUE_MUTATORS = ("append", "appendleft", "extend", "extendleft", "insert", "pop", "popleft", "clear", "remove", "rotate", "reverse")


def _stored_read(e: ast.AST | None, module: Any, cls: ClassInfo | None) -> tuple[str, ast.AST | None] | None:
    """(table text, key expression | None) when `e` reads a value back out of something that outlives the call: an
    attribute / item of the object, of its class, or of a module-level container."""
    def rooted(b: ast.AST) -> bool:
        while isinstance(b, (ast.Attribute, ast.Subscript)):
            b = b.value
        if isinstance(b, ast.Call) and u(b.func) == "type" and len(b.args) == 1:
            b = b.args[0]
        if not isinstance(b, ast.Name):
            return False
        return b.id in ("self", "cls") or (cls is not None and b.id == cls.name) or b.id in module.assigns \
            or b.id in module.classes

    if isinstance(e, ast.Subscript) and isinstance(e.ctx, ast.Load) and rooted(e.value):
        return u(e.value), e.slice
    if isinstance(e, ast.Call) and isinstance(e.func, ast.Attribute) and e.func.attr in ("get", "setdefault", "pop") and e.args \
            and isinstance(e.func.value, (ast.Attribute, ast.Name, ast.Subscript)) and rooted(e.func.value):
        return u(e.func.value), e.args[0]
    if isinstance(e, ast.Attribute) and isinstance(e.ctx, ast.Load) and rooted(e) and isinstance(e.value, (ast.Name, ast.Attribute, ast.Call)):
        return u(e), None
    return None


def check_fresh(run: Run, prog: Program) -> None:
    """C05.FRESH ("every expression tree built through the Python operator/method API ... each emitted value equals
    that expression"): the operator methods of a builder (_push, consumption, production, whatever mutates the token
    deque) change the builder *in place* and return the same object, so the expression a builder denotes changes over
    its life time.  The engine build() returns therefore has to be compiled from the token stream the builder holds
    *at that call*: no return of build() may hand back an engine read out of a store that outlives the call (a memo
    on the builder, its class or the module; functools caches) -- unless the store's key is computed from the token
    stream itself or every mutator of the token stream empties the store.  Otherwise build(); <more operators>;
    build() with the same arguments streams the OLD, shorter expression under the new one's name."""
    from .c13 import operand_stream_leaves

    base = prog.cls(f"{ENGINE}:_BaseHOFormulaBuilder")
    for cname in ("HigherOrderFormulaBuilder", "HigherOrderFormulaBuilder3Phase"):
        raw = prog.func(f"{ENGINE}:{cname}.build")
        run.analysed(raw.qual)
        cls = raw.cls
        inst = f"{raw.qual}: the returned engine is compiled from the tokens held at the call"
        cached = [u(d) for d in raw.node.decorator_list if "cache" in u(d).lower() or "memo" in u(d).lower()]
        if cached:
            run.violation("C05.FRESH", raw.qual, f"@{cached[0]}",
                          f"build() is memoised by `@{cached[0]}` on its arguments, but the builder's operator methods change its "
                          "token stream in place: a second build() after further operators returns the engine of the OLD expression",
                          node=raw.node, file=raw.file)
            continue
        fl = Flow(prog, spliced(prog, raw))
        # the token store: what the replay loop iterates
        toks = {u(o.node) for h in fl.cfg.nodes if h.kind == "for" and h.id in fl.live and isinstance(h.ast.target, ast.Tuple)  # type: ignore[union-attr]
                for o in fl.origin(h.ast.iter, h.id) if o.kind == "expr" and u(o.node).startswith("self.")}  # type: ignore[union-attr]
        if not toks:
            toks = {"self._steps"}
        hits: list[tuple[str, ast.AST | None, Any, int, ast.AST]] = []
        rets = fl.returns()
        for r in rets:
            v = fl.cfg.nodes[r].ast.value  # type: ignore[union-attr]
            if v is None:
                continue
            for f2, n2, e, _txt in operand_stream_leaves(fl, r, v):
                sr = _stored_read(e, raw.module, cls)
                if sr is not None and e is not None:
                    hits.append((sr[0], sr[1], f2, n2, e))
        if not rets:
            raise AnalysisError(f"{raw.qual}: no return found (C05.FRESH)")
        if not hits:
            run.ok("C05.FRESH", inst)
            continue
        # every method of the builder that changes the token stream
        owners = [c for c in (base, cls) if c is not None]
        mutators: list[FuncInfo] = []
        for c in owners:
            for m in c.methods.values():
                if m.name in ("__init__", "build") or m in mutators:
                    continue
                for x in ast.walk(m.node):
                    if (isinstance(x, ast.Call) and isinstance(x.func, ast.Attribute) and x.func.attr in _DEQUE_MUTATORS and u(x.func.value) in toks) \
                            or (isinstance(x, (ast.Attribute, ast.Subscript)) and isinstance(x.ctx, (ast.Store, ast.Del))
                                and (u(x) in toks or (isinstance(x, ast.Subscript) and u(x.value) in toks))):
                        mutators.append(m)
                        break
        for table, key, f2, n2, e in hits:
            keyed = False
            if key is not None:
                names = [key] + [o.node for x in ast.walk(key) if isinstance(x, ast.Name) and isinstance(x.ctx, ast.Load)
                                 for o in f2.origin(x, n2, through_helpers=False) if o.kind == "expr" and o.node is not None]
                keyed = any(u(y) in toks for k_ in names for y in ast.walk(k_) if isinstance(y, ast.Attribute))
            root = table.split("[")[0]

            def empties(m: FuncInfo, root: str = root) -> bool:
                for x in ast.walk(m.node):
                    if isinstance(x, ast.Call) and isinstance(x.func, ast.Attribute) and x.func.attr in ("clear", "pop", "popitem") \
                            and u(x.func.value) == root:
                        return True
                    if isinstance(x, (ast.Attribute, ast.Subscript)) and isinstance(x.ctx, (ast.Store, ast.Del)) \
                            and (u(x) == root or (isinstance(x, ast.Subscript) and u(x.value) == root)):
                        return True
                return False

            stale = sorted(m.name for m in mutators if not empties(m))
            run.check(keyed or (bool(mutators) and not stale), "C05.FRESH", raw.qual, f"build() returns `{u(e)[:60]}`",
                      f"build() can return an engine read back from `{table}` (`{u(e)[:80]}`) instead of compiling the tokens the builder "
                      f"holds now, but {', '.join(stale) or 'the operator methods'} change `{sorted(toks)[0]}` in place (and return the same "
                      "builder) without emptying that store, and its key does not depend on the token stream: after "
                      "`b = e1 + e2; b.build(n); b = b * 2.0; b.build(n)` the second engine still streams e1 + e2 -- the emitted values "
                      "are not the value of the expression the engine was built from.  The same holds for any memo of built engines "
                      "(per builder, per class, per module, functools.cache) that is not invalidated by every operator, "
                      "consumption() and production()", node=e, file=raw.file, instance=inst)


_STR_PREDICATES = ("isspace", "isdigit", "isalpha", "isalnum", "isdecimal", "isnumeric", "isascii", "isprintable")


def check_digits(run: Run, prog: Program) -> None:
    """C05.TOK (component ids): the number after `#` is read digit by digit -- while the next character is a
    digit it is appended to the result and consumed exactly once, the first non-digit ends the number without
    being consumed, and what is returned is what was accumulated.  The reader is bound by role: the Tokenizer
    method whose result becomes the value of the COMPONENT_METRIC token."""
    tcls = prog.cls(f"{TOK}:Tokenizer")
    readers = set()
    for m in tcls.methods.values():
        for c in (x for x in ast.walk(m.node) if isinstance(x, ast.Call) and u(x.func) == "Token"):
            a = positional(c, ["type", "value"])
            v = a.get("value")
            if u(a.get("type")) != "TokenType.COMPONENT_METRIC" or v is None:
                continue
            vals: list[ast.AST | None] = [v]
            if isinstance(v, ast.Name):  # the number was given a local name first
                fm = Flow(prog, m)
                vals = [o.node if o.kind == "expr" else None for o in fm.origin(v, fm.node_of(c), through_helpers=False)]
            for v in vals:
                if isinstance(v, ast.Call) and isinstance(v.func, ast.Attribute) \
                        and u(v.func.value) == "self" and v.func.attr in tcls.methods:
                    readers.add(v.func.attr)
    if len(readers) != 1:
        raise AnalysisError(f"{tcls.qual}: no single method reads the component id ({sorted(readers)})")
    fn = tcls.methods[readers.pop()]
    run.analysed(fn.qual)
    fl = Flow(prog, fn)
    cfg = fl.cfg

    def is_peek(e: ast.AST | None) -> bool:
        return isinstance(e, ast.Call) and isinstance(e.func, ast.Attribute) and e.func.attr == "peek" and u(e.func.value) == "self._formula"

    chars = {x.target.id for x in ast.walk(fn.node) if isinstance(x, ast.NamedExpr) and is_peek(x.value) and isinstance(x.target, ast.Name)} | \
        {x.targets[0].id for x in ast.walk(fn.node) if isinstance(x, ast.Assign) and is_peek(x.value) and isinstance(x.targets[0], ast.Name)}

    def is_char(e: ast.AST) -> bool:
        return (isinstance(e, ast.Name) and e.id in chars) or (isinstance(e, ast.NamedExpr) and is_peek(e.value)) or is_peek(e)

    def scene(digit: bool) -> Any:
        def atom(e: ast.AST, _nid: int) -> bool | None:
            if isinstance(e, ast.Call) and isinstance(e.func, ast.Attribute) and e.func.attr == "isdigit" and is_char(e.func.value):
                return digit
            ta = truth_atom(e)
            if ta is not None and is_char(ta[0]):
                return not ta[1]  # there is a next character
            if is_char(e):
                return True
            return None
        return pruned(cfg, lifted(fl, atom))

    def rebinds_appended(a: ast.AST | None) -> str | None:
        """`acc = acc + <char>` / `acc = f"{acc}{<char>}"`: the accumulator re-bound to itself with the character at its end."""
        if not (isinstance(a, ast.Assign) and len(a.targets) == 1 and isinstance(a.targets[0], ast.Name)):
            return None
        v, name = a.value, a.targets[0].id
        parts: list[ast.AST] = []
        if isinstance(v, ast.BinOp) and isinstance(v.op, ast.Add):
            parts = [v.left, v.right]
        elif isinstance(v, ast.JoinedStr) and len(v.values) == 2 and all(
                isinstance(x, ast.FormattedValue) and x.conversion == -1 and x.format_spec is None for x in v.values):
            parts = [x.value for x in v.values]  # type: ignore[attr-defined]
        if len(parts) == 2 and isinstance(parts[0], ast.Name) and parts[0].id == name and is_char(parts[1]):
            return name
        return None

    loops = [w for w in cfg.nodes if w.kind == "while" and w.id in fl.live]
    acc = [n.id for n in cfg.nodes if n.id in fl.live and (
        (isinstance(n.ast, ast.AugAssign) and isinstance(n.ast.target, ast.Name) and is_char(n.ast.value))
        or rebinds_appended(n.ast) is not None
        or (isinstance(n.ast, ast.Expr) and isinstance(n.ast.value, ast.Call) and method_call(n.ast.value, None, "append")
            and len(n.ast.value.args) == 1 and is_char(n.ast.value.args[0])))]
    eat = [nid for nid, c in fl.calls(lambda c: (u(c.func) == "next" and len(c.args) == 1 and u(c.args[0]) == "self._formula")
                                      or method_call(c, "self._formula", "__next__"))]
    ok = len(loops) == 1 and len(acc) == 1 and len(eat) == 1 and bool(chars)
    detail = "no loop that accumulates and consumes one character at a time"
    if ok:
        w = loops[0]
        a_node = cfg.nodes[acc[0]].ast
        plus = not isinstance(a_node, ast.AugAssign) or isinstance(a_node.op, ast.Add)
        yes, no = scene(True), scene(False)
        t_yes = yes(w.id, -1, "true") and not yes(w.id, -1, "false")
        body = [m for m, lab in cfg.succ[w.id] if lab == "true"]
        # a digit: the loop goes on, and on the way round it is appended and consumed (each exactly once)
        ok = plus and t_yes and bool(body) and cfg.path(body[0], [w.id], edge_ok=yes) is not None \
            and all(body[0] == k or cfg.path(body[0], [w.id], avoid=[k], edge_ok=yes) is None for k in (acc[0], eat[0])) \
            and cfg.path(body[0], [cfg.exit], avoid=[w.id], edge_ok=yes) is None \
            and all(cfg.path(k, [k], avoid=[w.id], include_src=False) is None for k in (acc[0], eat[0]))
        detail = "a digit of the component id is not appended and consumed exactly once (or ends the number)"
        if ok:
            # a non-digit: the number ends here, nothing is appended or consumed
            leave = no(w.id, -1, "false") and not no(w.id, -1, "true")
            ok = leave or (cfg.path(body[0], acc + eat, edge_ok=no) is None and cfg.path(body[0], [w.id], edge_ok=no) is None)
            detail = "a character that is not a digit is appended to / consumed with the component id, or does not end it"
        if ok:
            tgt = a_node.target.id if isinstance(a_node, ast.AugAssign) else (
                rebinds_appended(a_node) or u(a_node.value.func.value))  # type: ignore[union-attr]
            rets = fl.returns()
            ok = bool(rets) and all((lambda v: u(v) == tgt or (isinstance(v, ast.Call) and method_call(v, None, "join")
                                                              and len(v.args) == 1 and u(v.args[0]) == tgt))(cfg.nodes[r].ast.value) for r in rets)  # type: ignore[union-attr]
            detail = "what is returned is not the accumulated digits"
    run.check(ok, "C05.TOK", fn.qual, "component id: digits appended and consumed one by one", detail, node=fn.node, file=fn.file)



def param_deps(fl: Flow, e: ast.AST, nid: int, fuel: int = 6) -> set[str]:
    """The parameters of the function the value of `e` (evaluated at node nid) is computed from, through locals."""
    out: set[str] = set()
    for x in ast.walk(e):
        if isinstance(x, ast.Name) and isinstance(x.ctx, ast.Load):
            for o in fl.origin(x, nid, through_helpers=False):
                if o.kind == "param":
                    out.add(o.name)
                elif o.kind in ("expr", "item", "iter") and o.node is not None and o.nid is not None and fuel > 0 and o.node is not x:
                    out |= param_deps(o.flow, o.node, o.nid, fuel - 1)
    return out


def check_pool(run: Run, prog: Program, rule: str = "C05.POOL", policy_mode: bool = False) -> None:
    """C05.POOL ("for every formula built from a formula string ... evaluated on the input values"): the string path
    is entered through whoever calls ResampledFormulaBuilder(...).from_string(...).  When that caller hands out a
    *stored* engine instead of building one (a cache: `if key in self.<table>: return self.<table>[key]`), the key
    must be computed from every parameter that reaches the builder's constructor or from_string() -- otherwise a
    second request that differs only in the forgotten parameter (another metric, another formula text) is answered
    with the first request's engine: a well-formed stream of the wrong expression / the wrong inputs.  Parameters
    that only reach from_string's missing-value policy are left to C13 (they do not matter for finite inputs); a key
    that is itself a parameter is the caller's contract and not judged.

    `policy_mode` (C13.POOL) is the complementary half: only the parameters that reach from_string's missing-value
    policy (`nones_are_zeros`) are demanded of the key -- a second request for the same formula with the other setting
    must not be answered with the first request's engine ("on streams so configured a missing value behaves exactly
    like 0", for *that* caller)."""
    rfb = prog.cls(f"{RFB}:ResampledFormulaBuilder")
    fs = prog.resolve_method(rfb, "from_string")
    if fs is None:
        raise AnalysisError(f"{rfb.qual}.from_string not found")
    policy = {p for p in fs.params if "none" in p.lower() or "zero" in p.lower()}
    callers = 0
    for fn in list(prog.all_functions()):
        if fn.module is rfb.module or not find_ctor(prog, fn, rfb):
            continue
        fl = Flow(prog, fn)
        cfg = fl.cfg
        for fnid, fcall in fl.calls(lambda c: isinstance(c.func, ast.Attribute) and c.func.attr == "from_string"):
            bo = fl.origin(fcall.func.value, fnid)  # type: ignore[union-attr]
            ctors = [q.call() for q in bo if q.call() is not None and isinstance(q.call().func, (ast.Name, ast.Subscript))  # type: ignore[union-attr]
                     and prog.resolve_name(fn.module, u(q.call().func).split("[")[0]) is rfb]  # type: ignore[union-attr]
            if not ctors or len(ctors) != len(bo):
                continue
            callers += 1
            run.analysed(fn.qual)
            # what the engine is made from
            needs: dict[str, str] = {}
            for ctor, q in zip(ctors, bo):
                for a in ([] if policy_mode else list(ctor.args) + [k.value for k in ctor.keywords]):
                    for p in param_deps(q.flow, a, q.nid):  # type: ignore[arg-type]
                        needs.setdefault(p, f"{rfb.name}(...)")
            fa = positional(fcall, [p for p in fs.params if p != "self"])
            for pname, a in fa.items():
                for p in param_deps(fl, a, fnid):
                    if (pname in policy) != policy_mode:
                        continue
                    needs.setdefault(p, f"from_string({pname}=...)")
            needs.pop("self", None)
            # cache hits: a returned value read out of a table of this object
            hits: list[tuple[int, ast.AST, ast.AST]] = []  # (return node, table expression, key expression)
            for r in fl.returns():
                v = cfg.nodes[r].ast.value  # type: ignore[union-attr]
                for o in (fl.origin(v, r) if v is not None else []):
                    e = o.node if o.kind == "expr" else None
                    if isinstance(e, ast.Subscript) and u(e.value).startswith("self."):
                        hits.append((o.nid if o.nid is not None else r, e.value, e.slice))
                    elif isinstance(e, ast.Call) and isinstance(e.func, ast.Attribute) and e.func.attr == "get" and u(e.func.value).startswith("self.") and e.args:
                        hits.append((o.nid if o.nid is not None else r, e.func.value, e.args[0]))
            if not hits:
                run.ok(rule, f"{fn.qual}: every request builds its own engine (nothing cached)")
                continue
            for hn, table, key in hits:
                ko = fl.origin(key, hn)
                if ko and all(q.kind == "param" and q.name not in needs for q in ko):
                    run.ok(rule, f"{fn.qual}: the cache key `{u(key)}` is supplied by the caller")
                    continue
                have = param_deps(fl, key, hn)
                missing = sorted(p for p in needs if p not in have)
                run.check(not missing, rule, fn.qual, f"cache key of {u(table)} covers what the engine is built from",
                          f"`{u(table)}[{u(key)}]` hands out a stored engine, but the key is computed from {sorted(have) or 'nothing'} only while the "
                          f"engine is built from {', '.join(f'{p} (-> {needs[p]})' for p in sorted(needs))}: a later request that differs only in "
                          f"{missing} gets the engine of the earlier one -- the samples it emits are the value of the expression on the WRONG "
                          "inputs (another metric of the same components) or of another expression, with perfectly plausible timestamps.  "
                          "Every parameter that selects the expression or its inputs has to be part of the key"
                          + ("; here the forgotten parameter is the missing-value policy: the second caller's missing inputs are "
                             "treated the first caller's way (None instead of 0, or 0 instead of None)" if policy_mode else ""),
                          node=key, file=fn.file, instance=f"{fn.qual}: key `{u(key)}` of {u(table)}")
                # ... and the engine is stored under the key it is looked up with
                stores = [n for n in cfg.nodes if n.id in fl.live and isinstance(n.ast, ast.Assign) and isinstance(n.ast.targets[0], ast.Subscript)
                          and u(n.ast.targets[0].value) == u(table)]
                ok = bool(stores) and all(names_eq(fl.origin(n.ast.targets[0].slice, n.id), ko) or (  # type: ignore[union-attr]
                    not isinstance(n.ast.targets[0].slice, ast.Name) and u(n.ast.targets[0].slice) == u(key)) for n in stores)  # type: ignore[union-attr]
                run.check(ok, rule, fn.qual, f"{u(table)} is filled under the key it is read with",
                          f"the engine is stored in {u(table)} under another key than the one it is looked up with", node=key, file=fn.file,
                          instance=f"{fn.qual}: store key of {u(table)}")
    if not callers:
        raise AnalysisError(f"no caller of {rfb.qual}(...).from_string(...) found: the entry point of the formula-string path moved")


def emitted_leaves(flow: Any, nid: int, expr: ast.AST, fuel: int = 10) -> list[tuple[Any, int, ast.AST | None, str]]:
    """Everything the expression can evaluate to: alternatives of conditional expressions and `a or b`, locals and the
    returns of private helpers followed back to what was assigned (every definition that reaches); `float(x)` is x."""
    out: list[tuple[Any, int, ast.AST | None, str]] = []
    for alt in select_ifexp(expr, lambda e: None):
        if isinstance(alt, ast.BoolOp):
            for v in alt.values:
                out.extend(emitted_leaves(flow, nid, v, fuel))
            continue
        if isinstance(alt, ast.NamedExpr):
            out.extend(emitted_leaves(flow, nid, alt.value, fuel))
            continue
        if isinstance(alt, ast.Call) and u(alt.func) == "float" and len(alt.args) == 1 and not alt.keywords:
            out.extend(emitted_leaves(flow, nid, alt.args[0], fuel))
            continue
        if fuel > 0 and (isinstance(alt, ast.Name) or (isinstance(alt, ast.Call) and flow.child(alt, nid) is not None)):
            for o in flow.origin(alt, nid):
                if o.kind == "expr" and o.node is not None and o.nid is not None and not (o.node is alt and o.flow is flow):
                    out.extend(emitted_leaves(o.flow, o.nid, o.node, fuel - 1))
                elif o.kind == "expr" and o.node is not None:
                    out.append((o.flow, o.nid if o.nid is not None else nid, o.node, u(o.node)))
                else:
                    out.append((o.flow, o.nid if o.nid is not None else nid, None, o.text()))
            continue
        out.append((flow, nid, alt, u(alt)))
    return out


def check_emitted(run: Run, prog: Program) -> None:
    """C05.EVAL (emitted value) -- "each emitted value equals that expression evaluated ... up to floating-point
    rounding": C05.STEP / PREC / PAREN establish that the one value the steps leave on the stack IS the value of the
    expression; what apply() then hands to `create_method` for the sample has to be that residual value itself on every
    path -- every definition of it that reaches the constructor is the read of the stack (`stack.pop()`, `stack[-1]`,
    `stack[0]`, through locals, helpers, `float()`).  Anything else in that place -- a constant a guard substitutes
    (snapping to 0.0 within an *absolute* tolerance is an error of 100 % for every legitimate result below it, and each
    engine of a composition does it again), `round()`, `abs()`, a clamp, a scaled or offset value -- makes the sample
    differ from the expression's value by more than rounding."""
    from ._c06_util import result_sites

    raw = prog.func(f"{EVAL}:FormulaEvaluator.apply")
    run.analysed(raw.qual)
    fl = Flow(prog, raw)
    sites = result_sites(fl, lambda c: u(c.func).split("[")[0] == "Sample")
    inst = f"{raw.qual}: create_method gets the residual value of the stack itself"
    created = 0
    bad: list[tuple[str, ast.AST | None, Any]] = []

    def is_stack_read(e: ast.AST | None) -> bool:
        if isinstance(e, ast.Call) and isinstance(e.func, ast.Attribute) and e.func.attr == "pop" and not e.keywords \
                and (not e.args or (len(e.args) == 1 and u(e.args[0]) in ("-1", "0"))):
            return True
        return isinstance(e, ast.Subscript) and isinstance(e.ctx, ast.Load) and u(e.slice) in ("-1", "0")

    for s_ in sites:
        v = s_.args(["timestamp", "value"]).get("value")
        if v is None:
            continue
        for f2, n2, leaf, _txt in emitted_leaves(s_.flow, s_.nid, v):
            if not (isinstance(leaf, ast.Call) and u(leaf.func) in ("self._create_method", "self._create") and len(leaf.args) + len(leaf.keywords) == 1):
                continue  # the None sample (and whatever else is not a created value: C13.OUT's business)
            created += 1
            arg = leaf.args[0] if leaf.args else leaf.keywords[0].value
            for f3, _n3, e3, txt in emitted_leaves(f2, n2, arg):
                if not is_stack_read(e3):
                    bad.append((txt, e3, f3))
    if not created:
        raise AnalysisError(f"{raw.qual}: no sample built with create_method(<result>) is returned (C05.EVAL)")
    texts = sorted({t for t, _e, _f in bad})
    node = next((e for _t, e, _f in bad if e is not None), raw.node)
    run.check(not bad, "C05.EVAL", raw.qual, "the emitted value is the residual of the evaluation stack",
              f"the value handed to create_method for the emitted sample can be {texts} instead of the one value the steps left on "
              "the evaluation stack: on that path the sample is not the value of the expression.  Replacing the result under a "
              "guard (`if isclose(res, 0.0, abs_tol=eps): res = 0.0` turns every legitimate result below eps -- ratios, shares, "
              "small currents -- into exactly 0.0, a relative error of 100 %, and every operand engine of a composition does it again "
              "before the outer engine multiplies it up), rounding, `abs()`, clamping or rescaling it are the same mistake: only "
              "floating-point rounding of the arithmetic itself is allowed between the expression and the sample",
              node=node, file=(bad[0][2].fn.file if bad else raw.file), instance=inst)


def _name_attr_param(prog: Program, cls: ClassInfo) -> tuple[FuncInfo, str] | None:
    """(constructor, parameter) whose value becomes the name of what `cls` builds: the parameter of the constructor
    `cls` resolves to that is stored in the attribute the `name` property returns (else an attribute called *name*);
    followed through `super().__init__(...)` of subclasses' own constructors."""
    init = prog.resolve_method(cls, "__init__")
    if init is None or init.cls is None:
        return None
    own = init.cls
    attrs: set[str] = set()
    prop = prog.resolve_method(own, "name")
    if prop is not None:
        attrs = {r.value.attr for r in ast.walk(prop.node) if isinstance(r, ast.Return) and isinstance(r.value, ast.Attribute) and u(r.value.value) == "self"}
    fl = Flow(prog, init)
    for n in fl.cfg.nodes:
        if n.id not in fl.live or not isinstance(n.ast, (ast.Assign, ast.AnnAssign)) or n.ast.value is None:
            continue
        tgts = n.ast.targets if isinstance(n.ast, ast.Assign) else [n.ast.target]
        for t in tgts:
            if isinstance(t, ast.Attribute) and u(t.value) == "self" and (t.attr in attrs or (not attrs and t.attr.strip("_") == "name")):
                o = fl.origin(n.ast.value, n.id)
                if o and all(q.kind == "param" for q in o) and len({q.name for q in o}) == 1:
                    return init, o[0].name
    # the constructor only hands the name up: super().__init__(<name>, ...)
    from ..engine.normalize import _bind
    from ..engine.util import is_super_call

    for nid, c in fl.calls(lambda c: is_super_call(c, "__init__")):
        for parent in prog.mro(own)[1:]:
            up = _name_attr_param(prog, parent)
            if up is None:
                continue
            binds = _bind(up[0].node, c)
            a = binds.get(up[1]) if binds is not None else None
            if a is None:
                return None
            o = fl.origin(a, nid)
            if o and all(q.kind == "param" for q in o) and len({q.name for q in o}) == 1:
                return init, o[0].name
            return None
    return None


def _intact_params(fl: Flow, e: ast.AST, nid: int, fuel: int = 6, root: Flow | None = None) -> set[str]:
    """Parameters of the function whose *whole* text is part of the string `e` builds: the parameter itself, a formatted
    value of an f-string, an operand of `+` / `%`, an argument of `str()` / `.format()` / `.join()` -- through locals.
    A slice, a hash, a length, an attribute of the parameter do not carry it whole."""
    out: set[str] = set()
    root = root or fl
    if isinstance(e, ast.Name) and isinstance(e.ctx, ast.Load):
        for o in fl.origin(e, nid, through_helpers=False):
            if o.kind == "param" and o.flow is root:
                out.add(o.name)
            elif o.kind == "expr" and o.node is not None and o.nid is not None and o.node is not e and fuel > 0:
                out |= _intact_params(o.flow, o.node, o.nid, fuel - 1, root)
        return out
    if isinstance(e, ast.JoinedStr):
        for v in e.values:
            if isinstance(v, ast.FormattedValue) and v.format_spec is None:
                out |= _intact_params(fl, v.value, nid, fuel, root)
        return out
    if isinstance(e, ast.BinOp) and isinstance(e.op, (ast.Add, ast.Mod)):
        return _intact_params(fl, e.left, nid, fuel, root) | _intact_params(fl, e.right, nid, fuel, root)
    if isinstance(e, (ast.Tuple, ast.List)):
        for x in e.elts:
            out |= _intact_params(fl, x, nid, fuel, root)
        return out
    if isinstance(e, ast.Call) and (u(e.func) in ("str", "repr") or (isinstance(e.func, ast.Attribute) and e.func.attr in ("format", "join", "strip"))):
        for a in list(e.args) + [k.value for k in e.keywords] + ([e.func.value] if isinstance(e.func, ast.Attribute) and e.func.attr == "strip" else []):
            out |= _intact_params(fl, a, nid, fuel, root)
        return out
    if isinstance(e, ast.IfExp):
        return _intact_params(fl, e.body, nid, fuel, root) & _intact_params(fl, e.orelse, nid, fuel, root)
    return out


def _name_leaves(flow: Any, nid: int, expr: ast.AST, fuel: int = 8) -> list[tuple[Any, int, ast.AST]]:
    """The parts a computed name is made of: formatted values of f-strings, operands of `+` / `%`, arguments of str() /
    format() / join(), alternatives of conditional expressions, locals and helper parameters followed back."""
    from .c13 import origin_x

    out: list[tuple[Any, int, ast.AST]] = []
    for alt in select_ifexp(expr, lambda e: None):
        if isinstance(alt, ast.JoinedStr):
            for v in alt.values:
                if isinstance(v, ast.FormattedValue):
                    out.extend(_name_leaves(flow, nid, v.value, fuel))
        elif isinstance(alt, ast.BinOp) and isinstance(alt.op, (ast.Add, ast.Mod)):
            out.extend(_name_leaves(flow, nid, alt.left, fuel) + _name_leaves(flow, nid, alt.right, fuel))
        elif isinstance(alt, (ast.Tuple, ast.List)):
            for x in alt.elts:
                out.extend(_name_leaves(flow, nid, x, fuel))
        elif isinstance(alt, ast.Call) and (u(alt.func) in ("str", "repr") or (isinstance(alt.func, ast.Attribute) and alt.func.attr in ("format", "join"))):
            for a in list(alt.args) + [k.value for k in alt.keywords]:
                out.extend(_name_leaves(flow, nid, a, fuel))
        elif isinstance(alt, ast.Constant):
            continue
        elif isinstance(alt, ast.Name) and fuel > 0:
            for o in origin_x(flow, alt, nid):
                if o.kind == "expr" and o.node is not None and o.nid is not None and o.node is not alt:
                    out.extend(_name_leaves(o.flow, o.nid, o.node, fuel - 1))
                else:
                    out.append((o.flow, o.nid if o.nid is not None else nid, alt))
        else:
            out.append((flow, nid, alt))
    return out


def _is_token_value(flow: Any, nid: int, e: ast.AST) -> bool:
    """`e` is an element of a traversal (loop / comprehension variable): the engine a token carries."""
    from .c13 import origin_x

    o = origin_x(flow, e, nid) if isinstance(e, ast.Name) else []
    return bool(o) and all(q.kind == "iter" for q in o)


def _identity_key(flow: Any, nid: int, k: ast.AST) -> bool:
    """`id(<engine>)` or the engine object itself (through a local)."""
    from .c13 import origin_x

    if isinstance(k, ast.Call) and u(k.func) == "id" and len(k.args) == 1 and not k.keywords:
        return _is_token_value(flow, nid, k.args[0])
    if isinstance(k, ast.Name):
        if _is_token_value(flow, nid, k):
            return True
        o = origin_x(flow, k, nid)
        return bool(o) and all(q.kind == "expr" and q.node is not None and q.nid is not None and q.node is not k
                               and _identity_key(q.flow, q.nid, q.node) for q in o)
    return False


def _keyed_lookup(e: ast.AST) -> tuple[ast.AST, ast.AST] | None:
    """(map, key) of `M[k]`, `M.get(k, ...)`, `M.setdefault(k, ...)`."""
    if isinstance(e, ast.Subscript) and isinstance(e.ctx, ast.Load):
        return e.value, e.slice
    if isinstance(e, ast.Call) and isinstance(e.func, ast.Attribute) and e.func.attr in ("get", "setdefault", "__getitem__") and e.args:
        return e.func.value, e.args[0]
    return None


def operand_keys(prog: Program) -> list[dict[str, Any]]:
    """For every push_metric both build() methods can execute: what the key (first argument) is made of, and which parts
    of it depend on the *identity* of the operand engine -- a lookup keyed by id(engine) / the engine, or id(engine) itself."""
    from .c13 import push_sites

    pm = prog.func(f"{ENGINE}:FormulaBuilder.push_metric")
    pparams = [p for p in pm.params if p != "self"]
    out: list[dict[str, Any]] = []
    for cname in ("HigherOrderFormulaBuilder", "HigherOrderFormulaBuilder3Phase"):
        b = prog.func(f"{ENGINE}:{cname}.build")
        root, psites = push_sites(prog, b)
        for pfl, nid, c in psites:
            a = positional(c, pparams).get(pparams[0]) if pparams else None
            leaves = _name_leaves(pfl, nid, a) if a is not None else []
            ident: list[tuple[Any, int, ast.AST, ast.AST | None]] = []  # (flow, node, leaf, map | None)
            by_attr: list[str] = []
            for f2, n2, leaf in leaves:
                lk = _keyed_lookup(leaf)
                if lk is not None and _identity_key(f2, n2, lk[1]):
                    ident.append((f2, n2, leaf, lk[0]))
                elif isinstance(leaf, ast.Call) and _identity_key(f2, n2, leaf):
                    ident.append((f2, n2, leaf, None))
                elif isinstance(leaf, ast.Attribute) and _is_token_value(f2, n2, leaf.value):
                    by_attr.append(u(leaf))
            out.append({"build": b, "root": root, "flow": pfl, "nid": nid, "call": c, "arg": a, "leaves": leaves, "ident": ident, "by_attr": by_attr})
    return out


def _provider_findings(prog: Program, fl: Flow, d_nodes: set[int] | None = None) -> tuple[int, list[tuple[str, ast.AST | None]]]:
    """The map that hands out the names (a dict filled in the function of `fl`): (number of stores judged, findings).
    Injective by construction -- a store of a name is unreachable while "that name is already in use" holds -- and stable --
    unreachable while "this engine already has a name" holds (or written with setdefault) -- and keyed by identity."""
    cfg = fl.cfg
    findings: list[tuple[str, ast.AST | None]] = []
    stores: list[tuple[int, ast.AST, ast.AST, ast.AST, bool]] = []  # (node, map, key, value, keeps first)
    for n in cfg.nodes:
        if n.id not in fl.live or n.ast is None:
            continue
        if n.kind == "stmt" and isinstance(n.ast, (ast.Assign, ast.AnnAssign)) and n.ast.value is not None:
            for t in (n.ast.targets if isinstance(n.ast, ast.Assign) else [n.ast.target]):
                if isinstance(t, ast.Subscript):
                    stores.append((n.id, t.value, t.slice, n.ast.value, False))
        for part in own_parts(n):
            for x in ast.walk(part):
                if isinstance(x, ast.Call) and isinstance(x.func, ast.Attribute) and x.func.attr == "setdefault" and len(x.args) == 2:
                    stores.append((n.id, x.func.value, x.args[0], x.args[1], True))
                if isinstance(x, ast.DictComp) and any(isinstance(r.ast, ast.Return) for r in [n]):
                    findings.append((f"the names are made by a comprehension `{u(x)[:70]}`: nothing compares a name with the names already handed out", x))
    # the maps in question: the given ones (by the expression that made them), else the ones that are returned
    wanted: set[int] = set(d_nodes or ())
    if d_nodes is None:
        for r in fl.returns():
            v = cfg.nodes[r].ast.value  # type: ignore[union-attr]
            if v is not None:
                wanted |= {id(o.node) for o in fl.origin(v, r, through_helpers=False) if o.kind == "expr" and o.node is not None}
    stores = [st for st in stores if isinstance(st[1], ast.Name) and any(
        o.kind == "expr" and id(o.node) in wanted for o in fl.origin(st[1], st[0], through_helpers=False))]
    judged = 0
    for sn, m, key, val, keeps_first in stores:
        judged += 1
        assert isinstance(m, ast.Name)
        if not _identity_key(fl, sn, key):
            findings.append((f"`{u(m)}[{u(key)}]` is not keyed by the identity of the engine (id(engine) / the engine object)", key))
            continue
        ktxt, vtxt, mtxt = u(key), u(val), m.id

        map_nodes = {id(q.node) for q in fl.origin(m, sn, through_helpers=False) if q.kind == "expr" and q.node is not None}

        def is_pool(flow: Any, c: ast.AST, nid: int, name_txt: str, fuel: int = 4) -> bool:
            """`c` denotes the names in use: the live `M.values()` view (or a set / list / tuple made of it), directly, through a
            local or through a helper's parameter bound to it; or a collection the function itself adds every stored name to."""
            t = u(c).replace(" ", "")
            if t in (f"{mtxt}.values()", f"set({mtxt}.values())", f"list({mtxt}.values())", f"tuple({mtxt}.values())", f"frozenset({mtxt}.values())"):
                return True
            inner = c.args[0] if isinstance(c, ast.Call) and u(c.func) in ("set", "list", "tuple", "frozenset") and len(c.args) == 1 else c
            if isinstance(inner, ast.Call) and isinstance(inner.func, ast.Attribute) and inner.func.attr == "values" and not inner.args \
                    and isinstance(inner.func.value, ast.Name):
                # `.values()` of the map under another name (a local alias, the parameter of a helper that was handed the map)
                mo = flow.origin(inner.func.value, nid, through_helpers=False)
                if mo and all(q.kind == "expr" and id(q.node) in map_nodes for q in mo):
                    return True
            if isinstance(c, ast.Name) and c.id != mtxt:
                if any(isinstance(x, ast.Call) and isinstance(x.func, ast.Attribute) and x.func.attr in ("add", "append") and u(x.func.value) == c.id
                       and len(x.args) == 1 and u(x.args[0]) == name_txt for x in ast.walk(flow.fn.node)):
                    return True
                o = flow.origin(c, nid, through_helpers=False) if fuel > 0 else []
                return bool(o) and all(q.kind == "expr" and q.node is not None and q.nid is not None and q.node is not c
                                       and is_pool(q.flow, q.node, q.nid, name_txt, fuel - 1) for q in o)
            return False

        def in_use_of(flow: Any, name_txt: str) -> Any:
            def in_use(e: ast.AST, nid: int) -> bool | None:
                """`<the stored name> in <names in use>`"""
                if isinstance(e, ast.Compare) and len(e.ops) == 1 and isinstance(e.ops[0], (ast.In, ast.NotIn)) and u(e.left) == name_txt \
                        and is_pool(flow, e.comparators[0], nid, name_txt):
                    return isinstance(e.ops[0], ast.In)
                return None
            return in_use

        in_use = in_use_of(fl, vtxt)

        def fresh_from_helper() -> bool:
            """The stored name is what a private helper returns, and the helper was handed the names in use: every return of
            the helper is unreachable while "the returned name is in <that parameter>" holds."""
            call = unawait_call(val)
            ch = fl.child(call, sn) if call is not None else None
            if ch is None:
                return False
            rets = ch.returns()
            for r in rets:
                rv = ch.cfg.nodes[r].ast.value  # type: ignore[union-attr]
                if not isinstance(rv, ast.Name):
                    return False
                if ch.cfg.path(ch.cfg.entry, [r], edge_ok=pruned(ch.cfg, lifted(ch, in_use_of(ch, rv.id)))) is not None:
                    return False
            return bool(rets)

        def has_name(e: ast.AST, _nid: int) -> bool | None:
            """`<this engine's key> in <the map>`"""
            if isinstance(e, ast.Compare) and len(e.ops) == 1 and isinstance(e.ops[0], (ast.In, ast.NotIn)) and u(e.left) == ktxt \
                    and u(e.comparators[0]).replace(" ", "") in (mtxt, f"{mtxt}.keys()"):
                return isinstance(e.ops[0], ast.In)
            return None

        if cfg.path(cfg.entry, [sn], edge_ok=pruned(cfg, lifted(fl, in_use))) is not None and not fresh_from_helper():
            findings.append((f"`{u(m)}[{ktxt}] = {vtxt}` can be reached with `{vtxt}` already handed to another engine: no test of the name "
                             f"against the names in use (`{vtxt} in {mtxt}.values()`) stands between the choice of the name and the store", val))
        if not keeps_first and cfg.path(cfg.entry, [sn], edge_ok=pruned(cfg, lifted(fl, has_name))) is not None:
            findings.append((f"`{u(m)}[{ktxt}] = {vtxt}` can be reached for an engine that already has a name (`{ktxt} in {mtxt}` is not "
                             "looked up first): an engine used twice gets two names, i.e. two fetchers on one stream", key))
    return judged, findings


IDENT_TEXT = ("FormulaBuilder.push_metric keeps ONE MetricFetcher per key, so inside a composition the key is the operand's identity: two "
              "different engines under one key are read as the same operand (`p / v` with both engines named '#4' emits 1.0, `f1 - f2` "
              "emits 0), an engine under two keys is fetched twice per round.  Names are not identities -- FormulaEnginePool names every "
              "string formula by its text whatever the metric, users build engines under any name they like")


def check_ident(run: Run, prog: Program) -> None:
    """C05.IDENT ("every expression tree built through the Python operator/method API"): both build() methods push an operand
    engine's stream under a key that separates different engines -- derived through a lookup keyed by id(engine) / the engine
    object (or id(engine) itself), not only from an attribute two engines can share -- and the map that provides the names is
    injective and stable by construction."""
    sites = operand_keys(prog)
    if not sites:
        raise AnalysisError("C05.IDENT: no push_metric() reachable from the build() methods")
    judged_providers: set[int] = set()
    for st in sites:
        b, c = st["build"], st["call"]
        run.analysed(b.qual)
        inst = f"{b.qual}: the key of `{u(c.func)}` depends on the operand engine's identity"
        run.check(bool(st["ident"]), "C05.IDENT", b.qual, f"key of the operand stream `{u(st['arg'])[:60]}`",
                  f"the stream of an operand engine is pushed under `{u(st['arg'])[:80]}`, which depends on the engine only through "
                  f"{st['by_attr'] or 'nothing'} -- an attribute any two engines can share: {IDENT_TEXT}.  The key has to come out of a "
                  "lookup by id(engine) / by the engine object (a per-build table of names), or contain id(engine)",
                  node=c, file=st["flow"].fn.file, instance=inst)
        for f2, n2, leaf, m in st["ident"]:
            if m is None:
                continue
            # who fills the map
            from .c13 import origin_x

            provs: list[tuple[Flow, set[int] | None]] = []
            for o in (origin_x(f2, m, n2) if isinstance(m, ast.Name) else []):
                call = unawait_call(o.node) if o.kind == "expr" else None
                tgt = private_callee(prog, o.flow.fn, call) if call is not None else None
                if tgt is not None:
                    provs.append((Flow(prog, tgt), None))
                elif o.kind == "expr" and (isinstance(o.node, (ast.Dict, ast.DictComp)) or (isinstance(o.node, ast.Call) and u(o.node.func) in ("dict", "defaultdict"))):
                    provs.append((o.flow, {id(o.node)}))
            if not provs:
                run.violation("C05.IDENT", b.qual, f"provider of `{u(m)}`",
                              f"cannot see who fills `{u(m)}`, the table the operand keys are read from (`{u(leaf)[:60]}`): whether a name is "
                              "handed to two engines cannot be judged", node=leaf, file=f2.fn.file)
                continue
            for pfl, dn in provs:
                if id(pfl.fn.node) in judged_providers:
                    continue
                judged_providers.add(id(pfl.fn.node))
                run.analysed(pfl.fn.qual)
                judged, findings = _provider_findings(prog, pfl, dn)
                if not judged and not findings:
                    findings = [(f"{pfl.fn.name}() never stores a name under an engine's identity", None)]
                import re as _re

                findings = [(_re.sub(r"__[A-Za-z_]+\d+\b", "", t_), n_) for t_, n_ in findings]  # (suffixes of the splicer's renamed locals)
                run.check(not findings, "C05.IDENT", pfl.fn.qual, "names by identity: one per engine, never one for two engines",
                          (f"{findings[0][0]}" + (f" (and {len(findings) - 1} more)" if len(findings) > 1 else "") + f".  {IDENT_TEXT}") if findings else "",
                          node=(findings[0][1] if findings and findings[0][1] is not None else pfl.fn.node), file=pfl.fn.file,
                          instance=f"{pfl.fn.qual}: a name in use is never handed out again; an engine keeps its name")


def unawait_call(e: ast.AST | None) -> ast.Call | None:
    while isinstance(e, ast.Await):
        e = e.value
    return e if isinstance(e, ast.Call) else None


def check_names(run: Run, prog: Program) -> None:
    """C05.POOL (engine names) -- "every expression tree built through the Python operator/method API of formula engines":
    HigherOrderFormulaBuilder.build() registers each operand engine under that engine's *name*
    (`push_metric(<operand>._name, <operand>.new_receiver(), ...)`) and FormulaBuilder.push_metric keeps one MetricFetcher
    per name (C05.EVAL), so inside a composition an engine's name IS its identity: two operands with one name are read
    as the same operand and `f1 - f2` evaluates `f1 - f1`.  Whoever makes engines from formula strings and computes
    their names himself therefore has to put the formula text, whole, into the name handed to the builder (clause:
    every parameter that reaches from_string's formula argument is an intact part of the name); a name supplied by the
    caller is the caller's contract."""
    from ..engine.normalize import _bind

    # premise, read from the code: operands of a composition are keyed by a name attribute of the operand engine alone
    # (when the keys depend on the engines' identity -- C05.IDENT -- names are free and this clause is vacuous)
    keyed_by_name = False
    key_txt = ""
    for st in operand_keys(prog):
        named = [t for t in st["by_attr"] if "name" in t.lower()]
        if named and not st["ident"]:
            keyed_by_name = True
            key_txt = named[0]
    rfb = prog.cls(f"{RFB}:ResampledFormulaBuilder")
    fs = prog.resolve_method(rfb, "from_string")
    if fs is None:
        raise AnalysisError(f"{rfb.qual}.from_string not found")
    if not keyed_by_name:
        run.ok("C05.POOL", "compositions key their operand engines by identity (C05.IDENT), not by name alone: engine names are free")
        return
    bound = _name_attr_param(prog, rfb)
    if bound is None:
        raise AnalysisError(f"{rfb.qual}: cannot tell which constructor parameter becomes the engine's name (C05.POOL names)")
    init, pname = bound
    fparams = [p for p in fs.params if p != "self"]
    policy = {p for p in fparams if "none" in p.lower() or "zero" in p.lower()}
    callers = 0
    for fn in list(prog.all_functions()):
        if fn.module is rfb.module or not find_ctor(prog, fn, rfb):
            continue
        fl = Flow(prog, fn)
        for fnid, fcall in fl.calls(lambda c: isinstance(c.func, ast.Attribute) and c.func.attr == "from_string"):
            bo = fl.origin(fcall.func.value, fnid)  # type: ignore[union-attr]
            ctors = [q for q in bo if q.call() is not None and isinstance(q.call().func, (ast.Name, ast.Subscript))  # type: ignore[union-attr]
                     and prog.resolve_name(fn.module, u(q.call().func).split("[")[0]) is rfb]  # type: ignore[union-attr]
            if not ctors or len(ctors) != len(bo):
                continue
            callers += 1
            run.analysed(fn.qual)
            fa = positional(fcall, fparams)
            text_params: set[str] = set()
            for k_, a in fa.items():
                if k_ not in policy:
                    text_params |= param_deps(fl, a, fnid)
            text_params.discard("self")
            for q in ctors:
                ctor = q.call()
                assert ctor is not None
                binds = _bind(init.node, ctor)
                narg = binds.get(pname) if binds is not None else None
                inst = f"{fn.qual}: the engine's name carries the formula text"
                if narg is None:
                    raise AnalysisError(f"{fn.qual}: cannot read the `{pname}` argument of `{u(ctor)[:60]}`")
                no = q.flow.origin(narg, q.nid)
                if no and all(x.kind == "param" and x.name not in text_params for x in no):
                    run.ok("C05.POOL", f"{fn.qual}: the engine's name is supplied by the caller")
                    continue
                have = _intact_params(q.flow, narg, q.nid, root=fl)  # type: ignore[arg-type]
                missing = sorted(text_params - have)
                run.check(not missing, "C05.POOL", fn.qual, f"name of the engine built from a formula string: `{u(narg)[:60]}`",
                          f"the engine built from the formula string is named `{u(narg)[:80]}` -- made from {sorted(have) or 'no parameter'} -- "
                          f"while the expression it evaluates is selected by {sorted(text_params)}: nothing makes the names of the engines built for two "
                          f"different values of {' / '.join(missing)} differ.  A composition keys its operands by exactly that name "
                          f"(HigherOrderFormulaBuilder.build: push_metric({key_txt}, ...), one MetricFetcher per name), so when two such "
                          "engines are combined with + - * / min max the second operand is read from the FIRST one's stream: f1 - f2 "
                          "emits 0, f1 / f2 emits 1, max(f2, f1) emits f2 -- well-formed samples of the wrong expression.  The name "
                          "is not cosmetic: it has to contain the formula text whole (a constant, the metric id alone, a truncated "
                          "text, a per-pool label are the same mistake; a digest of the text is not followed and reported as well)",
                          node=narg, file=fn.file, instance=inst)
    if not callers:
        raise AnalysisError(f"no caller of {rfb.qual}(...).from_string(...) found: the entry point of the formula-string path moved")


def find_ctor(prog: Program, fn: FuncInfo, cls: ClassInfo) -> bool:
    if cls.name not in fn.module.source:
        return False
    return any(isinstance(c, ast.Call) and isinstance(c.func, (ast.Name, ast.Subscript)) and u(c.func).split("[")[0] in fn.module.imports | fn.module.classes.keys()
               and prog.resolve_name(fn.module, u(c.func).split("[")[0]) is cls for c in ast.walk(fn.node))


def build_controls(prog: Program) -> list[tuple[str, str, str, str, str]]:
    """Seeded in-memory controls cut out of the live source at structurally located anchors."""
    import re

    from .c06 import interchange_patch

    out: list[tuple[str, str, str, str, str]] = []

    def add(name: str, module: str, patch: tuple[str, str] | None, rule: str) -> None:
        if patch is not None:
            out.append((name, module, patch[0], patch[1], rule))

    def walk(fn: Any, typ: Any) -> list[Any]:
        return [x for x in ast.walk(fn.node) if isinstance(x, typ)]

    eng = prog.module(ENGINE)
    # PREC: two precedences swapped in the table
    tab = eng.assigns.get("_operator_precedence")
    if isinstance(tab, ast.Dict):
        vals = {k.value: v for k, v in zip(tab.keys, tab.values) if isinstance(k, ast.Constant) and isinstance(v, ast.Constant)}
        if "*" in vals and "-" in vals:
            a, b = vals["*"].value, vals["-"].value

            def swap(t: str, a: Any = a, b: Any = b) -> str:
                t = re.sub(r'(["\']\*["\']\s*:\s*)' + str(a) + r"\b", r"\g<1>@@B@@", t)
                t = re.sub(r'(["\']-["\']\s*:\s*)' + str(b) + r"\b", r"\g<1>" + str(a), t)
                return t.replace("@@B@@", str(b))

            add("two precedences swapped", ENGINE, src_patch(eng, tab.lineno, tab.end_lineno or tab.lineno, swap), "C05.PREC")
    # PREC: `<` -> `<=` in the unwinding loop
    fb = prog.cls(f"{ENGINE}:FormulaBuilder")
    done = False
    for m in fb.methods.values():
        for w in walk(m, ast.While):
            for c in (x for x in ast.walk(w) if isinstance(x, ast.Compare) and len(x.ops) == 1 and "_operator_precedence" in u(x)
                      and isinstance(x.ops[0], (ast.Lt, ast.Gt))):
                l, r = seg(eng, c.left), seg(eng, c.comparators[0])
                sym = "<=" if isinstance(c.ops[0], ast.Lt) else ">="
                add("< became <= in the unwinding loop", ENGINE, stmt_patch(m, c, lambda t, c=c, l=l, r=r, sym=sym: t.replace(seg(eng, c), f"{l} {sym} {r}", 1)), "C05.PREC")
                done = True
                break
            if done:
                break
        if done:
            break
    # STEP: operands swapped in Subtractor
    sub = prog.func(f"{STEPS}:Subtractor.apply")
    for x in walk(sub, ast.BinOp):
        if isinstance(x.op, ast.Sub):
            l, r = seg(sub.module, x.left), seg(sub.module, x.right)
            add("operands swapped in Subtractor", STEPS, stmt_patch(sub, x, lambda t, x=x, l=l, r=r: t.replace(seg(sub.module, x), f"{r} - {l}", 1)), "C05.STEP")
            break
    # TAB: minus mapped to Adder
    po = prog.func(f"{ENGINE}:FormulaBuilder.push_oper")
    for c in walk(po, ast.Call):
        if u(c.func) == "Subtractor":
            add("minus mapped to Adder", ENGINE, stmt_patch(po, c, lambda t: t.replace("Subtractor(", "Adder(", 1)), "C05.TAB")
            break
    # PAREN: the left parenthesis around the current expression is dropped; a builder operand is not parenthesised
    ho = prog.cls(f"{ENGINE}:_BaseHOFormulaBuilder")
    push = push_helper(prog)
    left = None
    for m in ([push] if push is not None else []) + [x for x in ho.methods.values() if x is not push]:
        for st in walk(m, ast.Expr):
            if isinstance(st.value, ast.Call) and method_call(st.value, "self._steps", "appendleft"):
                left = (m, st)
                break
        if left:
            break
    if left is not None:
        m, st = left
        add("left paren dropped in _push", ENGINE, stmt_patch(m, st, lambda t: f"{indent_of(t)}pass\n"), "C05.PAREN")
    if push is not None:
        parents = {ch: par for par in ast.walk(push.node) for ch in ast.iter_child_nodes(par)}
        for st in walk(push, ast.Expr):
            if isinstance(st.value, ast.Call) and method_call(st.value, "self._steps", "extend"):
                suite = getattr(parents.get(st), "body", [])
                opens = [x for x in suite if isinstance(x, ast.Expr) and isinstance(x.value, ast.Call) and method_call(
                    x.value, "self._steps", "append") and '"("' in u(x.value).replace("'", '"') and x.lineno < st.lineno]
                if opens:
                    add("builder operand not parenthesised", ENGINE, stmt_patch(push, opens[-1], lambda t: f"{indent_of(t)}pass\n"), "C05.PAREN")
                break
    # PAREN: a scalar divisor folded into the previously recorded one (x / c / d -> x / (c / d))
    if push is not None and len(push.params) >= 3:
        body = [b for b in push.node.body if not (isinstance(b, ast.Expr) and isinstance(b.value, ast.Constant))]
        if body:
            first = body[0]
            ind = " " * first.col_offset
            op_, ot_ = push.params[1], push.params[2]
            fold = (f'{ind}if {op_} == "/" and isinstance({ot_}, float) and len(self._steps) > 2 and self._steps[-2] == (TokenType.OPER, "/") '
                    f'and self._steps[-1][0] == TokenType.CONSTANT:\n'
                    f'{ind}    self._steps.append((TokenType.CONSTANT, self._steps.pop()[1] / {ot_}))\n'
                    f'{ind}    return self\n')
            add("scalar divisor folded into the previous one", ENGINE, src_patch(eng, first.lineno, first.lineno, lambda t, fold=fold: fold + t), "C05.PAREN")
    # VALUE: an operator applied in place (the clone is skipped); a clone that shares the token deque
    for mname in ("__sub__", "max", "__add__"):
        m_ = ho.methods.get(mname)
        if m_ is None:
            continue
        clones = [c for c in walk(m_, ast.Call) if isinstance(c.func, ast.Attribute) and u(c.func.value) == "self" and not c.args and not c.keywords
                  and c.func.attr.startswith("_") and prog.resolve_method(ho, c.func.attr) is not None]
        if not clones:
            continue
        c0 = clones[0]
        ctxt = seg(eng, c0)
        add(f"`{mname}` applied in place", ENGINE, stmt_patch(m_, c0, lambda t, ctxt=ctxt: t.replace(ctxt, "self", 1)), "C05.VALUE")
        cl = prog.resolve_method(ho, c0.func.attr)  # type: ignore[union-attr]
        if cl is not None:
            for a_ in walk(cl, ast.Assign):
                if len(a_.targets) == 1 and isinstance(a_.targets[0], ast.Attribute) and a_.targets[0].attr == "_steps" and u(a_.targets[0].value) != "self":
                    add("the clone shares the token deque", ENGINE, stmt_patch(cl, a_, lambda t: f"{indent_of(t)}pass\n"), "C05.VALUE")
                    break
        break
    # IDENT: operand streams keyed by the engines' names again; the name table hands a name in use out again
    pm_params = [p_ for p_ in prog.func(f"{ENGINE}:FormulaBuilder.push_metric").params if p_ != "self"]
    hb0 = prog.func(f"{ENGINE}:HigherOrderFormulaBuilder.build")
    for c in walk(hb0, ast.Call):
        if isinstance(c.func, ast.Attribute) and c.func.attr == "push_metric" and pm_params:
            a0 = positional(c, pm_params).get(pm_params[0])
            ids = [x for x in ast.walk(a0) if isinstance(x, ast.Call) and u(x.func) == "id" and len(x.args) == 1] if a0 is not None else []
            if a0 is not None and ids and hasattr(a0, "lineno"):
                atxt, vtxt = seg(eng, a0), seg(eng, ids[0].args[0])
                add("operand streams keyed by the engine's name", ENGINE, src_patch(
                    eng, a0.lineno, a0.end_lineno or a0.lineno, lambda t, atxt=atxt, vtxt=vtxt: t.replace(atxt, f"{vtxt}._name", 1)), "C05.IDENT")
            break
    for m_ in ho.methods.values():
        wh = [w for w in walk(m_, ast.While) if isinstance(w.test, ast.Compare) and len(w.test.ops) == 1 and isinstance(w.test.ops[0], ast.In)
              and ".values()" in u(w.test.comparators[0])]
        if wh:
            ttxt = seg(eng, wh[0].test)
            add("a name in use is handed out again", ENGINE, src_patch(
                eng, wh[0].lineno, wh[0].test.end_lineno or wh[0].lineno, lambda t, ttxt=ttxt: t.replace(ttxt, "False", 1)), "C05.IDENT")
            break
    # TAB: the three-phase build() loses its branch for constants
    hb3 = prog.func(f"{ENGINE}:HigherOrderFormulaBuilder3Phase.build")
    for cmp_ in walk(hb3, ast.Compare):
        if "TokenType.CONSTANT" in u(cmp_):
            ctxt = seg(eng, cmp_)
            add("three-phase build() drops constant tokens", ENGINE, src_patch(
                eng, cmp_.lineno, cmp_.end_lineno or cmp_.lineno, lambda t, ctxt=ctxt: t.replace(ctxt, "False", 1)), "C05.TAB")
            break
    # POOL: the cache of string formulas keyed by the formula text alone
    rfb_cls = prog.cls(f"{RFB}:ResampledFormulaBuilder")
    for fn_ in prog.all_functions():
        if fn_.module is rfb_cls.module or not find_ctor(prog, fn_, rfb_cls):
            continue
        fcalls = [c for c in ast.walk(fn_.node) if isinstance(c, ast.Call) and isinstance(c.func, ast.Attribute) and c.func.attr == "from_string" and c.args]
        keys = [a for a in ast.walk(fn_.node) if isinstance(a, ast.Assign) and len(a.targets) == 1 and isinstance(a.targets[0], ast.Name)
                and any(isinstance(x, ast.Subscript) and isinstance(x.slice, ast.Name) and x.slice.id == a.targets[0].id for x in ast.walk(fn_.node))]
        if fcalls and keys:
            ftxt = seg(fn_.module, fcalls[0].args[0])
            k = keys[0]
            add("string-formula cache keyed by the text alone", fn_.module.name, stmt_patch(
                fn_, k, lambda t, k=k, ftxt=ftxt: f"{indent_of(t)}{k.targets[0].id} = {ftxt}\n"), "C05.POOL")
            break
    # POOL (names): every string-formula engine gets the same name
    for fn_ in prog.all_functions():
        if fn_.module is rfb_cls.module or not find_ctor(prog, fn_, rfb_cls):
            continue
        if not any(isinstance(c, ast.Call) and isinstance(c.func, ast.Attribute) and c.func.attr == "from_string" for c in ast.walk(fn_.node)):
            continue
        bound = _name_attr_param(prog, rfb_cls)
        if bound is None or any(st["ident"] for st in operand_keys(prog)):
            break  # (with identity-keyed operands the names are free: nothing to fire)
        from ..engine.normalize import _bind as _bind_args
        done_n = False
        for c in (c for c in ast.walk(fn_.node) if isinstance(c, ast.Call) and isinstance(c.func, (ast.Name, ast.Subscript))
                  and prog.resolve_name(fn_.module, u(c.func).split("[")[0]) is rfb_cls):
            b_ = _bind_args(bound[0].node, c)
            narg = b_.get(bound[1]) if b_ is not None else None
            if narg is None or not hasattr(narg, "lineno"):
                continue
            txt = seg(fn_.module, narg)
            kw = next((k for k in c.keywords if k.value is narg), None)

            def rename(t: str, txt: str = txt, kw: Any = kw) -> str:
                if kw is not None:
                    return t.replace(f"{kw.arg}={txt}", f'{kw.arg}="string-formula"', 1)
                return t.replace(txt, '"string-formula"', 1)

            add("every string formula gets the same engine name", fn_.module.name,
                src_patch(fn_.module, narg.lineno, narg.end_lineno or narg.lineno, rename), "C05.POOL")
            done_n = True
            break
        if done_n:
            break
    # EVAL: steps applied in reverse
    ev = prog.cls(f"{EVAL}:FormulaEvaluator")
    done = False
    for m in ev.methods.values():
        for f in walk(m, ast.For):
            if u(f.iter) == "self._steps":
                add("steps applied in reverse", EVAL, src_patch(m.module, f.lineno, f.iter.end_lineno or f.lineno,
                                                          lambda t: t.replace("self._steps", "reversed(self._steps)", 1)), "C05.EVAL")
                done = True
                break
        if done:
            break
    # EVAL: the result is "tidied" before it is wrapped (rounded to micro-units)
    done = False
    for m in ev.methods.values():
        for c in walk(m, ast.Call):
            if u(c.func) in ("self._create_method", "self._create") and len(c.args) == 1 and not c.keywords:
                atxt, ctxt = seg(m.module, c.args[0]), seg(m.module, c)
                if atxt and ctxt:
                    add("result rounded before it is emitted", EVAL, stmt_patch(
                        m, c, lambda t, atxt=atxt, ctxt=ctxt: t.replace(ctxt, ctxt.replace(f"({atxt})", f"(round({atxt}, 6))", 1), 1)), "C05.EVAL")
                    done = True
                    break
        if done:
            break
    # TOK: end position taken from a different string
    si = prog.resolve_method(prog.cls(f"{TOK}:StringIter"), "__init__")
    if si is not None:
        for c in walk(si, ast.Call):
            if u(c.func) == "len" and len(c.args) == 1:
                arg = seg(si.module, c.args[0])
                add("end position from the stripped string", TOK, stmt_patch(si, c, lambda t, arg=arg: t.replace(f"len({arg})", f"len({arg}.strip())", 1)), "C05.TOK")
                break
    # TAB / TOK: a blank ends the token stream; an id digit is not consumed; the position is not advanced; the
    # composition API drops operator tokens
    tkn = prog.func(f"{TOK}:Tokenizer.__next__")
    for st_ in (x for x in ast.walk(tkn.node) if isinstance(x, ast.Continue)):
        add("a blank ends the token stream", TOK, stmt_patch(tkn, st_, lambda t: f"{indent_of(t)}break\n"), "C05.TAB")
        break
    tcls = prog.cls(f"{TOK}:Tokenizer")
    done_d = False
    for m in tcls.methods.values():
        for st_ in (x for x in ast.walk(m.node) if isinstance(x, ast.Expr) and isinstance(x.value, ast.Call)
                    and u(x.value.func) == "next" and len(x.value.args) == 1 and u(x.value.args[0]) == "self._formula"):
            add("id digit not consumed", TOK, stmt_patch(m, st_, lambda t: f"{indent_of(t)}pass\n"), "C05.TOK")
            done_d = True
            break
        if done_d:
            break
    sn = prog.resolve_method(prog.cls(f"{TOK}:StringIter"), "__next__")
    if sn is not None:
        for st_ in (x for x in ast.walk(sn.node) if isinstance(x, ast.AugAssign)):
            add("position not advanced", TOK, stmt_patch(sn, st_, lambda t: f"{indent_of(t)}pass\n"), "C05.TOK")
            break
    hb = prog.func(f"{ENGINE}:HigherOrderFormulaBuilder.build")
    for st_ in (x for x in ast.walk(hb.node) if isinstance(x, ast.Expr) and isinstance(x.value, ast.Call) and method_call(x.value, None, "push_oper")):
        add("composition drops operator tokens", ENGINE, stmt_patch(hb, st_, lambda t: f"{indent_of(t)}pass\n"), "C05.TAB")
        break
    # FRESH: build() memoised on its arguments while the operators keep mutating the builder
    hb_body = [b_ for b_ in hb.node.body if not (isinstance(b_, ast.Expr) and isinstance(b_.value, ast.Constant))]
    hb_params = [p_ for p_ in hb.params if p_ != "self"]
    if hb_body and hb_params:
        ind = " " * hb_body[0].col_offset
        key_ = ", ".join(hb_params) + ("," if len(hb_params) == 1 else "")
        memo = (f'{ind}if ({key_}) in getattr(self, "_built_engines", {{}}):\n'
                f'{ind}    return self._built_engines[{key_}]\n')
        add("build() answers from a memo of built engines", ENGINE, src_patch(eng, hb_body[0].lineno, hb_body[0].lineno, lambda t, memo=memo: memo + t), "C05.FRESH")
    # shared clauses: a control of the sibling, expected under this property's rule id
    from . import c06 as _c06
    from . import c13 as _c13
    for nm, md, o_, n_, _r in _c13.build_controls(prog):
        if nm == "Consumption with swapped max operands":
            out.append((nm, md, o_, n_, "C05.NAN"))
    for nm, md, o_, n_, _r in _c06.build_controls(prog):
        if nm == "steps before synchronisation":
            out.append((nm, md, o_, n_, "C05.ALIGN"))
    # ALIGN: drain loops of the first-run synchronisation interchanged
    add("drain loops interchanged", EVAL, interchange_patch(prog), "C05.ALIGN")
    if len(out) < 6:
        raise AnalysisError(f"C05: only {len(out)} of 25 seeded controls could be derived from the source ({[o[0] for o in out]})")
    return out


def run_rules(run: Run, prog: Program) -> None:
    check_prec(run, prog)
    check_tab(run, prog)
    check_step(run, prog)
    check_paren(run, prog)
    check_eval(run, prog)
    check_emitted(run, prog)
    check_tok(run, prog)
    check_digits(run, prog)
    check_ho_build(run, prog)
    check_fresh(run, prog)
    check_pool(run, prog)
    check_ident(run, prog)
    check_names(run, prog)
    check_shared(run, prog)
    from .c06 import check_sync as first_run_sync

    first_run_sync(run, prog, rule="C05.ALIGN")


def check(run: Run, prog: Program, tier: str) -> str:
    run.rule("C05.PREC", "shift/reduce matrix obtained by partial evaluation of push_oper is algebraically "
             "legal; parentheses shift/discard correctly; functions bind tightest; reduce continues the loop")
    run.rule("C05.TAB", "tokenizer ⊆ precedence table; table key == repr of the step class pushed for it; "
             "consumers handle every token type")
    run.rule("C05.STEP", "each step computes first-pushed OP last-pushed and leaves exactly one value")
    run.rule("C05.PAREN", "HO builder: X -> ( X ) op Y with Y atom or ( Y' ), for several shapes of Y'; pushes on the resulting "
             "states keep the meaning (held) op operand (left-associative chains, no re-associating rewrite of recorded tokens)")
    run.rule("C05.VALUE", "expressions are values: no operator / method of the composition API changes the token store of the builder it is "
             "applied to or of its operand; what is extended is a clone whose deque is a copy, or a new builder")
    run.rule("C05.IDENT", "both build() methods push an operand engine's stream under a key derived from the engine's identity (lookup by "
             "id(engine) / the engine), and the table of names never hands one name to two engines nor two names to one engine")
    run.rule("C05.EVAL", "all steps applied in order on a fresh stack; one residual; LIFO finalize; shared fetcher")
    run.rule("C05.TOK", "the tokenizer's character iterator reads string[pos] only while pos < len(that same string), from 0")
    run.rule("C05.POOL", "a cache of engines built from formula strings is keyed by every parameter that selects the expression or "
             "its inputs (formula text, metric id, ...), and filled under the key it is read with")
    run.rule("C05.FRESH", "build() of the composition API compiles the token stream the builder holds at that call: no engine is handed "
             "back from a memo that the (in-place) operator methods do not invalidate")
    run.rule("C05.NAN", "an undefined sub-expression (NaN, e.g. from a zero divisor) stays undefined through every enclosing step "
             "(shared with C13.NAN / C13.UNDEF)")
    run.rule("C05.ALIGN", "the values combined by one evaluation belong to one timestamp: the first-run synchronisation advances "
             "every stream of every lagging group (shared with C06.SYNC)")
    run_rules(run, prog)
    if tier == "thorough":
        check_model(run, prog, run.seed, max_ops=5)
    else:
        check_model(run, prog, run.seed, max_ops=2)
    run.floor("C05.PREC", 30)
    run.floor("C05.TAB", 12)
    run.floor("C05.STEP", 10)
    run.floor("C05.PAREN", 70)
    run.floor("C05.EVAL", 6)
    run.floor("C05.VALUE", 8)
    run.floor("C05.IDENT", 2)
    run.floor("C05.TOK", 6)
    run.floor("C05.POOL", 1)
    run.floor("C05.FRESH", 2)
    run.floor("C05.ALIGN", 8)
    run.floor("C05.NAN", 12)
    from ..engine.controls import run_controls

    run_controls(run, [] if run.violations else build_controls(prog), run_rules, tier)
    run.assume("operator-precedence parsing is determined by the pairwise shift/reduce relation; the "
               "'either' cells are re-associations valid in real arithmetic (property: up to rounding)")
    run.undecided("float rounding; tokenizer behaviour on malformed strings")
    run.extra_cov["exhaustive"] = True
    return ("Partial evaluation of the shunting-yard decision list over the literal precedence table "
            "gives the full shift/reduce matrix, compared with the algebraic legality matrix; table / "
            "repr / branch agreement is a sibling rule; operand order is decided by abstract "
            "interpretation with symbolic operands; the builder's parenthesis discipline by abstract "
            "interpretation of its deque effects.")
