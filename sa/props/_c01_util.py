"""C01.GRP -- every battery group reaches the distribution algorithm at most once.

The allocation routine keys everything it keeps per group -- the allocation cells, the reserve table, the deficits --
by the group's inverter set, and it walks the list of component groups it is given once per ENTRY.  An entry that
occurs twice therefore shares one cell and one reserve entry with its twin (the second pass overwrites them) while
the running total of distributed power (the mirror ledger of L1) is bumped once per pass: the group's minimum power
is booked twice and commanded once, the remainder is computed from the inflated total, and set-points + remainder
come to request - that minimum power.  L1 cannot see this (each pass pairs its cell with its booking); it is a
property of the list, i.e. of the code that collects the groups.  Necessary condition, decided here by dataflow:

    the collection that flows into the `components` argument of `distribute_power` holds at most one entry per
    battery group.

The argument is followed backwards -- through parameters to the calling method of the class, through plain locals,
through `self.<method>(...)` to what the method returns -- down to the statements that put entries into the
collection.  A collection is accepted as duplicate-free when it is

  * a set / frozenset / dict (constructor, comprehension, set algebra, `dict.fromkeys`, `.keys()` / `.items()`),
    possibly re-ordered or copied by `sorted` / `list` / `tuple` / `reversed` / `.copy()`, or a parameter annotated
    as a set type;
  * a list grown by `L.append(e)` (`insert`, `+= [e]`, `extend([e])`) where every growth is
      - dominated by a membership test over everything collected so far: `key not in L`, or `key not in S` for a
        collection S that receives the key whenever the entry is added and is not re-created inside the loop, or
      - the one growth of L, executed at most once per item of a loop whose items are themselves duplicate-free
        (recursively) and whose entry is built from the item itself (the item, or a call that takes the item as an
        argument) -- a group LOOKED UP from the item (`map[item]`) is a derived key: several items share it;
  * a comprehension over a duplicate-free collection whose element is built from the item itself;
  * the `.values()` of a local dict every store of which files the entry under the key it was built from.

Anything else is either a finding (the construct that admits a second entry for the same group) or, when the shape
cannot be read, an ANALYSIS-ERROR (fail-closed).
"""
from __future__ import annotations

import ast
from dataclasses import dataclass
from typing import Any

from ..engine.cfg import CFG
from ..engine.report import AnalysisError, Run
from ..engine.resolver import FuncInfo, Program, dotted, walk_no_nested
from ..engine.util import find_calls, method_call, node_writes, reaching_defs, u

RULE = "C01.GRP"
ORDER_ONLY = ("sorted", "list", "tuple", "reversed", "iter")
"""Builtins that re-order / copy a collection and keep every entry as often as it was there."""
SET_CTORS = ("set", "frozenset")
SET_METHODS = ("union", "intersection", "difference", "symmetric_difference", "keys", "items")
SET_ANNOTATIONS = ("set", "frozenset", "Set", "FrozenSet", "AbstractSet", "MutableSet", "KeysView", "ItemsView",
                   "dict", "Dict", "Mapping", "MutableMapping")
MAX_DEPTH = 6

WHY = ("the allocation routine keeps one allocation cell and one reserve entry per inverter set but books the "
       "distributed power once per entry of the list it is given: a group that is in the list twice is commanded its "
       "minimum (exclusion-bound) power once and has it booked twice, so set-points + remainder = request - that "
       "minimum power, and the manager reports as set what was never commanded")
DEMAND = ("Demanded: the groups are collected in a set / frozenset / dict keyed by the group, or every entry is added "
          "under `group not in <everything collected so far>` (the list itself, or a seen-set filled with every group "
          "that is added and created outside the loop).  Excluded alike: comparing with the previous / a neighbouring "
          "entry only (uniq-style, right only when the batteries of a group are adjacent in the iteration order), a list "
          "comprehension or a plain loop over the batteries that looks the group up per battery, the `.values()` of the "
          "battery -> group map, a seen-set that is never filled or is re-created in the loop")


@dataclass
class Finding:
    fn: FuncInfo
    node: ast.AST
    construct: str
    message: str


def _strip(e: ast.AST) -> ast.AST:
    """The collection under order-only wrappers: `sorted(X, key=...)`, `list(X)`, `X.copy()`, `copy.copy(X)`."""
    for _ in range(8):
        if isinstance(e, ast.Call) and isinstance(e.func, ast.Name) and e.func.id in ORDER_ONLY and len(e.args) == 1 \
                and not isinstance(e.args[0], ast.Starred):
            e = e.args[0]
        elif isinstance(e, ast.Call) and isinstance(e.func, ast.Attribute) and e.func.attr == "copy" and not e.args \
                and not e.keywords:
            e = e.func.value
        elif isinstance(e, ast.Call) and dotted(e.func) in ("copy.copy", "copy.deepcopy") and len(e.args) == 1:
            e = e.args[0]
        else:
            break
    return e


def _facts(test: ast.AST, outcome: bool) -> list[tuple[ast.AST, ast.AST, bool]]:
    """Membership facts `(key, collection, key is IN collection)` that hold when `test` evaluates to `outcome`."""
    if isinstance(test, ast.UnaryOp) and isinstance(test.op, ast.Not):
        return _facts(test.operand, not outcome)
    if isinstance(test, ast.BoolOp):
        if isinstance(test.op, ast.And) == outcome:      # `a and b` true / `a or b` false: every operand decided
            return [f for v in test.values for f in _facts(v, outcome)]
        return []
    if isinstance(test, ast.Compare) and len(test.ops) == 1 and isinstance(test.ops[0], (ast.In, ast.NotIn)):
        return [(test.left, test.comparators[0], isinstance(test.ops[0], ast.In) == outcome)]
    return []


def _growth(s: ast.AST | None) -> tuple[str, ast.AST | None, str] | None:
    """An in-place growth of a list held by a plain local: (list, the ONE entry added | None if several, text)."""
    def single(xs: ast.AST) -> ast.AST | None:
        return xs.elts[0] if isinstance(xs, (ast.List, ast.Tuple)) and len(xs.elts) == 1 \
            and not isinstance(xs.elts[0], ast.Starred) else None

    if isinstance(s, ast.Expr) and isinstance(s.value, ast.Call) and isinstance(s.value.func, ast.Attribute) \
            and isinstance(s.value.func.value, ast.Name) and not s.value.keywords:
        c, name = s.value, s.value.func.value.id
        if c.func.attr == "append" and len(c.args) == 1:            # type: ignore[attr-defined]
            return name, c.args[0], u(s)
        if c.func.attr == "insert" and len(c.args) == 2:            # type: ignore[attr-defined]
            return name, c.args[1], u(s)
        if c.func.attr == "extend" and len(c.args) == 1:            # type: ignore[attr-defined]
            return name, single(c.args[0]), u(s)
    if isinstance(s, ast.AugAssign) and isinstance(s.op, ast.Add) and isinstance(s.target, ast.Name):
        return s.target.id, single(s.value), u(s)
    if isinstance(s, ast.Assign) and len(s.targets) == 1 and isinstance(s.targets[0], ast.Name) \
            and isinstance(s.value, ast.BinOp) and isinstance(s.value.op, ast.Add) \
            and isinstance(s.value.left, ast.Name) and s.value.left.id == s.targets[0].id:
        return s.targets[0].id, single(s.value.right), u(s)         # L = L + [e]
    return None


def _key_added(s: ast.AST | None, coll: str) -> list[ast.AST]:
    """Keys the statement files in the collection `coll`: `S.add(k)`, `S.append(k)`, `S[k] = v`, `S |= {k}`,
    `S.update({k})`, `S = S | {k}`, `S.setdefault(k, v)`."""
    from ._c15_util import set_growth

    out: list[ast.AST] = []
    g = _growth(s)
    if g is not None and g[0] == coll and g[1] is not None:
        out.append(g[1])
    sg = set_growth(s) if s is not None else None
    if sg is not None and sg[0] == coll:
        is_add = isinstance(s, ast.Expr) and isinstance(s.value, ast.Call) and s.value.func.attr == "add"  # type: ignore[attr-defined]
        for op in sg[1]:
            if is_add:
                out.append(op)
            elif isinstance(op, (ast.Set, ast.List, ast.Tuple)):
                out.extend(op.elts)
    if isinstance(s, ast.Assign):
        for t in s.targets:
            if isinstance(t, ast.Subscript) and u(t.value) == coll:
                out.append(t.slice)
    if isinstance(s, ast.Expr) and isinstance(s.value, ast.Call) and method_call(s.value, coll, "setdefault") and s.value.args:
        out.append(s.value.args[0])
    return out


class Uniq:
    """Backward walk from a collection expression to the statements that fill it; see the module docstring."""

    def __init__(self, prog: Program, run: Run) -> None:
        self.prog, self.run = prog, run
        self.findings: list[Finding] = []
        self.proved: list[str] = []
        self._ctx: dict[str, tuple[FuncInfo, CFG]] = {}
        self._busy: set[tuple[str, int, str]] = set()

    # ---- contexts
    def ctx(self, fn: FuncInfo) -> tuple[FuncInfo, CFG]:
        from ._c15_util import analysis_view

        if fn.qual not in self._ctx:
            view = analysis_view(self.prog, fn)
            self._ctx[fn.qual] = (view, CFG(view.node, view.file))
            self.run.analysed(fn.qual)
        return self._ctx[fn.qual]

    def ok(self, fn: FuncInfo, what: str, why: str) -> None:
        self.proved.append(f"{fn.qual}: `{what}` holds each group at most once ({why})")

    def bad(self, fn: FuncInfo, node: ast.AST, construct: str, message: str) -> None:
        if not any(f.node is node for f in self.findings):
            self.findings.append(Finding(fn, node, construct, message))

    @staticmethod
    def site(cfg: CFG, node: ast.AST, what: str) -> int:
        sites = cfg.nodes_of(node) or cfg.node_containing(node)
        if not sites:
            raise AnalysisError(f"{RULE}: {what}: site not found in the control-flow graph")
        return sites[0]

    # ---- text of a key, with plain single definitions looked through
    def canon(self, cfg: CFG, nid: int, e: ast.AST, depth: int = 3) -> ast.AST:
        from ._c15_util import plain_def_value

        while depth > 0 and isinstance(e, ast.Name):
            defs = reaching_defs(cfg, nid, e.id)
            v = plain_def_value(cfg, defs[0], e.id) if len(defs) == 1 else None
            if v is None or any(isinstance(x, (ast.Await, ast.Yield, ast.YieldFrom, ast.NamedExpr)) for x in ast.walk(v)):
                break
            e, nid, depth = v, defs[0], depth - 1
        return e

    # ---- loops
    @staticmethod
    def loops_around(cfg: CFG, nid: int) -> list[int]:
        """Headers of the `for` / `while` loops whose body contains the node, innermost first."""
        out = []
        for h in cfg.nodes:
            if h.kind not in ("for", "while"):
                continue
            body = cfg.reachable([m for m, lab in cfg.succ[h.id] if lab in ("iter", "true")], avoid=[h.id],
                                 edge_ok=lambda _a, _b, lab: lab != "break" and not lab.startswith("exc:"))
            if nid in body:
                out.append((len(body), h.id))
        return [h for _n, h in sorted(out)]

    @staticmethod
    def item_names(target: ast.AST) -> set[str]:
        return {x.id for x in ast.walk(target) if isinstance(x, ast.Name)}

    @staticmethod
    def _carrier(a: ast.AST) -> ast.AST:
        """The item under what keeps it recognisable: re-ordering / copying, `set(item)`, and a SUBSET of the item
        (`item & X`, `item - X`, `item.intersection(X)`, `item.difference(X)`): the items of a duplicate-free collection
        of groups are disjoint, so their subsets are as distinct as they are."""
        for _ in range(6):
            a = _strip(a)
            if isinstance(a, ast.Call) and isinstance(a.func, ast.Name) and a.func.id in SET_CTORS and len(a.args) == 1:
                a = a.args[0]
            elif isinstance(a, ast.BinOp) and isinstance(a.op, ast.Sub):
                a = a.left
            elif isinstance(a, ast.BinOp) and isinstance(a.op, ast.BitAnd):
                a = a.left if isinstance(_strip(a.left), ast.Name) else a.right
            elif isinstance(a, ast.Call) and isinstance(a.func, ast.Attribute) and a.func.attr in ("intersection", "difference"):
                a = a.func.value
            else:
                break
        return a

    def built_from_item(self, cfg: CFG, nid: int, entry: ast.AST, items: set[str]) -> bool:
        """The entry is the loop's item itself, or a call that takes the item (re-ordered / copied at most) as one of
        its arguments: one entry per item, standing for the item.  `map[item]`, `f(map[item])`, an attribute of the
        item are derived keys -- several items may share them."""
        v = self._carrier(self.canon(cfg, nid, entry))
        if isinstance(v, ast.Name):
            return v.id in items
        if isinstance(v, ast.Call) and not (isinstance(v.func, ast.Attribute) and v.func.attr in ("get", "pop", "setdefault")):
            for a in list(v.args) + [k.value for k in v.keywords]:
                a = self._carrier(a)
                if isinstance(a, ast.Name) and a.id in items:
                    return True
        return False

    # ---- the membership guard of one growth
    def guard(self, cfg: CFG, g: int, lst: str, entry: ast.AST, loop: int | None) -> tuple[bool, str]:
        """(the growth at node g is dominated by `entry-key not in <everything collected so far>`, text of the tests
        that were found instead)."""
        keys = {u(entry), u(self.canon(cfg, g, entry))}
        dom = cfg.dominators().get(g, set())
        body = set()
        if loop is not None:
            body = cfg.reachable([m for m, lab in cfg.succ[loop] if lab in ("iter", "true")], avoid=[loop])
        seen_tests: list[str] = []
        for t in sorted(dom):
            n = cfg.nodes[t]
            if n.kind != "test" or n.ast is None or t == g:
                continue
            if loop is not None and t not in body:
                continue      # a test made before the loop says nothing about this item
            arms = {lab: g in cfg.reachable([m for m, lb in cfg.succ[t] if lb == lab], avoid=[t])
                    for lab in ("true", "false")}
            if arms["true"] == arms["false"]:
                continue
            outcome = arms["true"]
            mentions = any(isinstance(x, ast.Name) and x.id == lst for x in ast.walk(n.ast))
            for key, coll, is_in in _facts(n.ast, outcome):
                if is_in or not ({u(key), u(self.canon(cfg, t, key))} & keys):
                    continue
                cname = u(coll)
                if cname == lst:
                    if self._stable(cfg, cname, body, g):
                        return True, ""
                    continue
                if not isinstance(coll, ast.Name):
                    continue
                # a seen-collection: it must receive the key whenever the entry is added, and live across the items
                adds = [x.id for x in cfg.nodes if x.kind == "stmt" and any(
                    {u(k), u(self.canon(cfg, x.id, k))} & keys for k in _key_added(x.ast, cname))]
                normal = lambda _a, _b, lab: not lab.startswith("exc:")  # noqa: E731
                ends = [cfg.exit] + ([loop] if loop is not None else [])
                filled = bool(adds) and (cfg.path(t, [g], avoid=adds, edge_ok=normal, include_src=False) is None
                                         or cfg.path(g, ends, avoid=adds, edge_ok=normal, include_src=False) is None)
                if filled and self._stable(cfg, cname, body, g):
                    return True, ""
                mentions = True
            if mentions or any(isinstance(x, ast.Subscript) for x in ast.walk(n.ast)):
                seen_tests.append(n.text(100))
        return False, "; ".join(seen_tests)

    @staticmethod
    def _stable(cfg: CFG, name: str, body: set[int], g: int) -> bool:
        """The collection consulted is not re-created inside the loop (it would forget the earlier items)."""
        for x in body:
            n = cfg.nodes[x]
            if x == g or n.ast is None or n.kind not in ("stmt", "for", "with"):
                continue
            if any(u(w) == name for w in node_writes(cfg, x)) and _growth(n.ast) is None \
                    and not _key_added(n.ast, name):
                return False
            if n.kind == "stmt" and isinstance(n.ast, ast.Expr) and isinstance(n.ast.value, ast.Call) \
                    and method_call(n.ast.value, name, "clear"):
                return False
        return True

    @staticmethod
    def _empty(v: ast.AST | None) -> bool:
        return (isinstance(v, (ast.List, ast.Tuple)) and not v.elts) or (
            isinstance(v, ast.Call) and isinstance(v.func, ast.Name) and v.func.id == "list" and not v.args and not v.keywords)

    # ---- the collection itself
    def coll(self, fn: FuncInfo, nid: int, e: ast.AST, depth: int = 0) -> None:
        """Record why the collection denoted by `e` at node `nid` of `fn` is duplicate-free, or what admits a
        duplicate; AnalysisError for a shape that cannot be read."""
        view, cfg = self.ctx(fn)
        if depth > MAX_DEPTH:
            raise AnalysisError(f"{RULE}: {fn.qual}: the origin of `{u(e)}` is more than {MAX_DEPTH} steps away")
        e = _strip(e)
        if isinstance(e, ast.IfExp):
            self.coll(fn, nid, e.body, depth + 1)
            self.coll(fn, nid, e.orelse, depth + 1)
            return
        if isinstance(e, (ast.SetComp, ast.DictComp, ast.Set, ast.Dict)):
            return self.ok(fn, u(e), "a set / dict display")
        if isinstance(e, ast.BinOp) and isinstance(e.op, (ast.BitOr, ast.BitAnd, ast.Sub, ast.BitXor)):
            return self.ok(fn, u(e), "set algebra")
        if isinstance(e, ast.BinOp) and isinstance(e.op, (ast.Add, ast.Mult)):
            if isinstance(e.op, ast.Mult) or u(_strip(e.left)) == u(_strip(e.right)):
                return self.bad(fn, e, u(e),
                                f"`{u(e)}` flows into the list of component groups handed to `distribute_power` and repeats "
                                f"the entries of one collection: every group is in the list more than once.  Then {WHY}.  "
                                f"{DEMAND}")
            raise AnalysisError(f"{RULE}: {fn.qual}: whether the two operands of `{u(e)}` share a battery group cannot be read")
        if isinstance(e, (ast.List, ast.Tuple)):
            if len(e.elts) <= 1 and not any(isinstance(x, ast.Starred) for x in e.elts):
                return self.ok(fn, u(e), "at most one entry")
            raise AnalysisError(f"{RULE}: {fn.qual}: whether the entries of `{u(e)}` are distinct groups cannot be read")
        if isinstance(e, (ast.ListComp, ast.GeneratorExp)):
            return self.comprehension(fn, nid, e, depth)
        if isinstance(e, ast.Call):
            return self.call(fn, nid, e, depth)
        if isinstance(e, ast.Name):
            return self.name(fn, nid, e.id, depth)
        if isinstance(e, (ast.Attribute, ast.Subscript)) and self.attribute(fn, e, depth):
            return None
        raise AnalysisError(f"{RULE}: {fn.qual}: where the collection `{u(e)}` comes from (and whether it can hold a "
                            "battery group twice) cannot be read")

    def attribute(self, fn: FuncInfo, e: ast.AST, depth: int) -> bool:
        """`self.<attr>` / `self.<attr>[key]` (a collection kept on the object, e.g. memoised per request): every
        store of the class into that place is followed.  False: not such a place, or nothing is stored there."""
        slot = e.value if isinstance(e, ast.Subscript) else e
        if not (isinstance(slot, ast.Attribute) and isinstance(slot.value, ast.Name) and slot.value.id == "self"
                and fn.cls is not None):
            return False
        keyed = isinstance(e, ast.Subscript)
        found = 0
        for m in fn.cls.methods.values():
            if not any(isinstance(x, ast.Attribute) and x.attr == slot.attr for x in ast.walk(m.node)):
                continue
            mview, mcfg = self.ctx(m)
            for st in walk_no_nested(mview.node):
                if isinstance(st, ast.Expr) and isinstance(st.value, ast.Call) and isinstance(st.value.func, ast.Attribute) \
                        and st.value.func.attr in ("append", "extend", "insert", "add", "update") \
                        and u(st.value.func.value).startswith(u(slot)):
                    raise AnalysisError(f"{RULE}: {m.qual}: `{u(st)}` changes a collection kept on the object in place: "
                                        "what it holds when it is handed on cannot be read")
                tgt = val = None
                if isinstance(st, ast.Assign) and len(st.targets) == 1:
                    tgt, val = st.targets[0], st.value
                elif isinstance(st, ast.AnnAssign) and st.value is not None:
                    tgt, val = st.target, st.value
                elif isinstance(st, ast.AugAssign) and u(st.target).startswith(u(slot)):
                    raise AnalysisError(f"{RULE}: {m.qual}: `{u(st)}` changes a collection kept on the object in place")
                if tgt is None or val is None:
                    continue
                if keyed and isinstance(tgt, ast.Subscript) and u(tgt.value) == u(slot):
                    found += 1
                    self.coll(m, self.site(mcfg, st, f"{m.qual}: store"), val, depth + 1)
                elif u(tgt) == u(slot):
                    if not keyed:
                        found += 1
                        self.coll(m, self.site(mcfg, st, f"{m.qual}: store"), val, depth + 1)
                    elif not ((isinstance(val, ast.Dict) and not val.keys) or (
                            isinstance(val, ast.Call) and u(val.func).split(".")[-1] in ("dict", "defaultdict", "OrderedDict")
                            and not [a for a in val.args if not isinstance(a, (ast.Name, ast.Attribute))] and not val.keywords)):
                        raise AnalysisError(f"{RULE}: {m.qual}: the entries `{u(slot)}` starts with (`{u(val)}`) cannot be read")
        return found > 0

    def comprehension(self, fn: FuncInfo, nid: int, e: Any, depth: int) -> None:
        _view, cfg = self.ctx(fn)
        if len(e.generators) != 1 or e.generators[0].is_async:
            raise AnalysisError(f"{RULE}: {fn.qual}: nested comprehension `{u(e)}` cannot be read")
        gen = e.generators[0]
        items = self.item_names(gen.target)
        if self.built_from_item(cfg, nid, e.elt, items):
            self.coll(fn, nid, gen.iter, depth + 1)
            return
        self.bad(fn, e, u(e),
                 f"`{u(e)}` flows into the list of component groups handed to `distribute_power` and has one entry per item "
                 f"of `{u(gen.iter)}`, each entry being `{u(e.elt)}` -- a value derived from the item, which several items "
                 "can share (every battery of a group yields the same group), with no membership test over what has "
                 f"been collected: a group can be in the list twice.  Then {WHY}.  {DEMAND}")

    def call(self, fn: FuncInfo, nid: int, e: ast.Call, depth: int) -> None:
        name = dotted(e.func)
        if isinstance(e.func, ast.Name) and e.func.id in SET_CTORS + ("dict",):
            return self.ok(fn, u(e), f"a {e.func.id}")
        if name in ("dict.fromkeys", "collections.OrderedDict.fromkeys", "OrderedDict.fromkeys"):
            return self.ok(fn, u(e), "the keys of a dict")
        if isinstance(e.func, ast.Attribute) and e.func.attr in SET_METHODS:
            return self.ok(fn, u(e), f"result of `.{e.func.attr}()`")
        if isinstance(e.func, ast.Attribute) and e.func.attr == "values" and not e.args:
            return self.values(fn, nid, e, depth)
        callee: FuncInfo | None = None
        if isinstance(e.func, ast.Attribute) and isinstance(e.func.value, ast.Name) and e.func.value.id in ("self", "cls") \
                and fn.cls is not None:
            callee = self.prog.resolve_method(fn.cls, e.func.attr)
        elif name is not None:
            got = self.prog.resolve_name(fn.module, name)
            callee = got if isinstance(got, FuncInfo) else None
        if callee is None:
            raise AnalysisError(f"{RULE}: {fn.qual}: `{u(e)}` is not a set-building expression and does not resolve to a "
                                "function of the package: whether its result can hold a battery group twice cannot be read")
        cview, ccfg = self.ctx(callee)
        rets = [r for r in walk_no_nested(cview.node) if isinstance(r, ast.Return) and r.value is not None
                and not (isinstance(r.value, ast.Constant) and r.value.value is None)]
        if not rets or isinstance(cview.node, ast.AsyncFunctionDef) and not rets:
            raise AnalysisError(f"{RULE}: {callee.qual}: no returned collection found")
        for r in rets:
            self.coll(callee, self.site(ccfg, r, f"{callee.qual}: return"), r.value, depth + 1)  # type: ignore[arg-type]

    def values(self, fn: FuncInfo, nid: int, e: ast.Call, depth: int) -> None:
        _view, cfg = self.ctx(fn)
        d = e.func.value  # type: ignore[attr-defined]
        stores = [s for s in walk_no_nested(_view.node) if isinstance(s, ast.Assign)
                  and any(isinstance(t, ast.Subscript) and u(t.value) == u(d) for t in s.targets)] \
            if isinstance(d, ast.Name) else []
        if stores and all(len(s.targets) == 1 and self.built_from_item(
                cfg, self.site(cfg, s, "dict store"), s.value, self.item_names(self.canon(cfg, self.site(cfg, s, "dict store"), s.targets[0].slice)))  # type: ignore[attr-defined]
                for s in stores):
            return self.ok(fn, u(e), "values of a dict filed under the key each value was built from")
        if isinstance(d, ast.Name):
            raise AnalysisError(f"{RULE}: {fn.qual}: whether two keys of `{u(d)}` can hold the same battery group cannot be read")
        self.bad(fn, e, u(e),
                 f"`{u(e)}` flows into the list of component groups handed to `distribute_power`: the values of a mapping "
                 "are not de-duplicated -- every battery of a group maps to the same group, which is then in the list "
                 f"once per battery.  Then {WHY}.  {DEMAND}")

    def name(self, fn: FuncInfo, nid: int, name: str, depth: int) -> None:
        from ._c15_util import ann_base, bound_args, method_params, plain_def_value, self_calls

        view, cfg = self.ctx(fn)
        key = (fn.qual, nid, name)
        if key in self._busy:
            return
        self._busy.add(key)
        a = view.node.args
        params = {x.arg: x for x in a.posonlyargs + a.args + a.kwonlyargs}
        # every statement that grows the collection in place on the way to this use
        before = cfg.co_reachable([nid])
        growths = [x.id for x in cfg.nodes if x.kind == "stmt" and x.id in before and x.id != nid
                   and (g := _growth(x.ast)) is not None and g[0] == name]
        plain: list[int] = []
        todo, seen = [nid], set()
        from_entry = False
        while todo:
            at = todo.pop()
            for d in reaching_defs(cfg, at, name):
                if d in seen:
                    continue
                seen.add(d)
                n = cfg.nodes[d]
                if _growth(n.ast) is not None and n.kind == "stmt":
                    todo.append(d)       # `L += [e]` / `L = L + [e]`: a growth of what was there before
                elif plain_def_value(cfg, d, name) is not None:
                    plain.append(d)
                else:
                    raise AnalysisError(f"{RULE}: {fn.qual}: `{name}` is bound by `{n.text(80)}`: not a collection whose "
                                        "entries can be followed")
        if name in params and (not plain or cfg.path(cfg.entry, [nid], avoid=plain) is not None):
            from_entry = True
        if not plain and not from_entry:
            raise AnalysisError(f"{RULE}: {fn.qual}: no definition of `{name}` reaches `{cfg.nodes[nid].text(80)}`")
        for d in plain:
            v = plain_def_value(cfg, d, name)
            assert v is not None
            self.coll(fn, d, v, depth + 1)
        starts_empty = not from_entry and all(self._empty(plain_def_value(cfg, d, name)) for d in plain)
        for g in growths:
            self.growth(fn, g, name, len(growths) if starts_empty else len(growths) + 1, depth)
        if from_entry:
            if ann_base(params[name].annotation) in SET_ANNOTATIONS and not growths:
                self.ok(fn, name, f"parameter annotated `{u(params[name].annotation)}`")
            else:
                cls = fn.cls
                callers = [m for m in (cls.methods.values() if cls is not None else [])
                           if m.name != fn.name and fn.name in self_calls(m.node)]
                if not callers:
                    raise AnalysisError(f"{RULE}: {fn.qual}: the parameter `{name}` is a list and no method of the class "
                                        "calls this function: who fills it cannot be read")
                n_sites = 0
                for m in callers:
                    mview, mcfg = self.ctx(m)
                    for c in find_calls(mview.node, lambda c: isinstance(c.func, ast.Attribute)
                                        and c.func.attr == fn.name and u(c.func.value) in ("self", "cls")):
                        args = bound_args(c, method_params(fn), f"{m.qual}: self.{fn.name}(...)")
                        if name not in args:
                            raise AnalysisError(f"{RULE}: {m.qual}: `self.{fn.name}(...)` does not pass `{name}`")
                        n_sites += 1
                        self.coll(m, self.site(mcfg, c, f"{m.qual}: self.{fn.name}(...)"), args[name], depth + 1)
                if n_sites == 0:
                    raise AnalysisError(f"{RULE}: {fn.qual}: no call site that passes `{name}` found in "
                                        f"{[m.qual for m in callers]}")
        self._busy.discard(key)

    def growth(self, fn: FuncInfo, g: int, lst: str, n_growths: int, depth: int) -> None:
        _view, cfg = self.ctx(fn)
        node = cfg.nodes[g]
        got = _growth(node.ast)
        assert got is not None
        _l, entry, text = got
        if entry is None:
            raise AnalysisError(f"{RULE}: {fn.qual}: `{text}` adds several entries at once to the collection that becomes "
                                "the list of component groups: whether one of them is already there cannot be read")
        loops = self.loops_around(cfg, g)
        loop = loops[0] if loops else None
        guarded, tests = self.guard(cfg, g, lst, entry, loop)
        if guarded:
            return self.ok(fn, text, "added under a membership test over everything collected so far")
        if loop is None:
            if n_growths == 1:
                return self.ok(fn, text, "the only entry")
            self.bad(fn, node.ast, text,   # type: ignore[arg-type]
                     f"`{text}` adds an entry to the collection `{lst}` that becomes the list of component groups handed to "
                     "`distribute_power` and that holds other entries already, and the addition is not dominated by a "
                     f"membership test over everything collected so far: a group can be in the list twice.  Then {WHY}.  "
                     f"{DEMAND}")
            return
        h = cfg.nodes[loop]
        domain = u(h.ast.iter) if isinstance(h.ast, ast.For) else h.text(60)   # type: ignore[attr-defined]
        if isinstance(h.ast, ast.For) and n_growths == 1 \
                and self.built_from_item(cfg, g, entry, self.item_names(h.ast.target)):
            # one entry per item, standing for the item: as duplicate-free as the items are
            before = len(self.findings)
            self.coll(fn, loop, h.ast.iter, depth + 1)
            if len(self.findings) == before:
                self.ok(fn, text, f"one entry per item of `{domain}`, built from the item itself")
            return
        shown = u(self.canon(cfg, g, entry))
        found = (f"the test(s) on the way, `{tests}`, look at a neighbouring entry / at something else, not at the whole "
                 "collection" if tests else "there is no test on the way at all")
        self.bad(fn, node.ast or h.ast, text,   # type: ignore[arg-type]
                 f"`{text}` puts `{shown}` into the collection `{lst}` that becomes the list of component groups handed to "
                 f"`distribute_power`, once per item of `{domain}`; the entry is derived from the item (several items -- the "
                 "batteries of one group -- yield the same group) and the addition is not dominated by a membership test "
                 f"over everything collected so far: {found}.  When a battery of another group comes between two "
                 f"batteries of one group in the iteration order the group is collected twice.  Then {WHY}.  {DEMAND}")


def check_groups(run: Run, prog: Program) -> None:
    """C01.GRP: the `components` argument of `distribute_power` holds every battery group at most once."""
    from ._c15_util import anchors, bound_args, method_params

    anc = anchors(prog)
    gp = anc.get("bm.gpd")
    uq = Uniq(prog, run)
    view, cfg = uq.ctx(gp)
    calls = find_calls(view.node, lambda c: method_call(c, "self._distribution_algorithm", "distribute_power"))
    if len(calls) != 1:
        raise AnalysisError(f"{RULE}: {gp.qual}: expected one call of the distribution algorithm, found {len(calls)}")
    public = anc.get("bda.public")
    params = method_params(public)
    args = bound_args(calls[0], params, f"{gp.qual}: distribute_power(...)")
    pa = public.node.args
    floats = {x.arg for x in pa.posonlyargs + pa.args + pa.kwonlyargs if x.annotation is not None and u(x.annotation) == "float"}
    comps = [p for p in params if p not in floats]
    if len(comps) != 1 or comps[0] not in args:
        raise AnalysisError(f"{RULE}: {gp.qual}: the component-groups argument of distribute_power(...) is not identified")
    uq.coll(gp, uq.site(cfg, calls[0], f"{gp.qual}: distribute_power(...)"), args[comps[0]])
    for f in uq.findings:
        run.violation(RULE, f.fn.qual, f.construct, f.message, node=f.node, file=f.fn.file)
    for p in uq.proved:
        run.ok(RULE, p)
    if not uq.findings and not uq.proved:
        raise AnalysisError(f"{RULE}: nothing decided about the list of component groups")
