"""C15  Distribution results truthfully account for the requested power.

C15.ID    accounting identity as a term normal form: succeeded + failed + excess == request.power
          for every Success/PartialFailure constructed by the battery and PV managers.
C15.FAIL  failure totality on the exception-aware CFG: every way of leaving task.result()
          through an exception (Exception family or CancelledError) is caught and reaches the
          failed-power and failed-set updates exactly once; the success path reaches neither.
C15.SETS  succeeded/failed component sets are complementary by construction.
C15.ALL   one set_power per entry of the distribution; timed-out calls are cancelled and
          awaited before results are read.
"""
from __future__ import annotations

import ast
from typing import Any

from ..engine.cfg import CFG
from ..engine.report import AnalysisError, Run
from ..engine.resolver import ClassInfo, FuncInfo, Program, body_walk, walk_no_nested
from ..engine.terms import Poly, TermEval, flow_eval, resolve_env
from ..engine.util import (
    find_calls, method_call, node_calls, node_has_call, node_writes, nodes_with_call, u,
)

BM = "microgrid._power_distributing._component_managers._battery_manager:BatteryManager"
PV = ("microgrid._power_distributing._component_managers._pv_inverter_manager."
      "_pv_inverter_manager:PVManager")


def const_fields(prog: Program, cls: ClassInfo) -> dict[str, Poly]:
    """self.<field> whose only writers in the class are zero constants."""
    writers: dict[str, list[ast.AST]] = {}
    for c in prog.mro(cls):
        for m in c.methods.values():
            for n in body_walk(m.node):
                tgt = val = None
                if isinstance(n, ast.Assign) and len(n.targets) == 1:
                    tgt, val = n.targets[0], n.value
                elif isinstance(n, ast.AnnAssign) and n.value is not None:
                    tgt, val = n.target, n.value
                elif isinstance(n, ast.AugAssign):
                    tgt, val = n.target, None
                if isinstance(tgt, ast.Attribute) and u(tgt.value) == "self":
                    writers.setdefault(tgt.attr, []).append(val)  # type: ignore[arg-type]
    out = {}
    te = TermEval()
    for name, vals in writers.items():
        if vals and all(v is not None and te.ev(v).is_zero() for v in vals):
            out[name] = Poly()
    return out


def check_identity(run: Run, prog: Program) -> None:
    n_ctor = 0
    for cq in (BM, PV):
        cls = prog.cls(cq)
        consts = const_fields(prog, cls)
        for m in cls.methods.values():
            ctors = find_calls(m.node, lambda c: u(c.func) in ("Success", "PartialFailure"))
            if not ctors:
                continue
            run.analysed(m.qual)

            def hook(e: ast.AST, te: TermEval, consts=consts) -> Poly | None:
                if isinstance(e, ast.Attribute) and u(e.value) == "self" and e.attr in consts:
                    return consts[e.attr]
                return None

            cfg = CFG(m.node, m.file)
            req_param = next((p for p in m.params if p == "request"), None)
            if req_param is None:
                raise AnalysisError(f"{m.qual}: no `request` parameter to account against")
            want = TermEval().ev(ast.parse("request.power", mode="eval").body)
            for c in ctors:
                n_ctor += 1
                kws = {k.arg: k.value for k in c.keywords if k.arg}
                kind = u(c.func)
                need = ["succeeded_power", "excess_power"] + (["failed_power"] if kind == "PartialFailure" else [])
                if any(k not in kws for k in need):
                    raise AnalysisError(f"{m.qual}: {kind}(...) without keyword fields {need}")
                sites = cfg.node_containing(c)
                if not sites:
                    raise AnalysisError(f"{m.qual}: constructor site not found in the CFG")
                total = Poly()
                for k in need:
                    total = total + flow_eval(cfg, sites[0], kws[k], hook)
                ok = total == want
                detail = ""
                if not ok:
                    zero_fields = [f"self.{a.attr}" for k in need for a in ast.walk(kws[k])
                                   if isinstance(a, ast.Attribute) and u(a.value) == "self"
                                   and a.attr in consts]
                    detail = (f"{' + '.join(need)} normalises to `{total!r}`, not `request.power`"
                              + (f"; note {sorted(set(zero_fields))} is only ever assigned "
                                 "a zero constant in this class" if zero_fields else ""))
                run.check(ok, "C15.ID", m.qual,
                          f"{kind}(succeeded_power={u(kws['succeeded_power'])})",
                          f"the reported powers do not add up to the request: {detail}",
                          node=c, file=m.file,
                          instance=f"{m.qual}: {kind} succeeded+failed+excess == request.power")
                run.check(u(kws.get("request")) == "request", "C15.ID", m.qual,
                          f"{kind}(request=...)", "the result does not carry the processed request",
                          node=c, file=m.file, instance=f"{m.qual}: {kind} carries the request")
                run.sample({"function": m.qual, "result": kind, "sum_normal_form": repr(total)})
    if n_ctor < 5:
        raise AnalysisError(f"C15.ID: only {n_ctor} result constructors found")


# ---------------------------------------------------------------------------------------------
def check_fail(run: Run, prog: Program) -> None:
    targets = [prog.func(f"{BM}._parse_result"), prog.func(f"{PV}._set_api_power")]
    for fn in targets:
        run.analysed(fn.qual)
        cfg = CFG(fn.node, fn.file)
        res_nodes = nodes_with_call(cfg, lambda c: isinstance(c.func, ast.Attribute)
                                    and c.func.attr == "result" and not c.args)
        if len(res_nodes) != 1:
            raise AnalysisError(f"{fn.qual}: expected one task.result() site, found {len(res_nodes)}")
        r = res_nodes[0]
        # enclosing loop over the tasks
        loops = [n for n in cfg.nodes if n.kind == "for" and r in cfg.reachable(
            [m for m, lab in cfg.succ[n.id] if lab == "iter"], avoid=[n.id])]
        if len(loops) != 1:
            raise AnalysisError(f"{fn.qual}: result loop not identified")
        h = loops[0]
        tgt = h.ast.target  # type: ignore[union-attr]
        key_var = u(tgt.elts[0]) if isinstance(tgt, ast.Tuple) else None
        if key_var is None:
            raise AnalysisError(f"{fn.qual}: loop does not iterate `for id, task in tasks.items()`")
        body = cfg.reachable([m for m, lab in cfg.succ[h.id] if lab == "iter"], avoid=[h.id])
        # failed-power accumulation and failed-set update inside the loop
        fp_nodes, fs_nodes = [], []
        fp_name = None
        for x in body:
            n = cfg.nodes[x]
            s = n.ast
            if n.kind != "stmt":
                continue
            if isinstance(s, ast.AugAssign) and isinstance(s.op, ast.Add) \
                    and isinstance(s.value, ast.Subscript) and u(s.value.slice) == key_var:
                fp_nodes.append(x)
                fp_name = u(s.target)
                alloc = u(s.value.value)
            if isinstance(s, ast.Expr) and isinstance(s.value, ast.Call) and isinstance(
                    s.value.func, ast.Attribute) and s.value.func.attr in ("add", "update") \
                    and "fail" in u(s.value.func.value):
                fs_nodes.append(x)
        if not fp_nodes or not fs_nodes:
            run.violation("C15.FAIL", fn.qual, "failed bookkeeping",
                          "no `failed_power += <allocation>[id]` / failed-set update found in the "
                          "result loop", node=fn.node, file=fn.file)
            continue
        rn = cfg.nodes[r]
        inloop = lambda a, b, lab: b in body or b == h.id  # noqa: E731
        # 1. every exception kind of result() is caught inside the loop
        for kind, word in (("E", "an Exception (rejection, client error, unexpected error)"),
                           ("C", "a CancelledError (timed-out call)")):
            tg = [m for m, lab in cfg.succ[r] if lab == f"exc:{kind}"]
            caught = bool(tg) and all(cfg.nodes[m].kind == "handler" for m in tg)
            wit = None
            if caught:
                # does some matching of that kind still propagate out of the function?
                escapes = [m for m in tg if m == cfg.raise_exit]
                caught = not escapes
            run.check(caught, "C15.FAIL", fn.qual, rn.ast,
                      f"{word} from task.result() is not caught by the result loop: the whole "
                      "accounting is abandoned and no result is reported", node=rn.ast, file=fn.file,
                      instance=f"{fn.qual}: result() {kind}-kind failures are caught")
            if not caught:
                continue
            flags = cfg.bool_flags()
            first_body = [m0 for m0, lab in cfg.succ[h.id] if lab == "iter"]
            states = cfg.flag_states(first_body[0], flags, avoid=[h.id])
            for m in tg:
                hn = cfg.nodes[m]
                # 2. from the handler to the next iteration: failed power and failed set exactly once
                for nodes, what in ((fp_nodes, "failed power"), (fs_nodes, "failed component set")):
                    wit = None
                    for st in sorted(states.get(r, {()})):
                        wit = cfg.path_flags(m, [h.id, cfg.exit], flags, init=st, avoid=nodes)
                        if wit:
                            break
                    run.check(wit is None, "C15.FAIL", fn.qual, hn.ast,
                              f"the handler `{hn.label}` can finish the iteration without updating "
                              f"the {what}: a failed set-point is reported as succeeded",
                              node=hn.ast, file=fn.file, path=cfg.describe_path(wit),
                              instance=f"{fn.qual}: `{hn.label}` -> {what} updated")
                    twice = None
                    for x in nodes:
                        twice = cfg.path(x, nodes, avoid=[h.id], include_src=False)
                        if twice:
                            break
                    run.check(twice is None, "C15.FAIL", fn.qual, f"{what} updated once",
                              f"the {what} can be updated twice for one failed call",
                              node=hn.ast, file=fn.file, path=cfg.describe_path(twice),
                              instance=f"{fn.qual}: {what} updated at most once per call")
        # 3. the success path reaches neither
        ok_succ = [m for m, lab in cfg.succ[r] if not lab.startswith("exc:")]
        reach = cfg.reachable(ok_succ, avoid=[h.id],
                              edge_ok=lambda a, b, lab: not lab.startswith("exc:"))
        # path-sensitive flag idiom of the battery manager: `failed = True ... failed = False`
        flag_tests = [t for t in reach if cfg.nodes[t].kind == "test"
                      and isinstance(cfg.nodes[t].ast, ast.Name)]
        hit = [x for x in fp_nodes + fs_nodes if x in reach]
        if hit and flag_tests:
            t = cfg.nodes[flag_tests[0]]
            flag = t.ast.id  # type: ignore[union-attr]
            # on the success path the flag's last write before the test is the constant False
            last_false = False
            for x in ok_succ:
                s = cfg.nodes[x].ast
                if isinstance(s, ast.Assign) and u(s.targets[0]) == flag and isinstance(
                        s.value, ast.Constant) and s.value.value is False:
                    last_false = True
            init_true = any(
                isinstance(cfg.nodes[x].ast, ast.Assign) and u(cfg.nodes[x].ast.targets[0]) == flag  # type: ignore[union-attr]
                and isinstance(cfg.nodes[x].ast.value, ast.Constant)  # type: ignore[union-attr]
                and cfg.nodes[x].ast.value.value is True for x in body)  # type: ignore[union-attr]
            guarded = all(
                cfg.path(t.id, [x], edge_ok=lambda a, b, lab, tid=t.id: not (a == tid and lab == "false")
                         ) is not None and cfg.path(
                    t.id, [x], edge_ok=lambda a, b, lab, tid=t.id: not (a == tid and lab == "true")) is None
                for x in hit)
            ok = last_false and init_true and guarded
            run.check(ok, "C15.FAIL", fn.qual, f"if {flag}: failed bookkeeping",
                      "a successful call can be booked as failed (or a failed one as succeeded): "
                      f"the `{flag}` flag is not cleared exactly on the success path",
                      node=t.ast, file=fn.file,
                      instance=f"{fn.qual}: success path skips failed bookkeeping (flag `{flag}`)")
        else:
            wit = cfg.path(ok_succ[0], hit, avoid=[h.id]) if hit else None
            run.check(not hit, "C15.FAIL", fn.qual, "success path",
                      "a successful set_power call is also booked as failed", node=rn.ast,
                      file=fn.file, path=cfg.describe_path(wit),
                      instance=f"{fn.qual}: success path skips failed bookkeeping")
        # 4. what is added is the allocation of *this* component from the sent allocations
        s = cfg.nodes[fp_nodes[0]].ast
        alloc_name = u(s.value.value)  # type: ignore[union-attr]
        run.check(alloc_name in fn.params, "C15.FAIL", fn.qual, s,
                  "failed power is not taken from the allocation map that was sent",
                  node=s, file=fn.file,
                  instance=f"{fn.qual}: failed_power += {alloc_name}[{key_var}] (sent allocations)")
        # failed power starts at zero
        inits = [n.ast for n in cfg.nodes if n.kind == "stmt" and isinstance(
            n.ast, (ast.Assign, ast.AnnAssign)) and any(u(w) == fp_name for w in node_writes(cfg, n.id))]
        te = TermEval()
        run.check(len(inits) == 1 and te.ev(inits[0].value).is_zero(), "C15.FAIL", fn.qual,  # type: ignore[union-attr]
                  f"{fp_name} = 0", "failed power does not start at zero", node=fn.node,
                  file=fn.file, instance=f"{fn.qual}: {fp_name} starts at 0")


# ---------------------------------------------------------------------------------------------
def check_sets(run: Run, prog: Program) -> None:
    # battery: succeeded = addressed - failed
    fn = prog.func(f"{BM}._distribute_power")
    run.analysed(fn.qual)
    ctors = find_calls(fn.node, lambda c: u(c.func) in ("Success", "PartialFailure"))
    # names: failed set = 2nd result of _set_distributed_power; addressed map = dict filled in the loop
    failed_name = None
    for s in body_walk(fn.node):
        if isinstance(s, ast.Assign) and isinstance(s.targets[0], ast.Tuple) and len(s.targets[0].elts) == 2 \
                and isinstance(s.value, ast.Await) and isinstance(s.value.value, ast.Call) \
                and method_call(s.value.value, "self", "_set_distributed_power"):
            failed_name = u(s.targets[0].elts[1])
    addressed = None
    for s in body_walk(fn.node):
        if isinstance(s, ast.For) and u(s.iter) == "distribution.distribution.items()":
            for x in ast.walk(s):
                if isinstance(x, ast.Assign) and isinstance(x.targets[0], ast.Subscript):
                    addressed = u(x.targets[0].value)
    if failed_name is None or addressed is None:
        raise AnalysisError(f"{fn.qual}: failed set / addressed battery map not identified")
    all_keys = {f"set({addressed}.keys())", f"set({addressed})", f"{addressed}.keys()"}
    for c in ctors:
        kws = {k.arg: k.value for k in c.keywords if k.arg}
        kind = u(c.func)
        sc = kws["succeeded_components"]
        branch = _enclosing_branch(fn.node, c)
        defs = [s for s in branch if isinstance(s, ast.Assign) and u(s.targets[0]) == u(sc)]
        val = u(defs[-1].value) if defs else u(sc)
        v = val.replace(" ", "")
        if kind == "PartialFailure":
            ok = v in {f"{k}-{failed_name}" for k in all_keys} and u(kws["failed_components"]) == failed_name
        else:
            ok = v in all_keys
        run.check(ok, "C15.SETS", fn.qual, f"{kind}(succeeded_components={val})",
                  "succeeded components are not `addressed - failed` (sets would overlap or miss "
                  "addressed components)", node=c, file=fn.file)
    # Success only when nothing failed
    cfg = CFG(fn.node, fn.file)
    tests = [t for t in cfg.nodes if t.kind == "test" and failed_name in t.label]
    ok = len(tests) == 1 and u(tests[0].ast).replace(" ", "") in (
        f"len({failed_name})>0", failed_name, f"len({failed_name})!=0", f"0<len({failed_name})")
    run.check(ok, "C15.SETS", fn.qual, f"PartialFailure iff {failed_name}",
              "Success/PartialFailure is not selected by whether any component failed",
              node=fn.node, file=fn.file)
    # addressed batteries derive from every inverter of the distribution
    loops = [n for n in body_walk(fn.node) if isinstance(n, ast.For)
             and u(n.iter) == "distribution.distribution.items()"]
    run.check(len(loops) == 1, "C15.SETS", fn.qual, "for inverter_id, dist in distribution.distribution.items()",
              "the addressed battery set is not derived from every entry of the distribution",
              node=fn.node, file=fn.file)
    # PV: per iteration exactly one of succeeded.add / failed.add
    pv = prog.func(f"{PV}._set_api_power")
    run.analysed(pv.qual)
    cfg = CFG(pv.node, pv.file)
    res = nodes_with_call(cfg, lambda c: isinstance(c.func, ast.Attribute) and c.func.attr == "result"
                          and not c.args)
    h = [n for n in cfg.nodes if n.kind == "for" and res and res[0] in cfg.reachable(
        [m for m, lab in cfg.succ[n.id] if lab == "iter"], avoid=[n.id])]
    if len(h) != 1:
        raise AnalysisError(f"{pv.qual}: result loop not found")
    hd = h[0]
    key = u(hd.ast.target.elts[0])  # type: ignore[union-attr]
    succ_add = nodes_with_call(cfg, lambda c: method_call(c, "succeeded_components", "add")
                               and [u(a) for a in c.args] == [key])
    fail_add = nodes_with_call(cfg, lambda c: method_call(c, "failed_components", "add")
                               and [u(a) for a in c.args] == [key])
    first = [m for m, lab in cfg.succ[hd.id] if lab == "iter"][0]
    wit = cfg.path(first, [hd.id], avoid=succ_add + fail_add)
    both = None
    for a in succ_add:
        both = cfg.path(a, fail_add, avoid=[hd.id])
        if both:
            break
    if both is None:
        for a in fail_add:
            both = cfg.path(a, succ_add, avoid=[hd.id])
            if both:
                break
    run.check(bool(succ_add) and bool(fail_add) and wit is None and both is None, "C15.SETS", pv.qual,
              "each component lands in exactly one of succeeded/failed",
              "an addressed component can end in neither or in both result sets", node=pv.node,
              file=pv.file, path=cfg.describe_path(wit or both))
    ctors = find_calls(pv.node, lambda c: u(c.func) in ("Success", "PartialFailure"))
    for c in ctors:
        kws = {k.arg: u(k.value) for k in c.keywords if k.arg}
        ok = kws.get("succeeded_components") == "succeeded_components" and (
            u(c.func) == "Success" or kws.get("failed_components") == "failed_components")
        run.check(ok, "C15.SETS", pv.qual, c, "the result does not carry the accumulated sets",
                  node=c, file=pv.file)


def _enclosing_branch(fn: ast.AST, target: ast.AST) -> list[ast.stmt]:
    """The innermost statement list (if/else body or function body) containing `target`."""
    best: list[ast.stmt] = []
    for node in ast.walk(fn):
        for field in ("body", "orelse", "finalbody"):
            stmts = getattr(node, field, None)
            if isinstance(stmts, list) and stmts and isinstance(stmts[0], ast.stmt):
                if any(any(x is target for x in ast.walk(s)) for s in stmts):
                    if not best or len(ast.dump(ast.Module(body=stmts, type_ignores=[]))) < len(
                            ast.dump(ast.Module(body=best, type_ignores=[]))):
                        best = stmts
    return best


# ---------------------------------------------------------------------------------------------
def check_all(run: Run, prog: Program) -> None:
    for q, items in ((f"{BM}._set_distributed_power", "distribution.distribution.items()"),
                     (f"{PV}._set_api_power", "allocations.items()")):
        fn = prog.func(q)
        run.analysed(fn.qual)
        # every entry -> one set_power task
        ok = False
        sp = find_calls(fn.node, lambda c: isinstance(c.func, ast.Attribute) and c.func.attr == "set_power")
        detail = f"expected exactly one set_power call site, found {len(sp)}"
        if len(sp) == 1:
            call = sp[0]
            for n in ast.walk(fn.node):
                if isinstance(n, ast.DictComp) and any(x is call for x in ast.walk(n.value)):
                    g = n.generators[0]
                    ok = len(n.generators) == 1 and not g.ifs and u(g.iter) == items \
                        and u(n.key) == u(g.target.elts[0]) and u(call.args[0]) == u(g.target.elts[0])  # type: ignore[union-attr]
                    detail = "the task map is filtered or keyed by something else than the component id"
                if isinstance(n, ast.For) and any(x is call for x in ast.walk(n)) and u(n.iter) == items:
                    direct = [s for s in n.body if any(x is call for x in ast.walk(s))]
                    ok = bool(direct) and isinstance(direct[0], ast.Assign) \
                        and u(direct[0].targets[0]) == f"tasks[{u(n.target.elts[0])}]" \
                        and u(call.args[0]) == u(n.target.elts[0]) \
                        and not any(isinstance(x, (ast.If, ast.Continue, ast.Break)) for s in n.body
                                    for x in ast.walk(s))  # type: ignore[union-attr]
                    detail = "set_power is not issued unconditionally for every allocation"
            # the power sent is the allocated one
            if ok:
                pw = u(call.args[1]) if len(call.args) > 1 else ""
                ok = pw in ("power", "power.as_watts()")
                detail = f"the power sent (`{pw}`) is not the entry's allocated power"
        run.check(ok, "C15.ALL", fn.qual, f"one set_power per entry of {items}", detail,
                  node=fn.node, file=fn.file)
        # wait(all, timeout) then cancel+await pending before parsing
        cfg = CFG(fn.node, fn.file)
        waits = [x for x in nodes_with_call(cfg, lambda c: u(c.func) == "asyncio.wait") if cfg.is_await(x)]
        ok = len(waits) == 1
        wit = None
        if ok:
            wcall = node_calls(cfg, waits[0], lambda c: u(c.func) == "asyncio.wait")[0]
            kws = {k.arg: u(k.value) for k in wcall.keywords}
            ok = u(wcall.args[0]) == "tasks.values()" and "timeout" in kws and \
                kws.get("return_when", "asyncio.ALL_COMPLETED") == "asyncio.ALL_COMPLETED"
            s = cfg.nodes[waits[0]].ast
            pend = u(s.targets[0].elts[1]) if isinstance(s, ast.Assign) and isinstance(  # type: ignore[union-attr]
                s.targets[0], ast.Tuple) else None
            if ok and pend:
                cancels = nodes_with_call(cfg, lambda c: method_call(c, "self", "_cancel_tasks")
                                          and [u(a) for a in c.args] == [pend])
                if not cancels:
                    c1 = nodes_with_call(cfg, lambda c: isinstance(c.func, ast.Attribute)
                                         and c.func.attr == "cancel")
                    g1 = [x for x in nodes_with_call(cfg, lambda c: u(c.func) == "asyncio.gather"
                                                     and any(u(a) == f"*{pend}" for a in c.args))
                          if cfg.is_await(x)]
                    cancels = g1 if c1 and g1 and cfg.path(c1[0], g1) is not None else []
                readers = nodes_with_call(cfg, lambda c: (isinstance(c.func, ast.Attribute)
                                          and c.func.attr in ("result", "_parse_result")))
                ok = bool(cancels) and bool(readers)
                if ok:
                    wit = cfg.path(waits[0], readers, avoid=cancels)
                    ok = wit is None
        run.check(ok, "C15.ALL", fn.qual, "wait(all tasks, timeout) -> cancel+await pending -> read results",
                  "results are read while timed-out calls may still be running (not cancelled and "
                  "awaited first), or not all calls are awaited", node=fn.node, file=fn.file,
                  path=cfg.describe_path(wit))
    # _cancel_tasks cancels all and awaits
    ct = prog.func(f"{BM}._cancel_tasks")
    run.analysed(ct.qual)
    txt = u(ct.node)
    run.check(".cancel()" in txt and "await asyncio.gather(*tasks, return_exceptions=True)" in txt,
              "C15.ALL", ct.qual, "cancel every task then gather(return_exceptions=True)",
              "_cancel_tasks does not cancel and await every pending task", node=ct.node, file=ct.file)
    # battery: what is parsed is what was sent
    sd = prog.func(f"{BM}._set_distributed_power")
    calls = find_calls(sd.node, lambda c: method_call(c, "self", "_parse_result"))
    ok = len(calls) == 1 and [u(a) for a in calls[0].args][:2] == ["tasks", "distribution.distribution"]
    run.check(ok, "C15.ALL", sd.qual, "self._parse_result(tasks, distribution.distribution, ...)",
              "results are parsed against a different allocation map than the one sent",
              node=sd.node, file=sd.file)


CONTROLS = [
    ("continue in one handler", "microgrid._power_distributing._component_managers._pv_inverter_manager._pv_inverter_manager",
     "                _logger.warning(\n                    \"Timeout while setting power to PV inverter %s\", component_id\n                )\n",
     "                _logger.warning(\n                    \"Timeout while setting power to PV inverter %s\", component_id\n                )\n                continue\n",
     "C15.FAIL"),
    ("CancelledError handler dropped", "microgrid._power_distributing._component_managers._battery_manager",
     "            except asyncio.exceptions.CancelledError:\n", "            except TimeoutError:\n", "C15.FAIL"),
    ("succeeded_power = request.power", "microgrid._power_distributing._component_managers._battery_manager",
     "                succeeded_power=Power.from_watts(distributed_power_value),\n",
     "                succeeded_power=request.power,\n", "C15.ID"),
    ("failed power added twice", "microgrid._power_distributing._component_managers._battery_manager",
     "                failed_power += distribution[inverter_id]\n",
     "                failed_power += distribution[inverter_id]\n                failed_power += distribution[inverter_id]\n",
     "C15.FAIL"),
    ("zero set-points filtered out", "microgrid._power_distributing._component_managers._battery_manager",
     "for inverter_id, power in distribution.distribution.items()\n        }",
     "for inverter_id, power in distribution.distribution.items()\n            if power != 0.0\n        }",
     "C15.ALL"),
    ("succeeded set not reduced by failed", "microgrid._power_distributing._component_managers._battery_manager",
     "succeed_batteries = set(battery_distribution.keys()) - failed_batteries",
     "succeed_batteries = set(battery_distribution.keys())", "C15.SETS"),
]


def run_rules(run: Run, prog: Program) -> None:
    check_identity(run, prog)
    check_fail(run, prog)
    check_sets(run, prog)
    check_all(run, prog)


def check(run: Run, prog: Program, tier: str) -> str:
    run.rule("C15.ID", "succeeded + failed + excess normalises to request.power for every "
             "Success/PartialFailure built by the battery and PV managers")
    run.rule("C15.FAIL", "every exceptional exit of task.result() is caught and books the failed "
             "power and failed components exactly once; the success path books neither")
    run.rule("C15.SETS", "succeeded and failed component sets are complementary by construction")
    run.rule("C15.ALL", "one set_power per allocation entry; timed-out calls are cancelled and "
             "awaited before results are read; parsed map == sent map")
    run_rules(run, prog)
    run.floor("C15.ID", 10)
    run.floor("C15.FAIL", 20)
    run.floor("C15.SETS", 5)
    run.floor("C15.ALL", 5)
    from ..engine.controls import run_controls

    run_controls(run, CONTROLS, run_rules, tier)
    run.assume("unit wrappers (Power.from_watts / as_watts) are value-preserving; a field whose "
               "only writers are zero constants is zero")
    run.undecided("the numeric content of the allocations (C01); that the PV water-filling keeps "
                  "remaining_power = request.power - Σ allocations is a paired-update fact checked "
                  "under C15.ID only through the fields' normal forms")
    return ("Term normal forms (polynomials over opaque atoms, single-definition locals inlined, "
            "constant-only fields folded) decide the accounting identity of every result "
            "constructor; exception-aware CFG path rules decide failure-handling totality, "
            "set complementarity and send/await discipline.")
