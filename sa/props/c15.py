"""C15  Distribution results truthfully account for the requested power.

C15.ID    accounting identity as a term normal form: succeeded + failed + excess == request.power
          for every Success/PartialFailure constructed by the battery and PV managers -- each result type on its
          own: figures computed once ahead of the choice of result type are read at each constructor (in a Success,
          which is only built when the failed set is empty, the failed-power accumulator is zero); and the excess a PV
          result reports is the ledger the water-filling hands in (request.power - Σ set-points), with nothing of the
          per-call outcomes (failed / succeeded power) folded into it.
C15.FAIL  failure totality on the exception-aware CFG: every way of leaving task.result()
          through an exception (Exception family or CancelledError) is caught and reaches the
          failed-power and failed-set updates exactly once; the success path reaches neither; no
          normal path through an iteration of the result loop goes round the read of its own task's
          outcome, and the loop is never left (break / return) while tasks remain.
C15.SETS  succeeded/failed component sets are complementary by construction.
C15.ALL   one set_power per entry of the distribution; timed-out calls are cancelled and
          awaited before results are read.

All rules work on the *analysis view* of a function (`_norm`: private helpers spliced in -- also
helpers that return from several if/else arms --, single-assignment locals substituted) and bind
roles by dataflow, not by local names (see `_c15_util`):
  * the request is the parameter typed `Request`; constructor fields are taken by field name whether
    passed by keyword or by position (dataclass field order read from result.py);
  * the failed-power accumulator / failed set are the locals that flow into
    `PartialFailure(failed_power=, failed_components=)` -- for the battery manager through the pair
    returned by `_parse_result` -> `_set_distributed_power` -> unpacked in `_distribute_power`;
  * the allocation map is the parameter whose entry `X[key]` is added to the failed power; the task map
    is the dict that receives the `set_power` tasks; the key is the result loop's key variable;
  * "accumulate" is `L += e` / `L = L + e` / `L = e + L` (polynomial normal form), "set growth" is
    `.add` / `.update` / `|=` / `S = S | ..`; guards (`len(F) > 0`, `F`, `not len(F) == 0`, ternaries,
    early returns, swapped arms) are decided on the CFG with canonical emptiness conditions;
  * flag idioms (`failed = True .. failed = False .. if failed:` in any polarity) are decided by the
    boolean-flag-sensitive path search, the same way for handler paths and for the success path.
"""
from __future__ import annotations

import ast
from typing import Any

from ..engine.cfg import CFG
from ..engine.normalize import ANCHOR_NAMES
from ..engine.report import AnalysisError, Run
from ..engine.resolver import ClassInfo, FuncInfo, Program, body_walk
from ..engine.terms import Poly, TermEval, flow_eval
from ..engine.util import find_calls, method_call, node_calls, node_writes, nodes_with_call, normal_edge, u
from ._c15_util import (
    all_ctors, analysis_view, anchors, bound_args, cancel_and_gather, ctor_kind, guarded_by_emptiness, loop_binding, match_send,
    method_params, name_delta, result_fields, self_calls, set_growth, set_term, show_term,
    subscript_atom, typed_param,
    alias_closure, callee_param_changes, inplace_changes, shared_names,
)

BM = "microgrid._power_distributing._component_managers._battery_manager:BatteryManager"
PV = ("microgrid._power_distributing._component_managers._pv_inverter_manager."
      "_pv_inverter_manager:PVManager")


def const_fields(prog: Program, cls: ClassInfo) -> dict[str, Poly]:
    """self.<field> whose only writers in the class are zero constants."""
    writers: dict[str, list[ast.AST]] = {}
    for c in prog.mro(cls):
        for m in c.methods.values():
            for n in body_walk(m.node):
                tgt = val = None
                if isinstance(n, ast.Assign) and len(n.targets) == 1:
                    tgt, val = n.targets[0], n.value
                elif isinstance(n, ast.AnnAssign) and n.value is not None:
                    tgt, val = n.target, n.value
                elif isinstance(n, ast.AugAssign):
                    tgt, val = n.target, None
                if isinstance(tgt, ast.Attribute) and u(tgt.value) == "self":
                    writers.setdefault(tgt.attr, []).append(val)  # type: ignore[arg-type]
    out = {}
    te = TermEval()
    for name, vals in writers.items():
        if vals and all(v is not None and te.ev(v).is_zero() for v in vals):
            out[name] = Poly()
    return out


def _norm(prog: Program, fn: FuncInfo) -> FuncInfo:
    """Analysis view of a function: simple private helpers spliced in, single-assignment locals
    substituted (if/else is kept as control flow: guards are read from the CFG)."""
    return analysis_view(prog, fn)


def _covered_at_call_sites(prog: Program, cls: ClassInfo, m: FuncInfo) -> bool:
    """A private, non-anchored helper whose every call site inside the class is spliced into the
    caller's analysis view is decided there (in context), not on its own."""
    anc = anchors(prog)
    if not m.name.startswith("_") or m.name.startswith("__"):
        return False
    # anchored is the function that plays the role, not a helper of another class that carries the same name
    if any(m.node is n for n in anc.nodes) or (m.name in ANCHOR_NAMES and m.name not in anc.names | anc.hints):
        return False
    callers = [c for c in cls.methods.values() if c is not m and m.name in self_calls(c.node)]
    return bool(callers) and all(m.name not in self_calls(_norm(prog, c).node) for c in callers)


def request_param(fn: FuncInfo) -> str:
    req = typed_param(fn, "Request", "request")
    if req is None:
        raise AnalysisError(f"{fn.qual}: no `Request` parameter to account against")
    return req


def ctor_fields(prog: Program, fn: FuncInfo, c: ast.Call) -> tuple[str, dict[str, ast.AST]]:
    """(kind, field name -> argument) of a Success/PartialFailure construction (keyword or positional)."""
    kind = ctor_kind(c)
    fields = bound_args(c, result_fields(prog, kind), f"{fn.qual}: {kind}(...)")
    need = ["request", "succeeded_power", "succeeded_components", "excess_power"] + (
        ["failed_power", "failed_components"] if kind == "PartialFailure" else [])
    if any(k not in fields for k in need):
        raise AnalysisError(f"{fn.qual}: {kind}(...) without the fields {need}")
    return kind, fields


def _site(cfg: CFG, fn: FuncInfo, c: ast.AST) -> int:
    sites = cfg.node_containing(c)
    if not sites:
        raise AnalysisError(f"{fn.qual}: constructor site not found in the CFG")
    return sites[0]


def failed_accumulators(prog: Program, fn: FuncInfo, cfg: CFG) -> tuple[str, str] | None:
    """(failed-power local, failed-set local) that flow into the PartialFailure(s) built by `fn`, when they are
    one pair of plain locals whose only writers are the ones C15.FAIL judges: a zero start, `fp += X[key]`
    accumulation, or the pair handed back by an awaited method of the same object.  None otherwise."""
    got: set[tuple[str | None, str | None]] = set()
    for c in all_ctors(fn.node):
        if ctor_kind(c) != "PartialFailure":
            continue
        _k, f = ctor_fields(prog, fn, c)
        site = _site(cfg, fn, c)
        fp = flow_eval(cfg, site, f["failed_power"]).as_atom()
        fs = set_term(cfg, site, f["failed_components"])
        got.add((fp if fp is not None and fp.isidentifier() else None, fs[1] if fs[0] == "name" else None))
    if len(got) != 1:
        return None
    (fp, fs), = got
    if fp is None or fs is None or fp == fs:
        return None
    te = TermEval()
    for n in cfg.nodes:
        if n.ast is None or n.kind not in ("stmt", "for", "with") or not any(u(w) == fp for w in node_writes(cfg, n.id)):
            continue
        s = n.ast
        nd = name_delta(s, te) if n.kind == "stmt" else None
        if nd is not None and nd[0] == fp and subscript_atom(nd[1]) is not None:
            continue
        val = s.value if isinstance(s, (ast.Assign, ast.AnnAssign)) else None
        tgt = (s.targets[0] if len(s.targets) == 1 else None) if isinstance(s, ast.Assign) else getattr(s, "target", None)
        if n.kind == "stmt" and val is not None and isinstance(tgt, ast.Name) and te.ev(val).is_zero():
            continue
        call = _unawait(val)
        if n.kind == "stmt" and isinstance(tgt, (ast.Tuple, ast.List)) and isinstance(call, ast.Call) \
                and isinstance(call.func, ast.Attribute) and u(call.func.value) == "self" \
                and {fp, fs} <= {u(e) for e in tgt.elts}:
            continue
        return None
    return fp, fs


def nothing_failed(prog: Program, fn: FuncInfo, cfg: CFG, c: ast.Call) -> str | None:
    """The failed-power local that is known to be zero where the Success `c` is built: `c` is only evaluated when the
    failed set is empty, and (C15.FAIL: starts at zero, grows exactly in the iterations that grow the failed set; C15.FROZEN:
    the set never shrinks) the failed power of a request whose failed set is empty is zero.  So a figure shared by both
    result types (`succeeded = request - excess - failed` computed once, ahead of the choice) is read in the Success arm
    as what it is there."""
    if ctor_kind(c) != "Success":
        return None
    acc = failed_accumulators(prog, fn, cfg)
    if acc is None or not guarded_by_emptiness(cfg, _site(cfg, fn, c), c, acc[1], want_nonempty=False):
        return None
    return acc[0]


def without_atom(p: Poly, atom: str | None) -> Poly:
    """`p` with `atom` := 0."""
    if atom is None:
        return p
    return Poly({m: k for m, k in p.terms.items() if all(a != atom for a, _e in m)})


def check_identity(run: Run, prog: Program) -> None:
    n_ctor = 0
    for cq in (BM, PV):
        cls = prog.cls(cq)
        consts = const_fields(prog, cls)
        builders = {m0.name for m0 in cls.methods.values() if all_ctors(m0.node)}
        for _ in range(2):  # methods that obtain a result from a (spliceable) builder helper
            builders |= {m0.name for m0 in cls.methods.values() if builders & set(self_calls(m0.node))}
        for m0 in cls.methods.values():
            if m0.name not in builders or _covered_at_call_sites(prog, cls, m0):
                continue
            m = _norm(prog, m0)
            ctors = all_ctors(m.node)
            if not ctors:
                continue
            run.analysed(m.qual)

            def hook(e: ast.AST, te: TermEval, consts=consts) -> Poly | None:
                if isinstance(e, ast.Attribute) and u(e.value) == "self" and e.attr in consts:
                    return consts[e.attr]
                return None

            cfg = CFG(m.node, m.file)
            req = request_param(m)
            want = Poly.atom(f"{req}.power")
            for c in ctors:
                n_ctor += 1
                kind, fields = ctor_fields(prog, m, c)
                need = ["succeeded_power", "excess_power"] + (["failed_power"] if kind == "PartialFailure" else [])
                site = _site(cfg, m, c)
                total = Poly()
                for k in need:
                    total = total + flow_eval(cfg, site, fields[k], hook)
                # a Success is built when nothing failed: the failed power is zero there
                total = without_atom(total, nothing_failed(prog, m, cfg, c))
                ok = total == want
                detail = ""
                if not ok:
                    zero_fields = [f"self.{a.attr}" for k in need for a in ast.walk(fields[k])
                                   if isinstance(a, ast.Attribute) and u(a.value) == "self"
                                   and a.attr in consts]
                    detail = (f"{' + '.join(need)} normalises to `{total!r}`, not `{req}.power` (off by `{total - want!r}`: "
                              "that much of the request is reported twice, or not at all).  The identity is demanded of every "
                              "result that is constructed: a figure computed once for both result types must also be right "
                              "when the failed power is not zero (an excess derived as request - succeeded contains the "
                              "failed set-points a second time)"
                              + (f"; note {sorted(set(zero_fields))} is only ever assigned "
                                 "a zero constant in this class" if zero_fields else ""))
                run.check(ok, "C15.ID", m.qual,
                          f"{kind}(succeeded_power={u(fields['succeeded_power'])})",
                          f"the reported powers do not add up to the request: {detail}",
                          node=c, file=m.file,
                          instance=f"{m.qual}: {kind} succeeded+failed+excess == request.power")
                carried = flow_eval(cfg, site, fields["request"], hook).as_atom()
                run.check(carried == req, "C15.ID", m.qual,
                          f"{kind}(request=...)", "the result does not carry the processed request",
                          node=c, file=m.file, instance=f"{m.qual}: {kind} carries the request")
                run.sample({"function": m.qual, "result": kind, "sum_normal_form": repr(total)})
    if n_ctor < 5:
        raise AnalysisError(f"C15.ID: only {n_ctor} result constructors found")


# ---------------------------------------------------------------------------------------------
# role binding across BatteryManager._distribute_power -> _set_distributed_power -> _parse_result
def _is_result_call(c: ast.Call) -> bool:
    return isinstance(c.func, ast.Attribute) and c.func.attr == "result" and not c.args and not c.keywords


def _unawait(e: ast.AST | None) -> ast.AST | None:
    return e.value if isinstance(e, ast.Await) else e


def _unpack_of(fn: FuncInfo, callee: str) -> tuple[ast.Assign, ast.Call, list[str]]:
    """The statement `a, b = [await] self.<callee>(...)` of `fn`."""
    hits = []
    for s in body_walk(fn.node):
        if isinstance(s, ast.Assign) and len(s.targets) == 1 and isinstance(s.targets[0], (ast.Tuple, ast.List)):
            v = _unawait(s.value)
            if isinstance(v, ast.Call) and method_call(v, "self", callee) \
                    and all(isinstance(e, ast.Name) for e in s.targets[0].elts):
                hits.append((s, v, [e.id for e in s.targets[0].elts]))  # type: ignore[union-attr]
    if len(hits) != 1:
        raise AnalysisError(f"{fn.qual}: expected one `x, y = self.{callee}(...)`, found {len(hits)}")
    return hits[0]


def _passthrough(prog: Program, fn: FuncInfo, callee: str) -> tuple[ast.Call, list[int]]:
    """`fn` returns the pair produced by `self.<callee>(...)`; returns (the call, permutation)."""
    rets = [n for n in body_walk(fn.node) if isinstance(n, ast.Return)]
    calls = find_calls(fn.node, lambda c: method_call(c, "self", callee))
    if len(calls) != 1 or not rets:
        raise AnalysisError(f"{fn.qual}: expected one call of self.{callee} and a return")
    call = calls[0]
    perm: list[int] | None = None
    for r in rets:
        v = _unawait(r.value)
        if v is call:
            p = [0, 1]
        elif isinstance(v, ast.Tuple) and len(v.elts) == 2 and all(isinstance(e, ast.Name) for e in v.elts):
            _s, _c, names = _unpack_of(fn, callee)
            if sorted(e.id for e in v.elts) != sorted(names) or len(set(names)) != 2:  # type: ignore[union-attr]
                raise AnalysisError(f"{fn.qual}: returned pair is not the pair produced by self.{callee}")
            p = [names.index(e.id) for e in v.elts]  # type: ignore[union-attr]
        else:
            raise AnalysisError(f"{fn.qual}: a return is not the (failed power, failed set) pair of self.{callee}")
        if perm is not None and p != perm:
            raise AnalysisError(f"{fn.qual}: returns disagree on the order of the pair")
        perm = p
    assert perm is not None
    return call, perm


class BatteryRoles:
    """Who is who in the battery manager, from dataflow:

    req / dist           the Request and DistributionResult parameters of _distribute_power
    failed_set / failed_pow   the names bound from the pair returned by _set_distributed_power that
                         flow into PartialFailure(failed_components=, failed_power=)
    pr_pow / pr_set      the locals of _parse_result returned at those positions
    """

    def __init__(self, prog: Program) -> None:
        anc = anchors(prog)
        self.dp = _norm(prog, anc.get("bm.dist"))
        self.sd = _norm(prog, anc.get("bm.send"))
        self.pr = _norm(prog, anc.get("bm.parse"))
        dp = self.dp
        self.req = request_param(dp)
        dist = typed_param(dp, "DistributionResult", "distribution")
        if dist is None:
            raise AnalysisError(f"{dp.qual}: no `DistributionResult` parameter")
        self.dist = dist
        self.dp_cfg = CFG(dp.node, dp.file)
        # the sending routine may have been merged into this function: then the pair comes straight
        # from the result parser
        self.merged = self.sd.qual == dp.qual
        self.unpack, self.sd_call, names = _unpack_of(dp, self.pr.name if self.merged else self.sd.name)
        pfs = [c for c in all_ctors(dp.node) if ctor_kind(c) == "PartialFailure"]
        if not pfs:
            raise AnalysisError(f"{dp.qual}: no PartialFailure is ever built")
        if len(names) != 2 or len(set(names)) != 2:
            raise AnalysisError(f"{dp.qual}: _set_distributed_power's result is not unpacked into a pair")
        # which element of the pair is reported as failed power / failed components
        self.issues: list[tuple[str, ast.AST, str]] = []
        pow_idx: set[int] = set()
        set_idx: set[int] = set()
        for c in pfs:
            _k, f = ctor_fields(prog, dp, c)
            site = _site(self.dp_cfg, dp, c)
            fs = set_term(self.dp_cfg, site, f["failed_components"])
            fp = flow_eval(self.dp_cfg, site, f["failed_power"]).as_atom()
            if fs[0] == "name" and fs[1] in names:
                set_idx.add(names.index(fs[1]))
            else:
                self.issues.append(("C15.SETS", c, "PartialFailure.failed_components is not the failed set "
                                    "returned by _set_distributed_power"))
            if fp in names:
                pow_idx.add(names.index(fp))  # type: ignore[arg-type]
            else:
                self.issues.append(("C15.ID", c, "PartialFailure.failed_power is not the failed power "
                                    "returned by _set_distributed_power"))
        if len(pow_idx) > 1 or len(set_idx) > 1 or (not pow_idx and not set_idx):
            raise AnalysisError(f"{dp.qual}: failed power / failed set positions of the returned pair are ambiguous")
        i_pow = next(iter(pow_idx)) if pow_idx else 1 - next(iter(set_idx))
        i_set = next(iter(set_idx)) if set_idx else 1 - i_pow
        if i_pow == i_set:
            raise AnalysisError(f"{dp.qual}: one element of the returned pair is used as failed power and failed set")
        self.failed_pow, self.failed_set = names[i_pow], names[i_set]
        # through _set_distributed_power ...
        if self.merged:
            self.pr_call, perm = self.sd_call, [0, 1]
        else:
            self.pr_call, perm = _passthrough(prog, self.sd, self.pr.name)
        j_pow, j_set = perm[i_pow], perm[i_set]
        self.sd_set_pos, self.pr_set_pos = i_set, j_set   # where the failed set sits in the returned pairs
        # ... into _parse_result's returned pair
        rets = [n for n in body_walk(self.pr.node) if isinstance(n, ast.Return)]
        got: set[tuple[str, str]] = set()
        for r in rets:
            v = r.value
            if not (isinstance(v, ast.Tuple) and len(v.elts) == 2):
                raise AnalysisError(f"{self.pr.qual}: a return is not a (failed power, failed set) pair")
            pair = []
            for e, what, rule in ((v.elts[j_pow], "failed power", "C15.FAIL"), (v.elts[j_set], "failed set", "C15.FAIL")):
                if isinstance(e, ast.Name):
                    pair.append(e.id)
                else:
                    # e.g. a constant: the local is never updated, so the view shows its only value
                    pair.append(f"<{what}>")
                    self.issues.append((rule, r, f"the {what} returned by {self.pr.name} is `{u(e)}`, not an "
                                        "accumulator updated in the result loop"))
            got.add((pair[0], pair[1]))
        if len(got) != 1:
            raise AnalysisError(f"{self.pr.qual}: returns disagree on the (failed power, failed set) pair")
        (self.pr_pow, self.pr_set), = got


def pv_roles(prog: Program, pv: FuncInfo, cfg: CFG) -> tuple[str, str]:
    """(failed-power accumulator, failed set) of PVManager._set_api_power: the locals that flow into
    PartialFailure(failed_power=, failed_components=)."""
    got: set[tuple[str, str]] = set()
    for c in all_ctors(pv.node):
        if ctor_kind(c) != "PartialFailure":
            continue
        _k, f = ctor_fields(prog, pv, c)
        site = _site(cfg, pv, c)
        fp = flow_eval(cfg, site, f["failed_power"]).as_atom()
        fs = set_term(cfg, site, f["failed_components"])
        if fs[0] != "name":
            raise AnalysisError(f"{pv.qual}: PartialFailure(failed_components=) is not a plain accumulator")
        if fp is None or not fp.isidentifier():
            fp = "<failed power>"   # e.g. a constant: never updated; reported as missing bookkeeping
        got.add((fp, fs[1]))
    if len(got) != 1:
        raise AnalysisError(f"{pv.qual}: expected one (failed power, failed set) pair, found {len(got)}")
    return next(iter(got))


# ---------------------------------------------------------------------------------------------
def iteration_path_with_only(cfg: CFG, first: int, header: int, with_nodes: list[int], without_nodes: list[int],
                             flags: set[str]) -> list[tuple[int, str]] | None:
    """A path through ONE iteration of the loop (from its first body node back to the header or to the
    function's normal exit) that passes a `with_nodes` statement but no `without_nodes` statement and
    is consistent with the boolean flags assigned along it; None if there is none."""
    avoid = set(without_nodes)
    w = set(with_nodes)
    if first in avoid:
        return None
    start = (first, (), first in w)
    prev: dict[tuple, tuple[tuple, str]] = {}
    seen = {start}
    queue = [start]
    qi = 0
    while qi < len(queue):
        cur = queue[qi]
        qi += 1
        n, st, hit = cur
        for m, lab in cfg.succ[n]:
            if m in avoid or not cfg._flag_edge_ok(n, lab, st, flags):
                continue
            st2 = st if lab.startswith("exc:") else cfg._flag_after(n, st, flags)
            if m in (header, cfg.exit):
                if hit:
                    out = [(m, lab)]
                    c = cur
                    while c != start:
                        pc, plab = prev[c]
                        out.append((c[0], plab))
                        c = pc
                    out.append((first, ""))
                    return list(reversed(out))
                continue
            if m == cfg.raise_exit:
                continue
            nxt = (m, st2, hit or m in w)
            if nxt in seen:
                continue
            seen.add(nxt)
            prev[nxt] = (cur, lab)
            queue.append(nxt)
    return None


def result_loop(cfg: CFG, qual: str) -> tuple[int, Any, str, str, set[int]]:
    """(result() node, loop header, key variable, text of the iterated task map, loop body nodes)."""
    res_nodes = nodes_with_call(cfg, _is_result_call)
    if len(res_nodes) != 1:
        raise AnalysisError(f"{qual}: expected one task.result() site, found {len(res_nodes)}")
    r = res_nodes[0]
    loops = [n for n in cfg.nodes if n.kind == "for" and r in cfg.reachable(
        [m for m, lab in cfg.succ[n.id] if lab == "iter"], avoid=[n.id])]
    if len(loops) != 1:
        raise AnalysisError(f"{qual}: result loop not identified")
    h = loops[0]
    b = loop_binding(h.ast)
    if b is None:
        raise AnalysisError(f"{qual}: the result loop does not iterate over the entries of the task map")
    tasks_map, key, task_var = b
    res_call = node_calls(cfg, r, _is_result_call)[0]
    recv = u(res_call.func.value)  # type: ignore[attr-defined]
    if task_var is None and recv.isidentifier() and isinstance(h.ast, ast.For):
        # `for k in M: t = M[k]; ... t.result()`: a local bound once, by a top-level statement of the loop body
        # ahead of the read, to the entry of the current key is that entry
        binds = [s for s in ast.walk(h.ast) if isinstance(s, (ast.Assign, ast.AnnAssign, ast.AugAssign, ast.For, ast.With,
                                                                  ast.NamedExpr, ast.ExceptHandler))
                 and (s.name == recv if isinstance(s, ast.ExceptHandler) else any(
                     isinstance(x, ast.Name) and x.id == recv and isinstance(x.ctx, ast.Store) for x in ast.walk(s)))
                 and s is not h.ast]
        top = [i for i, s in enumerate(h.ast.body) if any(x is res_call for x in ast.walk(s))]
        if len(binds) == 1 and top and binds[0] in h.ast.body[:top[0]] and isinstance(binds[0], (ast.Assign, ast.AnnAssign)) \
                and binds[0].value is not None and u(binds[0].value) == f"{tasks_map}[{key}]" \
                and u(binds[0].targets[0] if isinstance(binds[0], ast.Assign) else binds[0].target) == recv \
                and not any(isinstance(x, ast.Name) and x.id == key and isinstance(x.ctx, ast.Store)
                            for s in h.ast.body for x in ast.walk(s)):
            recv = f"{tasks_map}[{key}]"
    if recv != (task_var if task_var is not None else f"{tasks_map}[{key}]"):
        raise AnalysisError(f"{qual}: .result() is not read from the task of the loop entry")
    body = cfg.reachable([m for m, lab in cfg.succ[h.id] if lab == "iter"], avoid=[h.id])
    return r, h, key, tasks_map, body


def _cancel_excluded(cfg: CFG, first: int, r: int) -> bool:
    """Every path of the iteration to the result() node passes the `not cancelled` outcome of a test of
    `<task>.cancelled()` on the very task whose result is read."""
    from ..engine.util import canon

    recv = u(node_calls(cfg, r, _is_result_call)[0].func.value)  # type: ignore[attr-defined]
    probe = ("truthy", f"{recv}.cancelled()")

    def edge_ok(a: int, _b: int, lab: str) -> bool:
        n = cfg.nodes[a]
        if n.kind == "test" and n.ast is not None and lab in ("true", "false"):
            c = canon(n.ast)
            if (c == probe and lab == "false") or (c == ("not", probe) and lab == "true"):
                return False
        return True

    return first != r and cfg.path(first, [r], edge_ok=edge_ok) is None


def _loop_leavers(loop: ast.AST) -> list[ast.AST]:
    """`break` statements that end this loop and `return` statements inside its body (nested loops keep their own
    breaks, nested functions their own returns)."""
    out: list[ast.AST] = []

    def go(stmts: list[ast.stmt], own: bool) -> None:
        for st in stmts:
            if isinstance(st, (ast.FunctionDef, ast.AsyncFunctionDef, ast.ClassDef, ast.Lambda)):
                continue
            if isinstance(st, ast.Return) or (own and isinstance(st, ast.Break)):
                out.append(st)
            inner = isinstance(st, (ast.For, ast.AsyncFor, ast.While))
            for fld in ("body", "orelse", "finalbody"):
                sub = getattr(st, fld, None)
                if isinstance(sub, list) and sub and isinstance(sub[0], ast.stmt):
                    # the `else:` of a nested loop runs after it ended: a break there belongs to this loop again
                    go(sub, own and not (inner and fld == "body"))
            for hd in getattr(st, "handlers", []) or []:
                go(hd.body, own)
            for case in getattr(st, "cases", []) or []:
                go(case.body, own)

    go(list(getattr(loop, "body", [])), True)
    return out


def booking_nodes(cfg: CFG, body: set[int], key_var: str, fp_name: str, fs_name: str
                  ) -> tuple[list[int], list[int], list[int], set[str]]:
    """Inside the result loop: (nodes `fp += X[key]` in any spelling, nodes growing the failed set,
    other writes of the failed power, the maps X)."""
    te = TermEval()
    fp_nodes: list[int] = []
    fs_nodes: list[int] = []
    stray: list[int] = []
    allocs: set[str] = set()
    for x in sorted(body):
        n = cfg.nodes[x]
        if n.kind != "stmt" or n.ast is None:
            continue
        nd = name_delta(n.ast, te)
        if nd is not None and nd[0] == fp_name:
            sa = subscript_atom(nd[1])
            if sa is not None and sa[1] == key_var:
                fp_nodes.append(x)
                allocs.add(sa[0])
            else:
                stray.append(x)
        elif any(u(w) == fp_name for w in node_writes(cfg, x)):
            stray.append(x)
        g = set_growth(n.ast)
        if g is not None and g[0] == fs_name:
            fs_nodes.append(x)
    return fp_nodes, fs_nodes, stray, allocs


def check_fail(run: Run, prog: Program, roles: BatteryRoles, battery_only: bool = False) -> dict[str, dict[str, str]]:
    """Returns, per analysed function, the bindings other rules link to:
    alloc (the map whose entry is booked as failed power), tasks (the iterated task map).
    `battery_only`: decide BatteryManager._parse_result only (used by C01.B)."""
    out: dict[str, dict[str, str]] = {}
    targets = [(roles.pr, CFG(roles.pr.node, roles.pr.file), roles.pr_pow, roles.pr_set)]
    if not battery_only:
        pv = _norm(prog, anchors(prog).get("pv.api"))
        pv_cfg = CFG(pv.node, pv.file)
        targets.append((pv, pv_cfg, *pv_roles(prog, pv, pv_cfg)))
    for fn, cfg, fp_name, fs_name in targets:
        run.analysed(fn.qual)
        r, h, key_var, tasks_map, body = result_loop(cfg, fn.qual)
        # failed-power accumulation and failed-set update inside the loop
        te = TermEval()
        fp_nodes, fs_nodes, stray, allocs = booking_nodes(cfg, body, key_var, fp_name, fs_name)
        if not fp_nodes or not fs_nodes:
            run.violation("C15.FAIL", fn.qual, "failed bookkeeping",
                          f"no `{fp_name} += <allocation>[{key_var}]` / `{fs_name}` update found in the "
                          "result loop", node=fn.node, file=fn.file)
            continue
        for x in stray:
            run.violation("C15.FAIL", fn.qual, cfg.nodes[x].ast,
                          f"the failed power `{fp_name}` is changed by something else than the allocation of "
                          "the component whose call failed", node=cfg.nodes[x].ast, file=fn.file)
        if not stray:
            run.ok("C15.FAIL", f"{fn.qual}: inside the result loop the failed power only changes by the "
                               "allocation of the current component")
        run.ok("C15.FAIL", f"{fn.qual}: one result() site, read from the task of the current loop entry")
        rn = cfg.nodes[r]
        flags = cfg.bool_flags()
        first_body = [m0 for m0, lab in cfg.succ[h.id] if lab == "iter"]
        states = cfg.flag_states(first_body[0], flags, avoid=[h.id])
        at_r = sorted(states.get(r, {()}))
        # 1. every exception kind of result() is caught inside the loop
        for kind, word in (("E", "an Exception (rejection, client error, unexpected error)"),
                           ("C", "a CancelledError (timed-out call)")):
            tg = [m for m, lab in cfg.succ[r] if lab == f"exc:{kind}"]
            caught = bool(tg) and all(cfg.nodes[m].kind == "handler" for m in tg)
            if kind == "C" and not caught and _cancel_excluded(cfg, first_body[0], r):
                # result() is only reached when `<task>.cancelled()` is false: a timed-out (cancelled)
                # call never gets here; its booking is decided by the pairing rule below
                run.ok("C15.FAIL", f"{fn.qual}: result() {kind}-kind failures are caught")
                continue
            run.check(caught, "C15.FAIL", fn.qual, rn.ast,
                      f"{word} from task.result() is not caught by the result loop: the whole "
                      "accounting is abandoned and no result is reported", node=rn.ast, file=fn.file,
                      instance=f"{fn.qual}: result() {kind}-kind failures are caught")
            if not caught:
                continue
            for m in tg:
                hn = cfg.nodes[m]
                # 2. from the handler to the next iteration: failed power and failed set exactly once
                for nodes, what in ((fp_nodes, "failed power"), (fs_nodes, "failed component set")):
                    wit = None
                    for st in at_r:
                        wit = cfg.path_flags(m, [h.id, cfg.exit], flags, init=st, avoid=nodes)
                        if wit:
                            break
                    run.check(wit is None, "C15.FAIL", fn.qual, hn.ast,
                              f"the handler `{hn.label}` can finish the iteration without updating "
                              f"the {what}: a failed set-point is reported as succeeded",
                              node=hn.ast, file=fn.file, path=cfg.describe_path(wit),
                              instance=f"{fn.qual}: `{hn.label}` -> {what} updated")
                    twice = None
                    for x in nodes:
                        twice = cfg.path(x, nodes, avoid=[h.id], include_src=False)
                        if twice:
                            break
                    run.check(twice is None, "C15.FAIL", fn.qual, f"{what} updated once",
                              f"the {what} can be updated twice for one failed call",
                              node=hn.ast, file=fn.file, path=cfg.describe_path(twice),
                              instance=f"{fn.qual}: {what} updated at most once per call")
        # 3. the success path reaches neither: no non-exceptional path that is consistent with the
        #    boolean flags assigned along it leads from the normal continuation of result() to a
        #    failed-bookkeeping statement within the same iteration
        ok_succ = [m for m, lab in cfg.succ[r] if not lab.startswith("exc:")]
        hit = fp_nodes + fs_nodes
        wit = None
        for st in at_r:
            for s0 in ok_succ:
                if s0 in hit:
                    wit = [(r, ""), (s0, "next")]
                else:
                    wit = cfg.path_flags(s0, hit, flags, init=st, avoid=[h.id], edge_ok=normal_edge)
                if wit:
                    break
            if wit:
                break
        run.check(bool(ok_succ) and wit is None, "C15.FAIL", fn.qual, "success path",
                  "a successful set_power call is also booked as failed (the failed bookkeeping is "
                  "reachable when task.result() returns normally)", node=rn.ast,
                  file=fn.file, path=cfg.describe_path(wit),
                  instance=f"{fn.qual}: success path skips failed bookkeeping")
        # 3b. paired booking: within one iteration the failed set grows iff the failed power grows
        #     (whatever the way of detecting the failure: handler, flag, `task.cancelled()` test ...)
        for a_nodes, b_nodes, a_what, b_what in ((fs_nodes, fp_nodes, "failed component set", "failed power"),
                                                 (fp_nodes, fs_nodes, "failed power", "failed component set")):
            wit = iteration_path_with_only(cfg, first_body[0], h.id, a_nodes, b_nodes, flags)
            run.check(wit is None, "C15.FAIL", fn.qual, f"{a_what} updated => {b_what} updated",
                      f"an iteration can update the {a_what} without updating the {b_what}: the set-point of a "
                      "call booked as failed is not in the failed power (it is reported as succeeded), or vice versa",
                      node=cfg.nodes[a_nodes[0]].ast, file=fn.file, path=cfg.describe_path(wit),
                      instance=f"{fn.qual}: {a_what} updated => {b_what} updated in the same iteration")
        # 3c. every iteration reads the outcome of its OWN call: the bookkeeping above is decided from the
        #     result() node onwards, so it only covers the calls whose outcome is looked at.  No normal path
        #     through one iteration (first statement of the body -> next iteration / end of the function)
        #     may go round every read of the current task (`.result()`, or a `.cancelled()` / `.exception()`
        #     probe of that same task, whose booking 3b pairs).
        recv = u(node_calls(cfg, r, _is_result_call)[0].func.value)  # type: ignore[attr-defined]
        own_task = {recv, f"{tasks_map}[{key_var}]"}
        probes = {r} | {x for x in nodes_with_call(cfg, lambda c: isinstance(c.func, ast.Attribute)
                                                   and c.func.attr in ("cancelled", "exception") and not c.args
                                                   and not c.keywords and u(c.func.value) in own_task) if x in body}
        wit = None
        if first_body[0] not in probes:
            wit = cfg.path_flags(first_body[0], [h.id, cfg.exit], flags, avoid=probes, edge_ok=normal_edge)
        run.check(wit is None, "C15.FAIL", fn.qual, "every iteration reads the outcome of its call",
                  f"an iteration of the result loop can finish without reading the outcome of its own set_power call "
                  f"(`{recv}.result()` is bypassed): if that call was rejected, errored or timed out its set-point is "
                  "never added to the failed power and is reported as succeeded.  No guard may skip an entry of the "
                  "task map -- not a test on the component (already in the failed set / de-duplication of batteries "
                  "behind several inverters / membership), not a test on the set-point (zero, sign), not a `continue` or "
                  "`break` ahead of the try",
                  node=next((cfg.nodes[x].ast for x, _l in reversed(wit or []) if cfg.nodes[x].kind == "test"), rn.ast),
                  file=fn.file, path=cfg.describe_path(wit),
                  instance=f"{fn.qual}: no iteration of the result loop bypasses the read of its task's outcome")
        # 3d. ... and the loop inspects EVERY task: it is not left (break / return) while entries remain
        leave = _loop_leavers(h.ast)
        run.check(not leave, "C15.FAIL", fn.qual, "the result loop runs over every task",
                  "the result loop can be left (`break` / `return`) before the remaining tasks are inspected: the calls "
                  "after the first one that stops the loop are neither booked as failed nor named in a result set "
                  "(stop-at-first-failure, early return once something failed)",
                  node=leave[0] if leave else rn.ast, file=fn.file,
                  instance=f"{fn.qual}: the result loop is never left before the last task")
        # 4. what is added is the allocation of *this* component from the sent allocations
        s = cfg.nodes[fp_nodes[0]].ast
        alloc_name = sorted(allocs)[0]
        # ... a parameter of the result parser, or -- when sending and parsing share one function -- the
        # local map that C15.ALL requires the set_power loop to walk
        sends_here = any(isinstance(c, ast.Call) and isinstance(c.func, ast.Attribute) and c.func.attr == "set_power"
                         for c in ast.walk(fn.node))
        run.check(len(allocs) == 1 and (alloc_name in fn.params or sends_here), "C15.FAIL", fn.qual, s,
                  "failed power is not taken from the allocation map that was sent",
                  node=s, file=fn.file,
                  instance=f"{fn.qual}: failed power += <allocation parameter>[{key_var}] (sent allocations)")
        # failed power starts at zero: its only other write is one zero initialisation before the loop
        writes = [n.id for n in cfg.nodes if n.kind in ("stmt", "for", "with")
                  and any(u(w) == fp_name for w in node_writes(cfg, n.id))]
        inits = [x for x in writes if x not in fp_nodes and x not in stray]
        ok = len(inits) == 1 and inits[0] not in body and h.id != inits[0] \
            and isinstance(cfg.nodes[inits[0]].ast, (ast.Assign, ast.AnnAssign)) \
            and cfg.nodes[inits[0]].ast.value is not None \
            and te.ev(cfg.nodes[inits[0]].ast.value).is_zero()  # type: ignore[union-attr]
        run.check(ok, "C15.FAIL", fn.qual,
                  "failed power = 0 before the loop", "failed power does not start at zero", node=fn.node,
                  file=fn.file, instance=f"{fn.qual}: failed power starts at 0")
        out[fn.qual] = {"alloc": alloc_name, "tasks": tasks_map, "key": key_var}
    return out


# ---------------------------------------------------------------------------------------------
def _adds_key(s: ast.AST, name: str, key: str) -> bool | None:
    """True: `name` grows by exactly the loop key; False: grows by something else; None: untouched."""
    g = set_growth(s)
    if g is None or g[0] != name:
        return None
    ops = g[1]
    if len(ops) != 1:
        return False
    o = ops[0]
    is_add = isinstance(s, ast.Expr) and s.value.func.attr == "add"  # type: ignore[attr-defined]
    if is_add:
        return isinstance(o, ast.Name) and o.id == key
    return isinstance(o, (ast.Set, ast.List, ast.Tuple)) and len(o.elts) == 1 and u(o.elts[0]) == key


def check_sets(run: Run, prog: Program, roles: BatteryRoles) -> None:
    # battery: succeeded = addressed - failed
    fn, cfg = roles.dp, roles.dp_cfg
    run.analysed(fn.qual)
    ctors = all_ctors(fn.node)
    failed_name, dist = roles.failed_set, roles.dist
    # the addressed-battery map: the dict filled while walking every entry of the distribution that is sent
    src_forms = {f"{dist}.distribution.items()", f"{dist}.distribution.keys()", f"{dist}.distribution"}
    loops = [n for n in body_walk(fn.node) if isinstance(n, ast.For) and u(n.iter) in src_forms]
    filled: set[str] = set()
    for lp in loops:
        for x in ast.walk(lp):
            tgt = None
            if isinstance(x, ast.Assign) and len(x.targets) == 1:
                tgt = x.targets[0]
            elif isinstance(x, (ast.AugAssign, ast.AnnAssign)):
                tgt = x.target
            if isinstance(tgt, ast.Subscript) and isinstance(tgt.value, ast.Name):
                filled.add(tgt.value.id)
    if len(filled) != 1:
        raise AnalysisError(f"{fn.qual}: failed set / addressed battery map not identified")
    addressed = next(iter(filled))
    keys = ("keys", addressed)
    for c in ctors:
        kind, f = ctor_fields(prog, fn, c)
        site = _site(cfg, fn, c)
        t = set_term(cfg, site, f["succeeded_components"])
        diff_ok = t[0] == "diff" and t[1] == keys and t[2] in (("name", failed_name), ("keys", failed_name))
        if kind == "PartialFailure":
            ok = diff_ok and set_term(cfg, site, f["failed_components"]) == ("name", failed_name)
        else:
            # Success is built only when the failed set is empty (decided below): A - {} == A
            ok = t == keys or diff_ok
        run.check(ok, "C15.SETS", fn.qual, f"{kind}(succeeded_components={show_term(t)})",
                  "succeeded components are not `addressed - failed` (sets would overlap or miss "
                  "addressed components)", node=c, file=fn.file,
                  instance=f"{fn.qual}: {kind} succeeded components == addressed batteries"
                           + (" - failed" if kind == "PartialFailure" else ""))
    # Success only when nothing failed, PartialFailure only when something failed
    rebinds = [n.id for n in cfg.nodes if n.ast is not None and any(u(w) == failed_name for w in node_writes(cfg, n.id))]
    grows = [n.id for n in cfg.nodes if n.kind == "stmt" and n.ast is not None
             and (g := set_growth(n.ast)) is not None and g[0] == failed_name]
    ok = len(rebinds) == 1 and not grows
    for c in ctors:
        kind = ctor_kind(c)
        ok = ok and guarded_by_emptiness(cfg, _site(cfg, fn, c), c, failed_name, want_nonempty=(kind == "PartialFailure"))
    run.check(ok, "C15.SETS", fn.qual, "PartialFailure iff the failed set is non-empty",
              "Success/PartialFailure is not selected by whether any component failed",
              node=fn.node, file=fn.file, instance=f"{fn.qual}: PartialFailure iff failed set non-empty")
    # addressed batteries derive from every inverter of the distribution
    run.check(len(loops) == 1, "C15.SETS", fn.qual, "for <inverter, power> in <distribution>.distribution.items()",
              "the addressed battery set is not derived from every entry of the distribution",
              node=fn.node, file=fn.file,
              instance=f"{fn.qual}: addressed batteries derived from every entry of the distribution")
    # PV: per iteration exactly one of succeeded.add / failed.add
    pv = _norm(prog, anchors(prog).get("pv.api"))
    run.analysed(pv.qual)
    cfg = CFG(pv.node, pv.file)
    _r, hd, key, _tm, body = result_loop(cfg, pv.qual)
    all_pv_ctors = all_ctors(pv.node)
    # answers given before any call was made (the sending part may share a function with the early exits of
    # the public method): they address nothing, so they are a Success with an empty succeeded set
    ctors = [c for c in all_pv_ctors if cfg.path(hd.id, [_site(cfg, pv, c)]) is not None]
    for c in all_pv_ctors:
        if c in ctors:
            continue
        kind, f = ctor_fields(prog, pv, c)
        empty = isinstance(f["succeeded_components"], ast.Call) and u(f["succeeded_components"].func) in (
            "set", "frozenset") and not f["succeeded_components"].args
        run.check(kind == "Success" and empty, "C15.SETS", pv.qual, c,
                  "an answer given before any set_power call names succeeded or failed components",
                  node=c, file=pv.file, instance=f"{pv.qual}: an answer before any call addresses no component")
    succ_names: set[str] = set()
    fail_names: set[str] = set()
    carried = True
    for c in ctors:
        kind, f = ctor_fields(prog, pv, c)
        site = _site(cfg, pv, c)
        ts = set_term(cfg, site, f["succeeded_components"])
        tf = set_term(cfg, site, f["failed_components"]) if kind == "PartialFailure" else None
        ok = ts[0] == "name" and (tf is None or tf[0] == "name")
        carried = carried and ok
        if ts[0] == "name":
            succ_names.add(ts[1])
        if tf is not None and tf[0] == "name":
            fail_names.add(tf[1])
        run.check(ok, "C15.SETS", pv.qual, c, "the result does not carry the accumulated sets",
                  node=c, file=pv.file, instance=f"{pv.qual}: {kind} carries the accumulated component sets")
    if carried and len(succ_names) == 1 and len(fail_names) == 1 and succ_names != fail_names:
        s_name, f_name = next(iter(succ_names)), next(iter(fail_names))
        succ_add, fail_add, other = [], [], []
        for x in sorted(body):
            n = cfg.nodes[x]
            if n.kind != "stmt" or n.ast is None:
                continue
            for name, acc in ((s_name, succ_add), (f_name, fail_add)):
                a = _adds_key(n.ast, name, key)
                if a is True:
                    acc.append(x)
                elif a is False:
                    other.append(x)
        flags = cfg.bool_flags()
        first = [m for m, lab in cfg.succ[hd.id] if lab == "iter"][0]
        wit = None if first in succ_add + fail_add else cfg.path_flags(
            first, [hd.id], flags, avoid=succ_add + fail_add)
        both = None
        for a in succ_add:
            both = cfg.path(a, fail_add, avoid=[hd.id])
            if both:
                break
        if both is None:
            for a in fail_add:
                both = cfg.path(a, succ_add, avoid=[hd.id])
                if both:
                    break
        run.check(bool(succ_add) and bool(fail_add) and not other and wit is None and both is None,
                  "C15.SETS", pv.qual, "each component lands in exactly one of succeeded/failed",
                  "an addressed component can end in neither or in both result sets", node=pv.node,
                  file=pv.file, path=cfg.describe_path(wit or both),
                  instance=f"{pv.qual}: each component lands in exactly one of succeeded/failed")
        # Success only when nothing failed, PartialFailure only when something failed: the failed set is
        # complete (only filled inside the result loop) when the result kind is chosen
        touched = [n.id for n in cfg.nodes if n.ast is not None and n.kind in ("stmt", "for", "with") and (
            any(u(w) == f_name for w in node_writes(cfg, n.id))
            or (n.kind == "stmt" and (g := set_growth(n.ast)) is not None and g[0] == f_name))]
        late = [x for x in touched if x not in body and any(
            cfg.path(x, [_site(cfg, pv, c)], include_src=False) is not None
            and cfg.path(hd.id, [x]) is not None for c in ctors)]
        ok = not late
        for c in ctors:
            site = _site(cfg, pv, c)
            ok = ok and site not in body and guarded_by_emptiness(
                cfg, site, c, f_name, want_nonempty=(ctor_kind(c) == "PartialFailure"))
        run.check(ok, "C15.SETS", pv.qual, "PartialFailure iff the failed set is non-empty",
                  "Success/PartialFailure is not selected by whether any component failed",
                  node=pv.node, file=pv.file, instance=f"{pv.qual}: PartialFailure iff failed set non-empty")
    else:
        run.violation("C15.SETS", pv.qual, "each component lands in exactly one of succeeded/failed",
                      "the succeeded / failed sets of the results are not two accumulators filled per "
                      "set_power outcome", node=pv.node, file=pv.file)


# ---------------------------------------------------------------------------------------------
def _cancel_helper_ok(prog: Program, callee: FuncInfo) -> bool:
    """A cancel-and-wait helper `h(P)`: cancels every element of P, then awaits all of them
    (gather with return_exceptions=True) on every normal path."""
    ct = _norm(prog, callee)
    ps = method_params(ct)
    if len(ps) != 1:
        return False
    cfg = CFG(ct.node, ct.file)
    loops, gathers = cancel_and_gather(cfg, ps[0])
    return bool(loops) and bool(gathers) \
        and cfg.path(cfg.entry, [cfg.exit], avoid=gathers, edge_ok=normal_edge) is None \
        and cfg.path(cfg.entry, gathers, avoid=loops, edge_ok=normal_edge) is None


def check_all(run: Run, prog: Program, roles: BatteryRoles, loops_info: dict[str, dict[str, str]]) -> None:
    pv = _norm(prog, anchors(prog).get("pv.api"))
    sd = roles.sd
    pr_info = loops_info.get(roles.pr.qual)
    pv_info = loops_info.get(pv.qual)
    sends: dict[str, dict[str, Any]] = {}
    cancel_helpers: list[tuple[FuncInfo, bool]] = []
    for fn, want_map in ((sd, None), (pv, pv_info["alloc"] if pv_info else None)):
        run.analysed(fn.qual)
        if fn is sd:
            d = typed_param(fn, "DistributionResult", "distribution")
            if d is None:
                raise AnalysisError(f"{fn.qual}: no `DistributionResult` parameter")
            want_map = f"{d}.distribution"
        # every entry -> one set_power task
        sp = find_calls(fn.node, lambda c: isinstance(c.func, ast.Attribute) and c.func.attr == "set_power")
        detail = f"expected exactly one set_power call site, found {len(sp)}"
        ok = False
        send: dict[str, Any] = {"tasks": None, "map": None}
        if len(sp) == 1:
            send = match_send(fn.node, sp[0])
            ok, detail = send["ok"], send["detail"]
            if ok and want_map is not None and send["map"] != want_map:
                ok = False
                detail = (f"set_power is issued for the entries of `{send['map']}`, not of the allocation map "
                          f"`{want_map}` that is accounted")
        sends[fn.qual] = send
        run.check(ok, "C15.ALL", fn.qual, f"one set_power per entry of {want_map or 'the allocation map'}", detail,
                  node=fn.node, file=fn.file, instance=f"{fn.qual}: one set_power per entry of the allocation map")
        # wait(all, timeout) then cancel+await pending before parsing
        cfg = CFG(fn.node, fn.file)
        tasks = send.get("tasks")
        waits = [x for x in nodes_with_call(cfg, lambda c: u(c.func) in ("asyncio.wait", "wait")) if cfg.is_await(x)]
        ok = len(waits) == 1 and tasks is not None
        wit = None
        if ok:
            wcall = node_calls(cfg, waits[0], lambda c: u(c.func) in ("asyncio.wait", "wait"))[0]
            kws = {k.arg: u(k.value) for k in wcall.keywords}
            waited = u(wcall.args[0]) if wcall.args else kws.get("fs", "")
            ok = waited in (f"{tasks}.values()", f"list({tasks}.values())", f"set({tasks}.values())") \
                and "timeout" in kws and kws.get("return_when", "asyncio.ALL_COMPLETED") in (
                    "asyncio.ALL_COMPLETED", "ALL_COMPLETED")
            s = cfg.nodes[waits[0]].ast
            pend = u(s.targets[0].elts[1]) if isinstance(s, ast.Assign) and isinstance(  # type: ignore[union-attr]
                s.targets[0], ast.Tuple) and len(s.targets[0].elts) == 2 else None
            if ok and pend:
                # the timed-out calls are cancelled and awaited: inline (loop + gather), or by an awaited
                # private helper that is handed exactly the pending set (whatever it is called)
                c1, g1 = cancel_and_gather(cfg, pend)
                cancels = g1 if c1 and g1 and cfg.path(cfg.entry, g1, avoid=c1, edge_ok=normal_edge) is None else []
                if not cancels and fn.cls is not None:
                    for x in cfg.nodes:
                        if x.ast is None or not cfg.is_await(x.id):
                            continue
                        for c in node_calls(cfg, x.id, lambda c: isinstance(c.func, ast.Attribute)
                                            and u(c.func.value) == "self" and len(c.args) + len(c.keywords) == 1):
                            callee = prog.resolve_method(fn.cls, c.func.attr)  # type: ignore[attr-defined]
                            if callee is None or not callee.is_async:
                                continue
                            only = list(bound_args(c, method_params(callee), "cancel helper").values())
                            if len(only) == 1 and u(only[0]) == pend:
                                cancel_helpers.append((callee, _cancel_helper_ok(prog, callee)))
                                cancels.append(x.id)
                readers = nodes_with_call(cfg, lambda c: (isinstance(c.func, ast.Attribute)
                                          and c.func.attr in ("result", roles.pr.name)))
                ok = bool(cancels) and bool(readers)
                if ok:
                    wit = cfg.path(waits[0], readers, avoid=cancels)
                    ok = wit is None
            else:
                ok = False
        run.check(ok, "C15.ALL", fn.qual, "wait(all tasks, timeout) -> cancel+await pending -> read results",
                  "results are read while timed-out calls may still be running (not cancelled and "
                  "awaited first), or not all calls are awaited", node=fn.node, file=fn.file,
                  path=cfg.describe_path(wit),
                  instance=f"{fn.qual}: wait(all tasks, timeout) -> cancel+await pending -> read results")
    # a helper that is trusted with the pending calls cancels all of them and awaits them
    for ct, ok in cancel_helpers:
        run.analysed(ct.qual)
        run.check(ok, "C15.ALL", ct.qual, "cancel every task then gather(return_exceptions=True)",
                  f"{ct.name} does not cancel and await every pending task", node=ct.node, file=ct.file,
                  instance=f"{ct.qual}: cancel every task then await gather(return_exceptions=True)")
    # battery: what is parsed is what was sent
    send = sends[sd.qual]
    ok = False
    if pr_info is not None and send.get("tasks"):
        args = bound_args(roles.pr_call, method_params(roles.pr), f"{sd.qual}: self._parse_result(...)")
        ok = u(args.get(pr_info["tasks"])) == send["tasks"] and u(args.get(pr_info["alloc"])) == send["map"]
    run.check(ok, "C15.ALL", sd.qual, "self._parse_result(<task map>, <sent allocation map>, ...)",
              "results are parsed against a different allocation map than the one sent",
              node=sd.node, file=sd.file, instance=f"{sd.qual}: parsed allocation map == sent allocation map")
    # PV: the results that are read are those of the tasks that were created
    send = sends[pv.qual]
    ok = pv_info is not None and send.get("tasks") is not None and pv_info["tasks"] == send["tasks"]
    run.check(ok, "C15.ALL", pv.qual, "results are read from the task map that was filled",
              "the result loop does not walk the task map filled by the sending loop",
              node=pv.node, file=pv.file, instance=f"{pv.qual}: result loop walks the created tasks")


# ---------------------------------------------------------------------------------------------
SET_FIELDS = ("succeeded_components", "failed_components")


def check_frozen(run: Run, prog: Program, roles: BatteryRoles) -> None:
    """C15.FROZEN: the component sets of a result are OBJECTS, and the same objects are handed on (to the
    status tracker, back to the caller).  What the other rules decide -- succeeded == addressed - failed,
    failed == what the result loop collected -- is decided on the expressions that compute them; it
    only holds for what is sent if nobody changes those objects in place afterwards.  So, for every variable
    whose object is stored in `succeeded_components=` / `failed_components=` (or is handed back as the failed
    set by the result parser / the sending routine), and for every may-alias of it:

      * no in-place change (`-=`, `|=`, `&=`, `^=`, add/update/discard/remove/pop/clear/..._update) on a path
        that starts at the construction of the result / the `return` -- rebinding (`s = s - x`) or changing a
        copy is fine, that does not touch the reported object;
      * before that point only growth inside the result loop is a way of building the set (that growth is
        judged by C15.FAIL / C15.SETS); any other in-place change alters a value the other rules have
        already read off its defining expression -- except the straight-line BUILDING of a set the function has
        just created itself (`s = set(x); s -= y`, `.difference_update`, `.discard`, `|=` ... on an object that
        provably nothing else can hold yet, see `_c15_util.rebind_fresh_builds`): the analysis view reads such a
        step as the rebinding `s = s - y` it is equivalent to, so C15.SETS reads the value through it.  That is
        accepted where C15.SETS does read the reported set off its defining expression (the constructor fields of
        the battery manager's `_distribute_power`); for the sets handed back by the result parser / the sending
        routine and for the PV accumulators, whose start value no rule reads, it stays a report;
      * a repository function that receives the object (followed through two calls) does not change its
        parameter in place;
      * no method of the two managers writes / changes `<result>.succeeded_components` /
        `<result>.failed_components` through the result object."""
    pv = _norm(prog, anchors(prog).get("pv.api"))
    todo: list[tuple[FuncInfo, str]] = []
    handoffs: list[tuple[FuncInfo, str]] = []   # (repository function, parameter) that receive a reported set
    setattr(run, "c15_handoffs", handoffs)
    for fn, role in ((roles.dp, "dist"), (roles.sd, "send"), (roles.pr, "parse"), (pv, "pv")):
        if fn.qual not in [f.qual for f, _r in todo]:
            todo.append((fn, role))
    for fn, role in todo:
        run.analysed(fn.qual)
        cfg = CFG(fn.node, fn.file)
        # variable -> [(CFG node where its object is reported, as what)]
        reported: dict[str, list[tuple[int, str]]] = {}
        for c in all_ctors(fn.node):
            kind, f = ctor_fields(prog, fn, c)
            for k in SET_FIELDS:
                for nm in sorted(shared_names(f.get(k))):
                    reported.setdefault(nm, []).append((_site(cfg, fn, c), f"{kind}.{k}"))
        if role in ("send", "parse"):
            pos = roles.sd_set_pos if role == "send" else roles.pr_set_pos
            for r in body_walk(fn.node):
                if isinstance(r, ast.Return) and isinstance(r.value, ast.Tuple) and len(r.value.elts) == 2:
                    for nm in sorted(shared_names(r.value.elts[pos])):
                        for x in cfg.nodes_of(r):
                            reported.setdefault(nm, []).append((x, "the returned failed set"))
        # the result loop of this function (if it has one): the only place where a reported set is built in place
        body: set[int] = set()
        if nodes_with_call(cfg, _is_result_call):
            body = result_loop(cfg, fn.qual)[4]
        changes = [(c, recv.id, text, grows) for c, recv, text, grows in inplace_changes(fn.node)
                   if isinstance(recv, ast.Name)]
        for nm, sites in sorted(reported.items()):
            what = "/".join(sorted({w for _x, w in sites}))
            aliases = alias_closure(fn.node, {nm})
            bad = 0
            for c, recv, text, grows in changes:
                if recv not in aliases:
                    continue
                at = cfg.node_containing(c)
                via = f"`{recv}`" + (f" (an alias of `{nm}`)" if recv != nm else "")
                wit = None
                for x, _w in sites:
                    wit = wit or cfg.path(x, at, include_src=False)
                if wit is not None or not at:
                    bad += 1
                    run.violation(
                        "C15.FROZEN", fn.qual, c,
                        f"`{text}` changes {via} in place after its object was stored as {what}: the result that is "
                        "sent afterwards shares that object, so it no longer lists the components that were "
                        "addressed (a component can end up in neither set, or in both) -- rebind to a new set "
                        "(`s = s - x`) or hand on a copy instead; the same holds for add/discard/update/clear/|=/&= "
                        "on any alias of a reported set", node=c, file=fn.file, path=cfg.describe_path(wit))
                elif not (grows and body and all(x in body for x in at)):
                    bad += 1
                    run.violation(
                        "C15.FROZEN", fn.qual, c,
                        f"`{text}` changes {via} in place outside the result loop before it is reported as {what}: the "
                        "set that is reported is not the one its defining expression (addressed - failed / collected per "
                        "failed call) says it is", node=c, file=fn.file)
            # in-place steps of a fresh build (read as rebindings by the view): fine where the value of the reported
            # set is decided through its defining expressions (C15.SETS on the battery result constructors) ...
            for st in body_walk(fn.node):
                text = getattr(st, "_c15_inplace", None)
                if text is None or role == "dist" or not isinstance(st, ast.Assign) or u(st.targets[0]) not in aliases:
                    continue
                # ... elsewhere nobody reads what the set starts as: still a change outside the result loop
                bad += 1
                run.violation(
                    "C15.FROZEN", fn.qual, st,
                    f"`{text}` changes `{u(st.targets[0])}` in place outside the result loop before it is reported as {what}: "
                    "the set that is reported is not the one its defining expression (collected per failed / succeeded "
                    "call, starting empty) says it is", node=st, file=fn.file)
            if not bad:
                run.ok("C15.FROZEN", f"{fn.qual}: the object of `{nm}` ({what}) is only changed in place while the "
                                     "result loop builds it")
        # ... and the functions that are handed the object leave it alone
        shared_all = alias_closure(fn.node, set(reported))
        for c in ast.walk(fn.node):
            if not isinstance(c, ast.Call) or not shared_all:
                continue
            seen, hits = callee_param_changes(prog, fn, c, shared_all)
            for tgt, hc, text in hits:
                run.violation("C15.FROZEN", tgt.qual, hc,
                              f"`{text}` changes in place a set that {fn.name} has stored in the result it reports "
                              f"(passed by `{u(c.func)}(..)`): the result that is sent shares the object",
                              node=hc, file=tgt.file)
            if seen and not hits:
                for q in sorted({f"{t.qual}({p})" for t, p in seen}):
                    run.ok("C15.FROZEN", f"{fn.qual}: {q} receives a reported set and does not change it in place")
            handoffs.extend(seen[:1])
    # through the result object itself
    for cq in (BM, PV):
        cls = prog.cls(cq)
        bad = 0
        for m in cls.methods.values():
            found: list[tuple[ast.AST, str]] = [
                (c, text) for c, recv, text, _g in inplace_changes(m.node)
                if isinstance(recv, ast.Attribute) and recv.attr in SET_FIELDS]
            for n in body_walk(m.node):
                tgts = n.targets if isinstance(n, ast.Assign) else [n.target] if isinstance(
                    n, (ast.AugAssign, ast.AnnAssign)) else n.targets if isinstance(n, ast.Delete) else []
                for t in tgts:
                    if isinstance(t, ast.Attribute) and t.attr in SET_FIELDS and not any(n is c for c, _t in found):
                        found.append((n, u(n)[:60]))
            for c, text in found:
                bad += 1
                run.violation("C15.FROZEN", m.qual, c,
                              f"`{text}` edits the component set of a result through the result object after it was "
                              "constructed: the sets are no longer the ones the accounting rules decided", node=c, file=m.file)
        if not bad:
            run.ok("C15.FROZEN", f"{cls.qual}: no method edits <result>.succeeded_components / .failed_components")


CONTROLS = [
    ("continue in one handler", "microgrid._power_distributing._component_managers._pv_inverter_manager._pv_inverter_manager",
     "                _logger.warning(\n                    \"Timeout while setting power to PV inverter %s\", component_id\n                )\n",
     "                _logger.warning(\n                    \"Timeout while setting power to PV inverter %s\", component_id\n                )\n                continue\n",
     "C15.FAIL"),
    ("CancelledError handler dropped", "microgrid._power_distributing._component_managers._battery_manager",
     "            except asyncio.exceptions.CancelledError:\n", "            except TimeoutError:\n", "C15.FAIL"),
    ("succeeded_power = request.power", "microgrid._power_distributing._component_managers._battery_manager",
     "                succeeded_power=Power.from_watts(distributed_power_value),\n",
     "                succeeded_power=request.power,\n", "C15.ID"),
    ("failed power added twice", "microgrid._power_distributing._component_managers._battery_manager",
     "                failed_power += distribution[inverter_id]\n",
     "                failed_power += distribution[inverter_id]\n                failed_power += distribution[inverter_id]\n",
     "C15.FAIL"),
    ("zero set-points filtered out", "microgrid._power_distributing._component_managers._battery_manager",
     "for inverter_id, power in distribution.distribution.items()\n        }",
     "for inverter_id, power in distribution.distribution.items()\n            if power != 0.0\n        }",
     "C15.ALL"),
    ("timed-out call booked in the failed set only", "microgrid._power_distributing._component_managers._battery_manager",
     "            failed = True\n            try:\n",
     "            if aws.cancelled():\n                failed_batteries.update(battery_ids)\n                continue\n"
     "            failed = True\n            try:\n", "C15.FAIL"),
    ("zero set-points skipped before their outcome is read", "microgrid._power_distributing._component_managers._battery_manager",
     "            failed = True\n            try:\n                aws.result()\n",
     "            if distribution[inverter_id] == 0.0:\n                continue\n"
     "            failed = True\n            try:\n                aws.result()\n", "C15.FAIL"),
    ("PV result loop stops at the first failed call",
     "microgrid._power_distributing._component_managers._pv_inverter_manager._pv_inverter_manager",
     "            failed_components.add(component_id)\n            failed_power += allocations[component_id]\n\n"
     "        if failed_components:\n",
     "            failed_components.add(component_id)\n            failed_power += allocations[component_id]\n"
     "            break\n\n        if failed_components:\n", "C15.FAIL"),
    ("PV allocation not taken off the excess ledger",
     "microgrid._power_distributing._component_managers._pv_inverter_manager._pv_inverter_manager",
     "            allocations[inv_id] = allocated_power\n            remaining_power -= allocated_power\n",
     "            allocations[inv_id] = allocated_power\n", "C15.ID"),
    # figures shared by both result types, computed once ahead of the choice: right for Success (nothing failed), but the
    # PartialFailure reports the failed set-points in failed_power AND in excess_power
    ("PV figures hoisted above the choice of result type, excess derived as request - succeeded",
     "microgrid._power_distributing._component_managers._pv_inverter_manager._pv_inverter_manager",
     "        if failed_components:\n            await self._results_sender.send(\n                PartialFailure(\n"
     "                    failed_components=failed_components,\n                    succeeded_components=succeeded_components,\n"
     "                    failed_power=failed_power,\n"
     "                    succeeded_power=request.power - remaining_power - failed_power,\n"
     "                    excess_power=remaining_power,\n                    request=request,\n                )\n            )\n"
     "            return\n        await self._results_sender.send(\n            Success(\n"
     "                succeeded_components=succeeded_components,\n"
     "                succeeded_power=request.power - remaining_power,\n                excess_power=remaining_power,\n",
     "        succeeded_power = request.power - remaining_power - failed_power\n"
     "        excess_power = request.power - succeeded_power\n"
     "        if failed_components:\n            await self._results_sender.send(\n                PartialFailure(\n"
     "                    failed_components=failed_components,\n                    succeeded_components=succeeded_components,\n"
     "                    failed_power=failed_power,\n"
     "                    succeeded_power=succeeded_power,\n"
     "                    excess_power=excess_power,\n                    request=request,\n                )\n            )\n"
     "            return\n        await self._results_sender.send(\n            Success(\n"
     "                succeeded_components=succeeded_components,\n"
     "                succeeded_power=succeeded_power,\n                excess_power=excess_power,\n",
     "C15.ID"),
    # the three figures still add up, but the failed set-points are moved from the excess into succeeded_power: the
    # excess that is reported is not the ledger of the water-filling
    ("PV excess reduced by the failed power while succeeded_power keeps it",
     "microgrid._power_distributing._component_managers._pv_inverter_manager._pv_inverter_manager",
     "                    succeeded_power=request.power - remaining_power - failed_power,\n"
     "                    excess_power=remaining_power,\n",
     "                    succeeded_power=request.power - remaining_power,\n"
     "                    excess_power=remaining_power - failed_power,\n",
     "C15.ID"),
    ("succeeded set not reduced by failed", "microgrid._power_distributing._component_managers._battery_manager",
     "succeed_batteries = set(battery_distribution.keys()) - failed_batteries",
     "succeed_batteries = set(battery_distribution.keys())", "C15.SETS"),
    # (the text that is replaced names every local the inserted statement uses: after a renaming the patch no
    # longer applies and the control is skipped, instead of inserting a statement about some other variable)
    ("reported succeeded set shrunk in place before the tracker is told",
     "microgrid._power_distributing._component_managers._battery_manager",
     "        await asyncio.gather(\n            *[\n                self._component_pool_status_tracker.update_status(\n"
     "                    succeed_batteries, failed_batteries\n",
     "        succeed_batteries.difference_update(\n"
     "            [b for b in succeed_batteries if not self._bat_invs_map.get(b)]\n        )\n"
     "        await asyncio.gather(\n            *[\n                self._component_pool_status_tracker.update_status(\n"
     "                    succeed_batteries, failed_batteries\n",
     "C15.FROZEN"),
    # the straight-line building of a fresh set is followed (read as the value it computes), so ...
    ("fresh succeeded set built in place with the wrong operation", "microgrid._power_distributing._component_managers._battery_manager",
     "succeed_batteries = set(battery_distribution.keys()) - failed_batteries",
     "succeed_batteries = set(battery_distribution.keys())\n            succeed_batteries &= failed_batteries", "C15.SETS"),
    # ... but only while nothing else can hold the object
    ("fresh succeeded set stored elsewhere before it is reduced in place",
     "microgrid._power_distributing._component_managers._battery_manager",
     "succeed_batteries = set(battery_distribution.keys()) - failed_batteries",
     "succeed_batteries = set(battery_distribution.keys())\n            self._last_addressed = succeed_batteries\n"
     "            succeed_batteries -= failed_batteries", "C15.FROZEN"),
    # ... and only where the start value of the set is read by a rule
    ("failed set of the result parser pre-filled in place before the result loop",
     "microgrid._power_distributing._component_managers._battery_manager",
     "        failed_batteries: set[int] = set()\n",
     "        failed_batteries: set[int] = set()\n        failed_batteries |= set(self._bat_invs_map)\n", "C15.FROZEN"),
    ("PV succeeded set cut down in place after the result loop",
     "microgrid._power_distributing._component_managers._pv_inverter_manager._pv_inverter_manager",
     "                succeeded_components.add(component_id)\n                continue\n\n"
     "            failed_components.add(component_id)\n            failed_power += allocations[component_id]\n\n"
     "        if failed_components:\n",
     "                succeeded_components.add(component_id)\n                continue\n\n"
     "            failed_components.add(component_id)\n            failed_power += allocations[component_id]\n\n"
     "        succeeded_components &= self._component_data_caches.keys()\n"
     "        if failed_components:\n",
     "C15.FROZEN"),
]


def handoff_controls(run: Run, prog: Program) -> None:
    """Generated controls for the callee clause of C15.FROZEN: for every repository function that the analysed
    tree hands a reported set to, an in-memory variant of that function that starts by emptying the parameter
    must be reported (the variant is derived from the callee found by the rule, not from a text fragment, so it
    follows the code through renamings and is simply absent when nothing is handed on)."""
    if run.violations:
        return
    done: set[str] = set()
    for tgt, pname in getattr(run, "c15_handoffs", []):
        if tgt.qual in done:
            continue
        done.add(tgt.qual)
        body = [st for st in tgt.node.body if not (isinstance(st, ast.Expr) and isinstance(st.value, ast.Constant)
                                                   and isinstance(st.value.value, str))]
        if not body:
            continue
        lines = tgt.module.source.split("\n")
        first = body[0]
        lines.insert(first.lineno - 1, " " * first.col_offset + f"{pname}.clear()")
        scratch = Run(run.prop_id, run.tier, run.seed)
        name = f"{tgt.name} empties the reported set it is handed ({pname})"
        try:
            p2 = Program(overrides={tgt.module.name: "\n".join(lines)})
            check_frozen(scratch, p2, BatteryRoles(p2))
            got = [v for v in scratch.violations if v.rule == "C15.FROZEN" and v.function == tgt.qual]
            run.control(name, bool(got), got[0].message[:120] if got else "no C15.FROZEN report in the callee")
        except AnalysisError as exc:
            run.control(name, True, f"analysis failed closed: {exc}")


def check_pv_pairing(run: Run, prog: Program, info: dict[str, dict[str, str]]) -> None:
    """C15.ID, the PV side of `excess_power`: what `_set_api_power` reports as excess is the ledger
    `request.power - Σ allocations` of the water-filling in `PVManager.distribute_power`.  Roles by
    dataflow: the callee parameter reported as `excess_power=`, the callee parameter whose entries are
    booked as failed power (the allocation map), the arguments bound to them at the one call site.
    Rule (per statement suite, polynomial normal forms): Δ(values stored into the allocation map)
    + Δ(ledger) == 0, the ledger starts as request.power, the map starts empty."""
    from ..engine import normalize as nz

    sa = _norm(prog, anchors(prog).get("pv.api"))
    dp = _norm(prog, prog.func(f"{PV}.distribute_power"))
    run.analysed(dp.qual)
    sa_info = info.get(sa.qual)
    if sa_info is None:
        return  # the failed bookkeeping of _set_api_power was not identified: reported there
    cfg_sa = CFG(sa.node, sa.file)
    rem_params: set[str | None] = set()
    params = method_params(sa)
    split = sa.qual != dp.qual
    acc = failed_accumulators(prog, sa, cfg_sa)
    known = set(params) | {f"{request_param(sa)}.power"} | ({acc[0]} if acc else set())   # terms whose role is known
    for c in all_ctors(sa.node):
        kind, f = ctor_fields(prog, sa, c)
        # (in a Success the failed power is zero: a figure shared with PartialFailure is read as what it is there)
        ex = without_atom(flow_eval(cfg_sa, _site(cfg_sa, sa, c), f["excess_power"]), nothing_failed(prog, sa, cfg_sa, c))
        a = ex.as_atom()
        # The excess that is reported must be the ledger the water-filling hands in (request - Σ set-points), in every
        # result type.  When it is a sum of terms of known role (parameters, request.power, the failed power) that is NOT that one parameter, the
        # other terms are decided, not unknown: they are part of the request that is also reported as succeeded / failed
        # (counted twice), or a part of the ledger that is dropped.
        ledgers = sorted(x for x in ex.atoms() if x in params and x != sa_info["alloc"] and ex.coeff_of(x) == 1)
        readable = all(x in known for x in ex.atoms())
        if split and (a is None or a not in params) and readable and len(ledgers) <= 1:
            led = ledgers[0] if ledgers else None
            extra = ex - Poly.atom(led) if led else ex
            run.violation(
                "C15.ID", sa.qual, f"{kind}(excess_power={u(f['excess_power'])})",
                f"the excess power reported by this {kind} normalises to `{ex!r}`"
                + (f", not to the excess ledger `{led}` that {dp.name} hands in (request.power minus every set-point that "
                   f"is commanded): `{extra!r}` is folded into it" if led else
                   f", which does not contain the excess ledger handed in by {dp.name} at all")
                + ".  excess_power is the part of the request no set-point was issued for; it does not depend on how the "
                "calls ended, so the failed power, the succeeded power or the request may not appear in it -- whatever is "
                "added is reported twice (succeeded + failed + excess != request), whatever is left out is not reported",
                node=c, file=sa.file)
            a = led
            if a is None:
                return   # no ledger to pair the allocations with; reported
        rem_params.add(a)
    if sa.qual == dp.qual:
        # merged with the public method: its early answers report the request itself, not the ledger
        rem_params = {a for a in rem_params if isinstance(a, str) and a.isidentifier()}
    req = request_param(dp)
    if sa.qual == dp.qual:
        # sending and reporting happen in the public method itself: the ledger / map are its locals
        if len(rem_params) > 1:
            raise AnalysisError(f"{sa.qual}: the reported excess is not one local ledger")
        # no ledger at all (the excess is a fixed expression): every non-zero allocation is then unpaired
        ledger: Any = ast.Name(id=next(iter(rem_params)) if rem_params else "<no excess ledger>", ctx=ast.Load())
        amap: Any = ast.Name(id=sa_info["alloc"], ctx=ast.Load())
        run.ok("C15.ID", f"{dp.qual}: _set_api_power reports against the processed request")
    else:
        if len(rem_params) != 1 or next(iter(rem_params)) not in params or sa_info["alloc"] not in params:
            raise AnalysisError(f"{sa.qual}: the reported excess / the allocation map are not parameters")
        rem_p, alloc_p = next(iter(rem_params)), sa_info["alloc"]
        calls = find_calls(dp.node, lambda c: method_call(c, "self", sa.name))
        if len(calls) != 1:
            raise AnalysisError(f"{dp.qual}: expected one call of self.{sa.name}, found {len(calls)}")
        args = bound_args(calls[0], params, f"{dp.qual}: self.{sa.name}(...)")
        ledger, amap = args.get(rem_p), args.get(alloc_p)  # type: ignore[arg-type]
        if ledger is not None and not isinstance(ledger, ast.Name) and isinstance(amap, ast.Name) \
                and TermEval().ev(ledger).atoms() <= {f"{req}.power"}:
            # what is passed as the excess is a fixed figure of the request (the view shows the only value of a local that
            # is never updated): there is no ledger that the allocations are taken off -- every suite that stores a
            # non-zero set-point is then unpaired, and the figure itself must still be the requested power
            run.check(TermEval().ev(ledger) == Poly.atom(f"{req}.power"), "C15.ID", dp.qual, f"self.{sa.name}(.., {u(ledger)})",
                      "the excess handed to the reporting routine does not start as the requested power",
                      node=calls[0], file=dp.file, instance=f"{dp.qual}: excess ledger starts as request.power")
            ledger = ast.Name(id=f"<{u(ledger)}: never updated>", ctx=ast.Load())
        if not isinstance(ledger, ast.Name) or not isinstance(amap, ast.Name):
            raise AnalysisError(f"{dp.qual}: excess ledger / allocation map are not passed as locals")
        run.check(u(args.get(request_param(sa))) == req, "C15.ID", dp.qual, "self._set_api_power(request, ...)",
                  "the allocations are reported against a different request", node=calls[0], file=dp.file,
                  instance=f"{dp.qual}: _set_api_power reports against the processed request")
    te = TermEval()

    def alias_root(name: str) -> str:
        # `x = y` with x bound exactly once: x is y (results handed back from a spliced helper)
        for _ in range(8):
            binds = [st for st in body_walk(dp.node) if isinstance(st, (ast.Assign, ast.AnnAssign, ast.AugAssign, ast.For))
                     and any(isinstance(x, ast.Name) and x.id == name and isinstance(x.ctx, ast.Store)
                             for x in ast.walk(st.target if not isinstance(st, ast.Assign) else ast.Tuple(elts=st.targets)))]
            if len(binds) == 1 and isinstance(binds[0], (ast.Assign, ast.AnnAssign)) \
                    and isinstance(getattr(binds[0], "value", None), ast.Name) \
                    and isinstance(binds[0].targets[0] if isinstance(binds[0], ast.Assign) else binds[0].target, ast.Name):
                name = binds[0].value.id  # type: ignore[union-attr]
                continue
            break
        return name

    L, M = alias_root(ledger.id), alias_root(amap.id)
    inits_l: list[ast.AST] = []
    inits_m: list[ast.AST] = []
    n_pairs = 0
    for suite in nz._suite_lists(dp.node):
        d_cells, d_ledger = Poly(), Poly()
        touched: list[ast.stmt] = []
        for st in suite:
            tgt = val = None
            if isinstance(st, ast.Assign) and len(st.targets) == 1:
                tgt, val = st.targets[0], st.value
            elif isinstance(st, ast.AnnAssign) and st.value is not None:
                tgt, val = st.target, st.value
            nd = name_delta(st, te)
            if nd is not None and nd[0] == L:
                d_ledger = d_ledger + nd[1]
                touched.append(st)
            elif isinstance(tgt, ast.Name) and tgt.id == L:
                inits_l.append(st)
            elif isinstance(tgt, ast.Name) and tgt.id == M:
                inits_m.append(st)
            elif isinstance(tgt, ast.Subscript) and isinstance(tgt.value, ast.Name) and tgt.value.id == M and val is not None:
                d_cells = d_cells + te.ev(val)
                touched.append(st)
            elif isinstance(st, (ast.AugAssign, ast.Delete, ast.Expr)) and any(
                    isinstance(x, ast.Name) and x.id == M for x in ast.walk(st)) and not any(
                    isinstance(x, ast.Call) and (u(x.func).startswith("_logger.") or method_call(x, "self", sa.name))
                    for x in ast.walk(st)):
                # the map is changed in a way the pairing cannot account for (update/pop/del/+=)
                d_cells = d_cells + Poly.atom(f"<{u(st)[:40]}>")
                touched.append(st)
        if not touched:
            continue
        n_pairs += 1
        run.check((d_cells + d_ledger).is_zero(), "C15.ID", dp.qual, touched[0],
                  f"the allocations change by `{d_cells!r}` while the excess ledger `{L}` changes by `{d_ledger!r}` "
                  "in the same suite: excess_power is no longer request.power minus the power that is commanded",
                  node=touched[0], file=dp.file,
                  instance=f"{dp.qual}: suite@{touched[0].lineno} Δallocations + Δ{L} == 0")
    ok = (len(inits_l) == 1 and te.ev(inits_l[0].value) == Poly.atom(f"{req}.power")) \
        or L.startswith("<")  # type: ignore[attr-defined]  # (no ledger: already reported by the pairing)
    run.check(ok, "C15.ID", dp.qual, f"{L} = {req}.power", "the excess ledger does not start as the requested power",
              node=dp.node, file=dp.file, instance=f"{dp.qual}: excess ledger starts as request.power")
    v = inits_m[0].value if len(inits_m) == 1 else None  # type: ignore[attr-defined]
    ok = (isinstance(v, ast.Dict) and not v.keys) or (isinstance(v, ast.Call) and u(v.func) == "dict" and not v.args
                                                      and not v.keywords)
    run.check(ok, "C15.ID", dp.qual, f"{M} = {{}}", "the allocation map does not start empty",
              node=dp.node, file=dp.file, instance=f"{dp.qual}: allocation map starts empty")
    if n_pairs == 0:
        raise AnalysisError(f"{dp.qual}: no allocation / ledger update found")


def run_rules(run: Run, prog: Program) -> None:
    check_identity(run, prog)
    roles = BatteryRoles(prog)
    for rule, node, msg in roles.issues:
        run.violation(rule, roles.dp.qual, node, msg, node=node, file=roles.dp.file)
    info = check_fail(run, prog, roles)
    check_pv_pairing(run, prog, info)
    check_sets(run, prog, roles)
    check_all(run, prog, roles, info)
    check_frozen(run, prog, roles)


def check(run: Run, prog: Program, tier: str) -> str:
    run.rule("C15.ID", "succeeded + failed + excess normalises to request.power for every "
             "Success/PartialFailure built by the battery and PV managers")
    run.rule("C15.FAIL", "every exceptional exit of task.result() is caught and books the failed "
             "power and failed components exactly once; the success path books neither; every iteration of "
             "the result loop reads the outcome of its own call and the loop runs over every task")
    run.rule("C15.SETS", "succeeded and failed component sets are complementary by construction")
    run.rule("C15.ALL", "one set_power per allocation entry; timed-out calls are cancelled and "
             "awaited before results are read; parsed map == sent map")
    run.rule("C15.FROZEN", "the set objects stored in a result (and handed on to the status tracker / back to the "
             "caller) are not changed in place once computed: no in-place set operation on them or an alias after "
             "the result is built, none outside the result loop before (other than the straight-line building of a set "
             "the function has just created and not yet shared, which is read as the value it computes), none in a "
             "callee that receives them")
    run_rules(run, prog)
    run.floor("C15.FROZEN", 4)
    run.floor("C15.ID", 10)
    run.floor("C15.FAIL", 20)
    run.floor("C15.SETS", 5)
    run.floor("C15.ALL", 5)
    from ..engine.controls import run_controls

    run_controls(run, CONTROLS, run_rules, tier)
    handoff_controls(run, prog)
    run.assume("unit wrappers (Power.from_watts / as_watts) are value-preserving; a field whose "
               "only writers are zero constants is zero")
    run.undecided("the numeric content of the allocations (C01 for batteries; for PV which inverter gets how "
                  "much); that a result is sent for every request (the PV manager has no-result exits)")
    return ("Term normal forms (polynomials over opaque atoms, single-definition locals inlined, "
            "constant-only fields folded) decide the accounting identity of every result "
            "constructor; exception-aware CFG path rules decide failure-handling totality, "
            "set complementarity and send/await discipline.")
