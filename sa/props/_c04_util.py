"""Support code for C04: roles of a sweep bound by dataflow, a linear-form order interpreter and
whole-source structural controls.

  LinInterp       the order-domain interpreter, with (a) `self` of the analysed class bound to a
                  record so that extracted private helpers (instance / static / class-qualified) are
                  *called*, and (b) sums / differences of atoms kept as linear forms: a comparison
                  whose difference is `k*(x - y)` is an exact order query, any other linear
                  comparison forks and is logged as the constraint `P < 0` / `P <= 0` it adds, so that
                  a rule can ask afterwards which linear facts a path relies on (the distance test).
  sweep_roles     (prologue, loop, epilogue) of a sweep function and the *names* that play the roles
                  running lower bound / running upper bound / effective exclusion zone / target,
                  found by running the prologue on a recognisable symbolic input and looking at
                  which local holds which input value - no local-variable name is assumed.
  step_function   one loop iteration as a synthetic function over the role names.
  bucket_values   the expressions that create a group's bucket (values of the bucket store, containers
                  built in a sweep's iterable), classified: container of the language / class of the tree.
  (LinInterp also models dataclasses.replace / copy.replace / copy.copy on records: a new record with
  the named fields replaced, every other field shared.)
  (Remembered instance state - Unknown - and results of unmodelled calls stay unknown through arithmetic
  and max / min / abs; a test on such a value forks once per run and expression (`state_tests`), and
  every such test is logged with its node (`state_test_sites`), so that a rule can tell which sweep
  consulted the instance's state.  HistoryInterp gives the target of each skipped sweep a name of its own.)
  splice / reach  helpers for structural (whole-source) seeded controls.
"""
from __future__ import annotations

import ast
import builtins
import copy
from dataclasses import dataclass, field
from fractions import Fraction
from typing import Any, Iterable

from ..engine.absint import Infeasible, Obj, _Raise
from ..engine.order import Atom, Expr, OrderInterp
from ..engine.report import AnalysisError
from ..engine.resolver import FuncInfo, Program, walk_no_nested
from ..engine.terms import Poly


# ---------------------------------------------------------------------------------------------
# linear forms over atoms
# ---------------------------------------------------------------------------------------------
class Lin(Expr):
    """A linear form over input atoms (ZERO is the number 0)."""

    def __init__(self, poly: Poly, atoms: dict[str, Atom]) -> None:
        super().__init__(repr(poly))
        self.poly = poly
        self.atoms = atoms


def _is_static(node: ast.AST) -> bool:
    return any(isinstance(d, ast.Name) and d.id == "staticmethod" for d in getattr(node, "decorator_list", []))


def _is_classmethod(node: ast.AST) -> bool:
    return any(isinstance(d, ast.Name) and d.id == "classmethod" for d in getattr(node, "decorator_list", []))


def proportional(p: Poly, w: Poly) -> Fraction | None:
    """k with p == k*w (k != 0), or None."""
    if not p.terms or set(p.terms) != set(w.terms):
        return None
    ks = {p.terms[m] / w.terms[m] for m in w.terms}
    if len(ks) != 1:
        return None
    k = next(iter(ks))
    return k if k != 0 else None


# stdlib spellings of "a new record like this one, with these fields replaced"
_RECORD_COPIES = {"ext:dataclasses.replace", "ext:copy.replace", "ext:copy.copy"}


class Unknown:
    """A value the analysis knows nothing about (remembered instance state): every test on it forks."""

    def __init__(self, name: str) -> None:
        self.name = name

    def __repr__(self) -> str:
        return f"<{self.name}>"


class Havoc:
    """A container attribute of the instance in an arbitrary state: whatever earlier calls may have
    left in it.  Lookups fork (absent / present with an Unknown value); what this run stores is
    remembered, so that a read after a write of the same key is exact."""

    def __init__(self, name: str) -> None:
        self.name = name
        self.written: dict[Any, Any] = {}

    def __repr__(self) -> str:
        return f"<self.{self.name}>"


def instance_state(prog: Program, cls: Any, **known: Any) -> Obj:
    """A record of the analysed class: the attributes given in `known` have these values; every other
    attribute bound in __init__ is in an arbitrary state (Havoc container / Unknown scalar)."""
    fields: dict[str, Any] = {}
    init = prog.resolve_method(cls, "__init__")
    if init is not None and init.params:
        me = init.params[0]
        for n in walk_no_nested(init.node):
            tgt = val = None
            if isinstance(n, ast.Assign) and len(n.targets) == 1:
                tgt, val = n.targets[0], n.value
            elif isinstance(n, ast.AnnAssign):
                tgt, val = n.target, n.value
            if isinstance(tgt, ast.Attribute) and isinstance(tgt.value, ast.Name) and tgt.value.id == me:
                container = isinstance(val, (ast.Dict, ast.Set, ast.List, ast.DictComp, ast.SetComp, ast.ListComp)) or (
                    isinstance(val, ast.Call) and isinstance(val.func, ast.Name)
                    and val.func.id in ("dict", "set", "list", "defaultdict", "OrderedDict", "deque"))
                fields[tgt.attr] = Havoc(tgt.attr) if container else Unknown(f"self.{tgt.attr}")
    fields.update(known)
    return Obj(cls.name, **fields)


class NotReached(AnalysisError):
    """The entry function, called as specified, returns without ever calling the sweep."""


class _Captured(Exception):
    """Raised instead of entering the function whose call is being captured; carries its frame."""

    def __init__(self, frame: dict[str, Any]) -> None:
        super().__init__("captured")
        self.frame = frame


class LinInterp(OrderInterp):
    def __init__(self, prog: Program, module: Any) -> None:
        super().__init__(prog, module)
        self.capture: FuncInfo | None = None  # function whose next call is to be captured, not entered
        self.state_reads: list[str] = []      # instance attributes in an arbitrary state consulted by this run
        self.last_return: ast.AST | None = None
        # constraints added by undecided linear comparisons of this run: (P, strict) == P < 0 / P <= 0
        self.lin_facts: list[tuple[Poly, bool]] = []
        # tests this run has made on values it knows nothing about (remembered instance state, results of
        # unmodelled calls): label -> outcome.  The same test on the same state has one outcome per run.
        self.state_tests: dict[str, bool] = {}
        self.state_test_sites: list[tuple[str, ast.AST | None]] = []

    def reset(self) -> None:
        super().reset()
        self.lin_facts = []
        self.state_reads = []
        self.last_return = None
        self.state_tests = {}
        self.state_test_sites = []

    def _state_test(self, label: str, node: ast.AST | None) -> bool:
        """Outcome of a test on a value in an arbitrary state: a fork, but one per run and test - two
        evaluations of the same expression over the same (unwritten) state agree."""
        if label not in self.state_tests:
            self.state_tests[label] = self.choose(2, label) == 1
        self.state_test_sites.append((label, node))
        return self.state_tests[label]

    def stmt(self, s: ast.stmt) -> None:
        if isinstance(s, ast.Return):
            self.last_return = s
        super().stmt(s)

    # ---------------------------------------------------------------- arbitrary instance state
    def _state_read(self, name: str) -> None:
        if name not in self.state_reads:
            self.state_reads.append(name)

    def get_attr(self, base: Any, attr: str, node: ast.AST) -> Any:
        if isinstance(base, Havoc):
            return ("havoc", base, attr)
        if isinstance(base, Unknown):
            return Unknown(f"{base.name}.{attr}")
        if isinstance(base, Obj) and f"{base.cls}.{attr}" in _RECORD_COPIES:
            return ("builtin", "record_copy")
        return super().get_attr(base, attr, node)

    def _havoc_lookup(self, h: Havoc, key: Any, node: ast.AST) -> tuple[bool, Any]:
        k = self.key(key)
        try:
            if k in h.written:
                return True, h.written[k]
        except TypeError:
            pass
        self._state_read(h.name)
        if self.choose(2, f"self.{h.name} has an entry for the key") == 0:
            return False, None
        return True, Unknown(f"self.{h.name}[{key!r}]")

    def get_item(self, base: Any, key: Any, node: ast.AST) -> Any:
        if isinstance(base, Havoc):
            found, v = self._havoc_lookup(base, key, node)
            if not found:
                raise _Raise("KeyError", node)
            return v
        if isinstance(base, Unknown):
            return Unknown(f"{base.name}[{key!r}]")
        return super().get_item(base, key, node)

    def set_item(self, base: Any, key: Any, v: Any, node: ast.AST) -> None:
        if isinstance(base, Havoc):
            try:
                base.written[self.key(key)] = v
            except TypeError:
                raise AnalysisError(f"unhashable key stored in self.{base.name}") from None
            return
        super().set_item(base, key, v, node)

    def contains(self, container: Any, item: Any, node: ast.AST) -> bool:
        if isinstance(container, Havoc):
            return self._havoc_lookup(container, item, node)[0]
        if isinstance(container, Unknown) or isinstance(item, Unknown):
            return self.choose(2, f"membership test on {container!r}") == 1
        return super().contains(container, item, node)

    def identical(self, a: Any, b: Any) -> bool:
        if isinstance(a, Unknown) or isinstance(b, Unknown):
            if a is None or b is None:
                return False  # a present entry: the stores of the analysed class never hold None
            return self.choose(2, f"{a!r} is {b!r}") == 1
        return super().identical(a, b)

    # ---------------------------------------------------------------- linear forms
    def _lin(self, v: Any) -> Lin | None:
        if isinstance(v, Lin):
            return v
        if isinstance(v, Atom):
            if v.name == "ZERO":
                return Lin(Poly(), {})
            return Lin(Poly.atom(v.name), {v.name: v})
        return None

    def _pair(self, d: Poly, atoms: dict[str, Atom]) -> tuple[Atom, Atom] | None:
        """(x, y) such that d == k*(x - y) with k > 0 (y may be ZERO)."""
        if any(len(m) != 1 or m[0][1] != 1 for m in d.terms):
            return None
        items = [(m[0][0], c) for m, c in d.terms.items()]
        zero = self.globals.setdefault("__ZERO__", Atom("ZERO"))
        if len(items) == 1:
            (n, c), = items
            return (atoms[n], zero) if c > 0 else (zero, atoms[n])
        if len(items) == 2:
            (n1, c1), (n2, c2) = items
            if c1 == -c2:
                return (atoms[n1], atoms[n2]) if c1 > 0 else (atoms[n2], atoms[n1])
        return None

    def sign(self, d: Lin, label: str) -> str:
        """'<' | '=' | '>' of the linear form against 0; exact when it is a difference of two atoms,
        otherwise a logged fork (strictly negative or not)."""
        c = d.poly.const_value()
        if c is not None:
            return "<" if c < 0 else (">" if c > 0 else "=")
        pair = self._pair(d.poly, d.atoms)
        if pair is not None:
            return self.cmp3(pair[0], pair[1])
        raise AnalysisError(f"sign of the linear form {d.poly!r} is not decidable in the order domain ({label})")

    @staticmethod
    def _opaque(v: Any) -> bool:
        return isinstance(v, Unknown) or (isinstance(v, Obj) and "__opaque__" in v.fields)

    @staticmethod
    def _oname(v: Any) -> str:
        if isinstance(v, Obj) and "__opaque__" in v.fields:
            return f"<{v.fields['__opaque__'][4:]}()>"
        return repr(v)

    def binop(self, op: ast.operator, a: Any, b: Any, node: ast.AST) -> Any:
        if self._opaque(a) or self._opaque(b):
            # arithmetic on remembered instance state / on the result of an unmodelled call (a clock):
            # nothing is known about the value; every test on it forks
            # (a call result is a new value each time: its name is made unique)
            fresh = "" if isinstance(a, (Unknown, Atom, Lin, int, float)) and isinstance(b, (Unknown, Atom, Lin, int, float)) \
                else f"#{next(self.fresh)}"
            return Unknown(f"({self._oname(a)} {type(op).__name__} {self._oname(b)}){fresh}")
        la, lb = self._lin(a), self._lin(b)
        if la is not None and lb is not None and isinstance(op, (ast.Add, ast.Sub)):
            p = la.poly + lb.poly if isinstance(op, ast.Add) else la.poly - lb.poly
            return Lin(p, {**la.atoms, **lb.atoms})
        num = (int, float)
        if isinstance(op, ast.Mult):
            for x, k in ((la, b), (lb, a)):
                if x is not None and isinstance(k, num) and not isinstance(k, bool):
                    return Lin(x.poly.scale(Fraction(str(k))), dict(x.atoms))
        if isinstance(op, ast.Div) and la is not None and isinstance(b, num) and not isinstance(b, bool) and b != 0:
            return Lin(la.poly.scale(1 / Fraction(str(b))), dict(la.atoms))
        return super().binop(op, a, b, node)

    def unaryop(self, op: ast.unaryop, v: Any, node: ast.AST) -> Any:
        if self._opaque(v) and not isinstance(op, ast.Not):
            return v if isinstance(op, ast.UAdd) else Unknown(f"({type(op).__name__} {v!r})")
        lv = self._lin(v)
        if lv is not None and isinstance(op, ast.USub):
            return Lin(-lv.poly, dict(lv.atoms))
        if lv is not None and isinstance(op, ast.UAdd):
            return v
        return super().unaryop(op, v, node)

    def compare_values(self, op: ast.cmpop, a: Any, b: Any, node: ast.AST) -> Any:
        if isinstance(a, Unknown) or isinstance(b, Unknown):
            return self._state_test(f"{a!r} {type(op).__name__} {b!r}", node)
        if (self._opaque(a) or self._opaque(b)) and isinstance(op, (ast.Lt, ast.LtE, ast.Gt, ast.GtE)):
            # ordered against the result of an unmodelled call (a clock): a new value at every call, no memo
            label = f"{self._oname(a)} {type(op).__name__} {self._oname(b)}"
            self.state_test_sites.append((label, node))
            return self.choose(2, label) == 1
        if isinstance(a, (tuple, list)) and isinstance(b, (tuple, list)) and isinstance(op, (ast.Eq, ast.NotEq)) \
                and type(a) is type(b):
            eq = len(a) == len(b) and all(self.concrete_eq(x, y, node) for x, y in zip(a, b))
            return eq if isinstance(op, ast.Eq) else not eq
        if isinstance(a, Obj) and isinstance(b, Obj) and isinstance(op, (ast.Eq, ast.NotEq)):
            # records compare by their class's own __eq__ (interpreted), never by guesswork
            for cls in self.prog.all_classes():
                if cls.name == a.cls:
                    m = self.prog.resolve_method(cls, "__eq__")
                    if m is not None:
                        eq = self.truth(self.call_func(m, [a, b], {}), node)
                        return eq if isinstance(op, ast.Eq) else not eq
        if (isinstance(a, Lin) or isinstance(b, Lin)) and isinstance(
                op, (ast.Lt, ast.LtE, ast.Gt, ast.GtE, ast.Eq, ast.NotEq)):
            la, lb = self._lin(a), self._lin(b)
            if la is not None and lb is not None:
                d = Lin(la.poly - lb.poly, {**la.atoms, **lb.atoms})
                c = d.poly.const_value()
                if c is not None or self._pair(d.poly, d.atoms) is not None:
                    r = self.sign(d, "comparison")
                    return {ast.Lt: r == "<", ast.LtE: r in ("<", "="), ast.Gt: r == ">",
                            ast.GtE: r in (">", "="), ast.Eq: r == "=", ast.NotEq: r != "="}[type(op)]
                out = self.choose(2, f"linear {d.poly!r} {type(op).__name__} 0") == 1
                p = d.poly
                # the fact this outcome adds, as P < 0 (strict) or P <= 0 (real numbers, no NaN)
                fact = {
                    (ast.Lt, True): [(p, True)], (ast.Lt, False): [(-p, False)],
                    (ast.LtE, True): [(p, False)], (ast.LtE, False): [(-p, True)],
                    (ast.Gt, True): [(-p, True)], (ast.Gt, False): [(p, False)],
                    (ast.GtE, True): [(-p, False)], (ast.GtE, False): [(p, True)],
                    (ast.Eq, True): [(p, False), (-p, False)], (ast.Eq, False): [],
                    (ast.NotEq, True): [], (ast.NotEq, False): [(p, False), (-p, False)],
                }[(type(op), out)]
                self.lin_facts.extend(fact)
                return out
        return super().compare_values(op, a, b, node)

    def implied(self, w: Poly) -> bool:
        """Does a logged linear fact of this run imply w <= 0?  (P == k*w with k > 0.)"""
        for p, _strict in self.lin_facts:
            k = proportional(p, w)
            if k is not None and k > 0:
                return True
        return False

    # ---------------------------------------------------------------- names / calls
    def unknown_name(self, ident: str, node: ast.AST) -> Any:
        if ident in ("abs", "reversed", "all", "any"):
            return ("builtin", ident)
        got = super().unknown_name(ident, node)
        if isinstance(got, Obj) and got.cls in _RECORD_COPIES:
            return ("builtin", "record_copy")
        if isinstance(got, Obj) and got.cls.startswith("ext:") and hasattr(builtins, ident):
            # the base interpreter would model the call as an opaque (always truthy) record
            raise AnalysisError(f"Python builtin {ident}() is not modelled by the order-domain interpreter "
                                f"(line {getattr(node, 'lineno', '?')})")
        return got

    def builtin(self, name: str, pos: list[Any], kw: dict[str, Any], node: ast.AST) -> Any:
        if name == "sorted" and set(kw) - {"reverse"}:
            raise AnalysisError("sorted() with a key function: the proposals' own order is not used")
        if name in ("all", "any") and len(pos) == 1 and not kw:
            items = [self.truth(x, node) for x in self.iterate(pos[0], node)]
            return all(items) if name == "all" else any(items)
        if name == "reversed" and len(pos) == 1 and not kw:
            return list(reversed(list(self.iterate(pos[0], node))))
        if name == "record_copy":
            # dataclasses.replace(obj, **changes) / copy.replace / copy.copy: a *new* record of the same
            # class with the named fields replaced and every other field shared with the original
            if len(pos) != 1 or not isinstance(pos[0], Obj) or pos[0].cls.startswith(("ext:", "class:")):
                raise AnalysisError(f"copy of a value that is not a modelled record (line {getattr(node, 'lineno', '?')})")
            fields = dict(pos[0].fields)
            fields.update(kw)
            return Obj(pos[0].cls, **fields)
        if name in ("max", "min", "abs", "float", "int", "round") and pos and not kw \
                and any(self._opaque(x) for x in pos) \
                and all(self._opaque(x) or isinstance(x, (Atom, Lin, int, float)) for x in pos):
            # the larger / smaller of values of which one is in an arbitrary state is in an arbitrary state
            return Unknown(f"{name}({', '.join(repr(x) for x in pos)})")
        if name == "abs" and len(pos) == 1 and not kw:
            lv = self._lin(pos[0])
            if lv is not None:
                r = self.sign(lv, "abs")
                return Lin(-lv.poly, dict(lv.atoms)) if r == "<" else lv
        return super().builtin(name, pos, kw, node)

    def apply_other(self, fn: Any, pos: list[Any], kw: dict[str, Any], node: ast.AST) -> Any:
        res = super().apply_other(fn, pos, kw, node)
        if isinstance(fn, Obj) and fn.cls.startswith("ext:") and isinstance(res, Obj):
            res.fields["__opaque__"] = fn.cls  # result of a call the interpreter knows nothing about
        return res

    def truth_of(self, v: Any, node: ast.AST | None) -> bool:
        if isinstance(v, Unknown):
            return self._state_test(f"truth of {v!r}", node)
        if isinstance(v, Havoc):
            self._state_read(v.name)
            return self.choose(2, f"self.{v.name} is non-empty") == 1
        if isinstance(v, Obj) and "__opaque__" in v.fields:
            raise AnalysisError(f"truth value of the result of the unmodelled call {v.fields['__opaque__'][4:]}() "
                                f"(line {getattr(node, 'lineno', '?')})")
        return super().truth_of(v, node)

    def call_func(self, fn: FuncInfo, pos: list[Any], kw: dict[str, Any]) -> Any:
        if self.capture is not None and fn.node is self.capture.node:
            self_value = None
            if fn.cls is not None and pos:
                self_value, pos = pos[0], pos[1:]
            raise _Captured(self.bind_args(fn.node, pos, kw, self_value))
        return super().call_func(fn, pos, kw)

    def _call_plain(self, fn: FuncInfo, pos: list[Any], kw: dict[str, Any], self_value: Any = None) -> Any:
        args = self.bind_args(fn.node, pos, kw, self_value)
        if self.capture is not None and fn.node is self.capture.node:
            raise _Captured(args)
        self.module_stack.append(fn.module)
        try:
            return self.call_node(fn.node, args)
        finally:
            self.module_stack.pop()

    def apply(self, fn: Any, pos: list[Any], kw: dict[str, Any], node: ast.AST) -> Any:
        if isinstance(fn, Unknown):
            return Unknown(f"{fn.name}()")
        if isinstance(fn, tuple) and fn and fn[0] == "havoc":
            h, m = fn[1], fn[2]
            if m == "get" and pos:
                found, v = self._havoc_lookup(h, pos[0], node)
                return v if found else (pos[1] if len(pos) > 1 else kw.get("default"))
            if m == "setdefault" and pos:
                found, v = self._havoc_lookup(h, pos[0], node)
                if not found:
                    v = pos[1] if len(pos) > 1 else None
                    self.set_item(h, pos[0], v, node)
                return v
            if m == "pop" and pos:
                found, v = self._havoc_lookup(h, pos[0], node)
                if found:
                    return v
                if len(pos) > 1:
                    return pos[1]
                raise _Raise("KeyError", node)
            if m in ("add", "append", "update", "discard", "remove", "clear"):
                self._state_read(h.name)
                return None
            raise AnalysisError(f"self.{h.name}.{m}() on remembered instance state is not modelled")
        # static / class methods reached through an instance or through the class name
        if isinstance(fn, tuple) and fn and fn[0] == "bound" and isinstance(fn[1], FuncInfo):
            if _is_static(fn[1].node):
                return self._call_plain(fn[1], pos, kw)
            if _is_classmethod(fn[1].node):
                return self._call_plain(fn[1], pos, kw, fn[1].cls)
        if isinstance(fn, FuncInfo) and fn.cls is not None:
            if _is_static(fn.node):
                return self._call_plain(fn, pos, kw)
            if _is_classmethod(fn.node):
                return self._call_plain(fn, pos, kw, fn.cls)
        return super().apply(fn, pos, kw, node)


class KeySet(set):  # type: ignore[type-arg]
    """A Python set of proposals as the analysed code sees it: membership is by the proposals'
    equality key, and - as with a real set - add() of an equal element keeps the *old* object."""

    def __init__(self) -> None:
        super().__init__()
        self.objs: dict[Any, Any] = {}


class StoreInterp(LinInterp):
    """LinInterp for the bookkeeping around the sweep: buckets are sets keyed by the equality of
    Proposal ((priority, source_id)) that remember which object they hold.  The sweep itself is
    not run: when the proposal loop (`loop`, bound by role, wherever it lives) is reached, what it
    would iterate over is recorded and the running target (`target_name`) becomes a fresh atom."""

    def __init__(self, prog: Program, module: Any) -> None:
        super().__init__(prog, module)
        self.loop: ast.For | None = None
        self.target_name: str | None = None
        self.visits: list[list[Any]] = []
        self.stub_result = Atom("NEW_TARGET")

    def reset(self) -> None:
        super().reset()
        self.visits = []
        self.stub_result = Atom("NEW_TARGET")

    def stmt(self, s: ast.stmt) -> None:
        if s is self.loop and self.target_name is not None:
            self.visits.append(list(self.iterate(self.eval(s.iter), s.iter)))
            self.env[self.target_name] = self.stub_result
            return
        super().stmt(s)

    def key(self, k: Any) -> Any:
        if isinstance(k, Obj) and k.cls == "Proposal" and {"priority", "source_id"} <= set(k.fields):
            return ("Proposal", k.fields["priority"], k.fields["source_id"])
        return super().key(k)

    def keyset(self, items: Iterable[Any]) -> KeySet:
        out = KeySet()
        for x in items:
            self._set_op(out, "add", x, None)
        return out

    def _set_op(self, s: Any, op: str, item: Any, node: ast.AST | None) -> None:
        k = self.key(item)
        objs = s.objs if isinstance(s, KeySet) else {}
        if op == "add":
            if k not in s:  # an equal element is already there: set.add keeps the old object
                s.add(k)
                objs[k] = item
        elif op == "discard":
            s.discard(k)
            objs.pop(k, None)
        elif op == "remove":
            if k not in s:
                raise _Raise("KeyError", node)
            s.remove(k)
            objs.pop(k, None)
        else:
            raise AnalysisError(f"set.{op} not interpretable")

    def builtin(self, name: str, pos: list[Any], kw: dict[str, Any], node: ast.AST) -> Any:
        if name == "set" and not kw:
            return self.keyset(self.iterate(pos[0], node) if pos else [])
        return super().builtin(name, pos, kw, node)

    def iterate(self, v: Any, node: ast.AST) -> Any:
        if isinstance(v, KeySet):
            return [v.objs[k] for k in sorted(v, key=repr)]
        if isinstance(v, (set, frozenset)):
            return sorted(v, key=repr)
        return super().iterate(v, node)

    def apply(self, fn: Any, pos: list[Any], kw: dict[str, Any], node: ast.AST) -> Any:
        if isinstance(fn, tuple) and fn and fn[0] == "setmethod":
            if len(pos) != 1 or kw:
                raise AnalysisError(f"set.{fn[2]} call not interpretable")
            self._set_op(fn[1], fn[2], pos[0], node)
            return None
        return super().apply(fn, pos, kw, node)


class HistoryInterp(StoreInterp):
    """StoreInterp that runs *histories* of public calls on one instance (store a proposal, expire,
    re-evaluate, report).  The proposal loops of the sweeps (`loops`, bound by role wherever they live)
    are not run: each time one is reached, what it would iterate over is recorded under the label of
    the step of the history that is being executed.  Configuration scalars of the instance are Unknown:
    arithmetic on them stays Unknown and every test on them forks (so an age test explores 'expired'
    and 'still valid' for every proposal)."""

    def __init__(self, prog: Program, module: Any) -> None:
        super().__init__(prog, module)
        self.loops: list[ast.For] = []
        self.step = ""
        self.seen: list[tuple[str, list[Any]]] = []
        # the target sweep's loop and the local that plays its running target (when bound): the target a
        # skipped sweep would have computed is a value of its own per step, so that what a later step
        # returns can be told from what an earlier step has left in the instance
        self.target_loop: ast.For | None = None
        self.target_name: str | None = None

    def reset(self) -> None:
        super().reset()
        self.seen = []
        self.step = ""

    def stmt(self, s: ast.stmt) -> None:
        if any(s is lp for lp in self.loops):
            assert isinstance(s, ast.For)
            self.seen.append((self.step, list(self.iterate(self.eval(s.iter), s.iter))))
            if s is self.target_loop and self.target_name is not None:
                self.env[self.target_name] = Atom("TARGET_of_" + self.step.replace(" ", "_"))
            return
        if isinstance(s, ast.AugAssign) and isinstance(s.op, (ast.Sub, ast.BitAnd, ast.BitOr)) and self._aug_set(s):
            return
        super().stmt(s)

    def binop(self, op: ast.operator, a: Any, b: Any, node: ast.AST) -> Any:
        if isinstance(a, Unknown) or isinstance(b, Unknown):
            return Unknown(f"({a!r} {type(op).__name__} {b!r})")
        if isinstance(a, KeySet) and isinstance(op, (ast.Sub, ast.BitAnd, ast.BitOr)):
            return self._set_algebra(a, {ast.Sub: "difference", ast.BitAnd: "intersection",
                                         ast.BitOr: "union"}[type(op)], [b], node)
        return super().binop(op, a, b, node)

    # ---------------------------------------------------------------- the rest of the set / list / dict API
    _SET_METHODS = ("copy", "clear", "difference_update", "difference", "intersection_update", "intersection",
                    "update", "union")

    def _set_algebra(self, s: KeySet, m: str, others: list[Any], node: ast.AST | None) -> Any:
        """set.<m>(*others) on a set of proposals (membership by the proposals' equality key)."""
        if m == "copy":
            return self.keyset(self.iterate(s, node))  # type: ignore[arg-type]
        if m == "clear":
            s.clear()
            s.objs.clear()
            return None
        items = [y for o in others for y in self.iterate(o, node)]  # type: ignore[arg-type]
        keys = {self.key(y) for y in items}
        mine = list(self.iterate(s, node))  # type: ignore[arg-type]
        if m in ("update", "union"):
            tgt = s if m == "update" else self.keyset(mine)
            for y in items:
                self._set_op(tgt, "add", y, node)
            return None if m == "update" else tgt
        if m in ("difference", "difference_update"):
            keep = [x for x in mine if self.key(x) not in keys]
        else:
            keep = [x for x in mine if self.key(x) in keys]
        if m in ("difference", "intersection"):
            return self.keyset(keep)
        for x in mine:
            if not any(x is k for k in keep):
                self._set_op(s, "discard", x, node)
        return None

    def get_attr(self, base: Any, attr: str, node: ast.AST) -> Any:
        if isinstance(base, KeySet) and attr in self._SET_METHODS:
            return ("setalgebra", base, attr)
        if isinstance(base, list) and attr in ("remove", "copy", "clear"):
            return ("listv", base, attr)
        if isinstance(base, dict) and attr in ("clear", "copy", "update"):
            return ("dictv", base, attr)
        return super().get_attr(base, attr, node)

    def apply(self, fn: Any, pos: list[Any], kw: dict[str, Any], node: ast.AST) -> Any:
        if isinstance(fn, tuple) and fn and fn[0] == "setalgebra" and not kw:
            return self._set_algebra(fn[1], fn[2], pos, node)
        if isinstance(fn, tuple) and fn and fn[0] == "listv" and not kw:
            lst, m = fn[1], fn[2]
            if m == "copy":
                return list(lst)
            if m == "clear":
                lst[:] = []
                return None
            for i, x in enumerate(lst):
                if x is pos[0] or self.concrete_eq(x, pos[0], node):
                    del lst[i]
                    return None
            raise _Raise("ValueError", node)
        if isinstance(fn, tuple) and fn and fn[0] == "dictv":
            d, m = fn[1], fn[2]
            if m == "clear" and not pos and not kw:
                d.clear()
                return None
            if m == "copy" and not pos and not kw:
                return dict(d)
            if m == "update" and len(pos) == 1 and isinstance(pos[0], dict) and not kw:
                d.update(pos[0])
                return None
            raise AnalysisError(f"dict.{m} call not interpretable (line {getattr(node, 'lineno', '?')})")
        return super().apply(fn, pos, kw, node)

    def builtin(self, name: str, pos: list[Any], kw: dict[str, Any], node: ast.AST) -> Any:
        if name == "frozenset" and not kw:
            return self.keyset(self.iterate(pos[0], node) if pos else [])
        if name == "len" and pos and isinstance(pos[0], KeySet):
            return len(pos[0])
        return super().builtin(name, pos, kw, node)

    def eval(self, e: ast.AST | None) -> Any:
        if isinstance(e, ast.SetComp):
            return self.keyset(self.comprehension(e))
        if isinstance(e, ast.Set):
            return self.keyset([self.eval(x) for x in e.elts])
        return super().eval(e)

    def _aug_set(self, s: ast.AugAssign) -> bool:
        tgt = s.target
        if isinstance(tgt, ast.Name):
            load: ast.AST = ast.Name(id=tgt.id, ctx=ast.Load())
        elif isinstance(tgt, ast.Attribute):
            load = ast.Attribute(value=tgt.value, attr=tgt.attr, ctx=ast.Load())
        elif isinstance(tgt, ast.Subscript):
            load = ast.Subscript(value=tgt.value, slice=tgt.slice, ctx=ast.Load())
        else:
            return False
        cur = self.eval(ast.copy_location(load, tgt))
        if not isinstance(cur, KeySet):
            return False
        m = {ast.Sub: "difference_update", ast.BitAnd: "intersection_update", ast.BitOr: "update"}[type(s.op)]
        self._set_algebra(cur, m, [self.eval(s.value)], s)  # set.__isub__ & co. mutate in place
        return True

    def unaryop(self, op: ast.unaryop, v: Any, node: ast.AST) -> Any:
        if isinstance(v, Unknown) and not isinstance(op, ast.Not):
            return v
        return super().unaryop(op, v, node)

    def run_step(self, label: str, fn: FuncInfo, args: list[Any]) -> tuple[Any, list[list[Any]]]:
        """Call `fn` inside the current abstract run; returns its result and what the sweeps it reached
        iterated over."""
        self.step = label
        n = len(self.seen)
        res = self.call_func(fn, args, {})
        return res, [members for _lbl, members in self.seen[n:]]


def fresh_state(prog: Program, cls: Any, it: StoreInterp) -> Obj:
    """The instance as `__init__` leaves it: an attribute bound to an empty container of the language
    is that container; every other attribute (configuration derived from the arguments) is an Unknown
    scalar, a container built any other way is in an arbitrary state."""
    fields: dict[str, Any] = {}
    init = prog.resolve_method(cls, "__init__")
    if init is None or not init.params:
        raise AnalysisError(f"{cls.qual}: no __init__ to take the initial state of an instance from")
    me = init.params[0]
    for n in walk_no_nested(init.node):
        tgt = val = None
        if isinstance(n, ast.Assign) and len(n.targets) == 1:
            tgt, val = n.targets[0], n.value
        elif isinstance(n, ast.AnnAssign):
            tgt, val = n.target, n.value
        if not (isinstance(tgt, ast.Attribute) and isinstance(tgt.value, ast.Name) and tgt.value.id == me):
            continue
        ctor = val.func.id if isinstance(val, ast.Call) and isinstance(val.func, ast.Name) and not val.args \
            and not val.keywords else None
        if (isinstance(val, ast.Dict) and not val.keys) or ctor == "dict":
            fields[tgt.attr] = {}
        elif (isinstance(val, ast.List) and not val.elts) or ctor == "list":
            fields[tgt.attr] = []
        elif ctor == "set":
            fields[tgt.attr] = it.keyset([])
        elif isinstance(val, (ast.Dict, ast.Set, ast.List, ast.DictComp, ast.SetComp, ast.ListComp)) or (
                isinstance(val, ast.Call) and isinstance(val.func, ast.Name)
                and val.func.id in ("dict", "set", "list", "defaultdict", "OrderedDict", "deque")):
            fields[tgt.attr] = Havoc(tgt.attr)
        else:
            fields[tgt.attr] = Unknown(f"self.{tgt.attr}")
    return Obj(cls.name, **fields)


def proposals_in(v: Any, depth: int = 0) -> list[Any]:
    """The proposal records held by a bucket, whatever container of the language it is (set / list /
    tuple, dict by any key, nested one level: a dict of lists per priority ...)."""
    if isinstance(v, Obj):
        return [v] if v.cls == "Proposal" else []
    if depth > 3:
        return []
    if isinstance(v, KeySet):
        return [x for o in v.objs.values() for x in proposals_in(o, depth + 1)]
    if isinstance(v, dict):
        return [x for o in list(v.keys()) + list(v.values()) for x in proposals_in(o, depth + 1)]
    if isinstance(v, (list, tuple, set, frozenset)):
        return [x for o in v for x in proposals_in(o, depth + 1)]
    return []


# ---------------------------------------------------------------------------------------------
# sweep structure and roles
# ---------------------------------------------------------------------------------------------
def synth(name: str, body: list[ast.stmt], ret: list[str]) -> ast.FunctionDef:
    """def name(): <body>; return (ret...)   - arguments are supplied as the initial frame."""
    fn = ast.FunctionDef(
        name=name,
        args=ast.arguments(posonlyargs=[], args=[], kwonlyargs=[], kw_defaults=[], defaults=[]),
        body=copy.deepcopy(body) + [ast.Return(value=ast.Tuple(
            elts=[ast.Name(id=r, ctx=ast.Load()) for r in ret], ctx=ast.Load()))],
        decorator_list=[], type_params=[])
    ast.fix_missing_locations(fn)
    return fn


def _stored(stmts: Iterable[ast.AST]) -> set[str]:
    out: set[str] = set()
    for s in stmts:
        for n in walk_no_nested(s):
            if isinstance(n, ast.Name) and isinstance(n.ctx, ast.Store):
                out.add(n.id)
            elif isinstance(n, ast.MatchAs) and n.name:
                out.add(n.name)
    return out


def _used(stmts: Iterable[ast.AST]) -> set[str]:
    return {n.id for s in stmts for n in ast.walk(s) if isinstance(n, ast.Name)}


@dataclass
class Sweep:
    fn: FuncInfo            # the function that holds the proposal loop (the sweep proper)
    entry: FuncInfo         # the function entered from outside; `fn` itself or a caller that reaches it
    entry_sys: str          # parameter of `entry` that receives the system bounds
    entry_extra: dict[str, Any]  # concrete values of the other parameters of `entry`
    pro: list[ast.stmt]
    loop: ast.For
    epi: list[ast.stmt]
    pv: str                 # the loop variable (one proposal)
    svars: list[str]        # locals bound before the loop and used inside it
    base: dict[str, Any] = field(default_factory=dict)  # scalar arguments `fn` is entered with
    L: str = ""
    U: str = ""
    X: str = ""
    T: str | None = None
    prog: Program | None = None
    unreached: list[str] = field(default_factory=list)  # entry paths that returned before the sweep

    def self_obj(self, **known: Any) -> Obj | None:
        """A record of the analysed class: one (placeholder) proposal in the group's bucket, no target
        remembered, every other attribute in an arbitrary state."""
        if self.entry.cls is None or self.prog is None:
            return None
        placeholder = Obj("Proposal", preferred_power=None, bounds=Obj("Bounds", lower=None, upper=None),
                          priority=0, source_id="placeholder")
        base: dict[str, Any] = {"_component_buckets": {"ids": [placeholder]}, "_target_power": {}}
        base.update(known)
        return instance_state(self.prog, self.entry.cls, **base)

    def _self_name(self) -> str | None:
        if self.fn.cls is None or _is_static(self.fn.node) or not self.fn.params:
            return None
        return self.fn.params[0]

    def enter(self, it: "LinInterp", sysb: Any, so: Obj | None = None, **override: Any) -> dict[str, Any]:
        """The frame with which `fn` starts when `entry` is called with these system bounds: `entry`
        is executed inside the current abstract run up to the call of `fn` (whose arguments are then
        whatever the caller computes for them - no parameter name or position of `fn` is assumed)."""
        args = dict(self.entry_extra)
        args.update(override)
        so = so if so is not None else self.self_obj()
        if so is not None:
            args[self.entry.params[0]] = so
        args[self.entry_sys] = sysb
        if self.fn.node is self.entry.node:
            return args
        it.capture = self.fn
        depth = len(it.frames)
        try:
            it.call_node(self.entry.node, args)
        except _Captured as c:
            return c.frame
        finally:
            it.capture = None
            del it.frames[depth:]
        ret = it.last_return
        where = f"`{ast.unparse(ret)}` at line {ret.lineno}" if ret is not None else "the end of the function"
        why = (" on a path decided by remembered instance state (" + ", ".join(f"self.{n}" for n in it.state_reads) + ")"
               if it.state_reads else "")
        # such a path is not a path of the sweep: it is dropped here and judged where the entry function
        # is explored as a whole (C04.RESULT); the caller decides what it means if no path is left
        self.unreached.append(f"{self.entry.qual} leaves through {where}{why} without running the sweep in "
                              f"{self.fn.qual}")
        raise Infeasible()

    def frame(self, so: Obj | None = None, **roles: Any) -> dict[str, Any]:
        """Initial frame of one iteration: the scalar arguments the sweep is entered with, state
        locals default to None, `self` is a record of the analysed class, roles as given."""
        args: dict[str, Any] = {v: None for v in self.svars}
        args.update(self.base)
        sn = self._self_name()
        if sn is not None:
            args[sn] = so if so is not None else self.self_obj()
        args.update(roles)
        return args


def split_sweep(fn: FuncInfo) -> tuple[list[ast.stmt], ast.For, list[ast.stmt]]:
    body = [s for s in fn.node.body if not (isinstance(s, ast.Expr) and isinstance(s.value, ast.Constant))]
    loops = [s for s in body if isinstance(s, ast.For)]
    if len(loops) != 1:
        loops = [s for s in _proposal_loops(fn) if s in body]
    if len(loops) != 1:
        raise AnalysisError(f"{fn.qual}: expected exactly one top-level proposal loop, found {len(loops)}")
    i = body.index(loops[0])
    return body[:i], loops[0], body[i + 1:]


def mk_system(it: OrderInterp, order: str, keep_zero: bool = False) -> tuple[Obj, Obj, Obj]:
    """SystemBounds with inclusion (sysL, sysU) and exclusion (sel, seu); `order` fixes the zone:
    'strict' sysL < sel < 0 < seu < sysU, 'degenerate' sel = 0 = seu."""
    if not keep_zero or "__ZERO__" not in it.globals:
        it.globals["__ZERO__"] = Atom("ZERO")
    zero = it.globals["__ZERO__"]
    sl, su, el, eu = Atom("sysL"), Atom("sysU"), Atom("sel"), Atom("seu")
    if order == "strict":
        for a, b in ((sl, el), (el, zero), (zero, eu), (eu, su)):
            it.assume("<", a, b)
    else:
        it.assume("<", sl, zero)
        it.assume("<", zero, su)
        it.assume("=", el, zero)
        it.assume("=", eu, zero)
    incl = Obj("Bounds", lower=sl, upper=su)
    excl = Obj("Bounds", lower=el, upper=eu)
    return Obj("SystemBounds", inclusion_bounds=incl, exclusion_bounds=excl), incl, excl


def _sorts(e: ast.AST) -> bool:
    return any(isinstance(n, ast.Call) and isinstance(n.func, ast.Name) and n.func.id in ("sorted", "reversed")
               for n in ast.walk(e))


def _proposal_loops(fn: FuncInfo) -> list[ast.For]:
    """Top-level loops over a sorted / reversed collection (the proposal sweep's shape); the
    collection may have been put into a local first."""
    ordered = {t.id for n in walk_no_nested(fn.node) if isinstance(n, ast.Assign) and _sorts(n.value)
               for t in n.targets if isinstance(t, ast.Name)}
    out = []
    for st in fn.node.body:
        if isinstance(st, ast.For) and (_sorts(st.iter) or any(
                isinstance(n, ast.Name) and n.id in ordered for n in ast.walk(st.iter))):
            out.append(st)
    return out


def find_holder(prog: Program, entry: FuncInfo) -> FuncInfo:
    """The function that plays the role 'sweep over the sorted proposals' for `entry`: `entry`
    itself or the one same-module helper it reaches whose body has the top-level proposal loop."""
    fns = reach(prog, entry)
    cands = [h for h in fns if _proposal_loops(h)]
    if not cands:  # no loop of the usual shape: a single function with a single top-level loop will do
        cands = [h for h in fns if sum(isinstance(st, ast.For) for st in h.node.body) == 1]
    if len(cands) != 1:
        raise AnalysisError(f"{entry.qual}: expected exactly one function with the top-level loop over the "
                            f"sorted proposals among it and its helpers, found {len(cands)}")
    return cands[0]


def sweep_roles(prog: Program, entry: FuncInfo, entry_sys: str, extra: dict[str, Any]) -> Sweep:
    """Bind the roles of a sweep by dataflow.

    The sweep is the function reached from `entry` that holds the proposal loop.  It is entered the
    way `entry` enters it, with a system-bounds record of recognisable atoms; its prologue is run;
    afterwards the local that holds the inclusion lower bound *is* the running lower bound, and so
    on.  `extra` gives concrete values for the remaining parameters of `entry`."""
    fn = find_holder(prog, entry)
    pro, loop, epi = split_sweep(fn)
    if not isinstance(loop.target, ast.Name):
        raise AnalysisError(f"{fn.qual}: the proposal loop does not bind a single loop variable")
    before = _stored(pro)
    svars = sorted((before | set(fn.params)) & _used([loop]))
    sw = Sweep(fn, entry, entry_sys, dict(extra), pro, loop, epi, loop.target.id, svars, prog=prog)
    names = sorted(before)
    pfn = synth("prologue", pro, names)

    def run_prologue(order: str) -> tuple[dict[str, Any], Obj, Obj, Atom]:
        it = LinInterp(prog, fn.module)
        got: dict[str, Any] = {}

        def make() -> dict[str, Any]:
            sysb, incl, excl = mk_system(it, order)
            got.update(incl=incl, excl=excl, zero=it.globals["__ZERO__"])
            frame = sw.enter(it, sysb)
            got["frame"] = frame
            return frame

        outs = it.explore(pfn, make, lambda _res: dict(got))  # each path keeps its own atoms
        if not outs and sw.unreached:
            raise NotReached(sw.unreached[0])
        if not outs or any(o.kind != "return" or not isinstance(o.value, tuple) or len(o.value) != len(names)
                           for o in outs) or len({repr(o.value) for o in outs}) != 1:
            raise AnalysisError(f"{fn.qual}: the prologue of the sweep is not a straight computation "
                                f"of the initial state ({len(outs)} abstract paths)")
        mine = outs[0].post
        env = dict(mine["frame"])  # parameters the sweep is entered with ...
        env.update(zip(names, outs[0].value))  # ... and the locals its prologue binds
        sw.base = {k: v for k, v in env.items() if isinstance(v, (str, int, float, bool, type(None)))}
        return env, mine["incl"], mine["excl"], mine["zero"]

    env, incl, excl, zero = run_prologue("strict")
    in_loop = _stored(loop.body)

    def pick(what: str, cands: list[str]) -> str:
        c = [n for n in cands if n in svars]
        if len(c) > 1:
            c = [n for n in c if n in in_loop] or c
        if len(c) != 1:
            raise AnalysisError(f"{fn.qual}: cannot bind the role '{what}' of the sweep by dataflow "
                                f"(candidates {sorted(cands)})")
        return c[0]

    sw.L = pick("running lower bound", [n for n, v in env.items() if v is incl.fields["lower"]])
    sw.U = pick("running upper bound", [n for n, v in env.items() if v is incl.fields["upper"]])
    xs = [n for n, v in env.items() if v is excl and n in svars]
    if len(xs) > 1:
        env2, _i, _e, _z = run_prologue("degenerate")
        xs = [n for n in xs if env2.get(n) is None] or xs
    sw.X = pick("effective exclusion zone", xs)
    rets = [s for s in epi if isinstance(s, ast.Return)]
    if len(epi) == 1 and rets and isinstance(rets[0].value, ast.Name) and rets[0].value.id in env:
        sw.T = rets[0].value.id
    else:
        ts = [n for n, v in env.items() if v is zero and n in svars and n in in_loop]
        sw.T = ts[0] if len(ts) == 1 else None
    return sw


# ---------------------------------------------------------------------------------------------
# the container that plays the role "bucket of a component group"
# ---------------------------------------------------------------------------------------------
_BUILTIN_CONTAINERS = ("set", "frozenset", "list", "dict", "tuple", "sorted")
_ORDER_WRAPPERS = ("sorted", "reversed", "list", "tuple", "iter", "set", "frozenset")


@dataclass
class BucketValue:
    fn: FuncInfo            # function the expression sits in
    node: ast.AST           # the expression that yields a bucket
    site: ast.AST           # the construct that puts it into the bucket role
    how: str                # what makes it a bucket
    kind: str               # 'builtin' (container of the language) | 'class' (defined in the analysed tree)
    cls: Any = None         # the ClassInfo for kind == 'class'


def _own_code(cls: Any) -> list[str]:
    """Names of the methods a class defined in the tree brings along (empty for `class B(set): pass`)."""
    return sorted(cls.methods)


def bucket_values(prog: Program, owner: Any, store: str, loops: Iterable[tuple[FuncInfo, ast.For]]) -> list[BucketValue]:
    """Every expression of the class `owner` (and of the plain functions of its module) that *yields a
    bucket*: the value stored under a key of `self.<store>` (subscript store, second argument of
    setdefault / get / pop, values of a dict display or comprehension assigned to the attribute, factory
    of a defaultdict) and a container built in the iterable of a proposal loop.  Each is classified by
    what constructs it: a container of the language (display, comprehension, set() / list() / dict() /
    frozenset() / tuple() / sorted()) or a class defined in the analysed tree; locals are followed
    through their assignments, factory helpers through their returns.  Anything else (parameters,
    lookups in the store itself, third-party constructors) is not decided here: the interpreters meet
    it and fail closed."""
    out: list[BucketValue] = []
    fns: list[FuncInfo] = list(owner.methods.values()) + list(owner.module.functions.values())

    def is_builtin_name(mod: Any, ident: str) -> bool:
        return ident not in mod.classes and ident not in mod.functions and ident not in mod.imports \
            and ident not in mod.assigns

    def classify(fn: FuncInfo, e: ast.AST | None, site: ast.AST, how: str, depth: int = 0) -> None:
        if e is None or depth > 4 or (isinstance(e, ast.Constant) and e.value is None):
            return
        if isinstance(e, (ast.Set, ast.List, ast.Dict, ast.Tuple, ast.ListComp, ast.SetComp, ast.DictComp,
                          ast.GeneratorExp)):
            out.append(BucketValue(fn, e, site, how, "builtin"))
            return
        if isinstance(e, ast.IfExp):
            classify(fn, e.body, site, how, depth + 1)
            classify(fn, e.orelse, site, how, depth + 1)
            return
        if isinstance(e, ast.BoolOp):
            for v in e.values:
                classify(fn, v, site, how, depth + 1)
            return
        if isinstance(e, ast.NamedExpr):
            classify(fn, e.value, site, how, depth + 1)
            return
        if isinstance(e, ast.Name):
            if e.id in fn.params:
                return
            for n in walk_no_nested(fn.node):
                if isinstance(n, ast.Assign) and any(isinstance(t, ast.Name) and t.id == e.id for t in n.targets):
                    classify(fn, n.value, site, how, depth + 1)
                elif isinstance(n, (ast.AnnAssign, ast.NamedExpr)) and isinstance(n.target, ast.Name) \
                        and n.target.id == e.id and n is not e:
                    classify(fn, n.value, site, how, depth + 1)
            return
        if isinstance(e, ast.Call):
            classify_ctor(fn, e.func, e, site, how, depth)

    def classify_ctor(fn: FuncInfo, f: ast.AST, e: ast.AST, site: ast.AST, how: str, depth: int) -> None:
        """`f` is what is called (or handed over as a factory) to make the bucket."""
        while isinstance(f, ast.Subscript):  # SortedSet[Proposal]()
            f = f.value
        mod = fn.module
        if isinstance(f, ast.Lambda):
            classify(fn, f.body, site, how, depth + 1)
            return
        if isinstance(f, ast.Name) and f.id in _BUILTIN_CONTAINERS and is_builtin_name(mod, f.id):
            out.append(BucketValue(fn, e, site, how, "builtin"))
            return
        tgt: Any = None
        if isinstance(f, ast.Attribute) and isinstance(f.value, ast.Name) and fn.cls is not None and fn.params \
                and f.value.id in (fn.params[0], fn.cls.name):
            tgt = prog.resolve_method(fn.cls, f.attr)
        if tgt is None:
            try:
                name = ast.unparse(f)
            except Exception:  # noqa: BLE001
                return
            tgt = prog.resolve_name(mod, name)
        if isinstance(tgt, FuncInfo) and tgt.name == "__init__" and tgt.cls is not None:
            tgt = tgt.cls
        if isinstance(tgt, FuncInfo):
            for n in walk_no_nested(tgt.node):
                if isinstance(n, ast.Return):
                    classify(tgt, n.value, site, how, depth + 1)
            return
        if tgt is not None and hasattr(tgt, "methods") and hasattr(tgt, "base_exprs"):
            plain = not _own_code(tgt) and all(b in _BUILTIN_CONTAINERS for b in tgt.base_exprs) and tgt.base_exprs
            out.append(BucketValue(fn, e, site, how, "builtin" if plain else "class", None if plain else tgt))

    for fn in fns:
        me = fn.params[0] if fn.cls is not None and fn.params and not _is_static(fn.node) else None

        def is_store_attr(x: ast.AST, me: str | None = me) -> bool:
            return isinstance(x, ast.Attribute) and x.attr == store and isinstance(x.value, ast.Name) and x.value.id == me

        aliases = {t.id for n in walk_no_nested(fn.node) if isinstance(n, ast.Assign) and is_store_attr(n.value)
                   for t in n.targets if isinstance(t, ast.Name)}

        def is_store(x: ast.AST, aliases: set[str] = aliases) -> bool:
            return is_store_attr(x) or (isinstance(x, ast.Name) and x.id in aliases)

        for n in walk_no_nested(fn.node):
            if isinstance(n, ast.Call) and isinstance(n.func, ast.Attribute) and is_store(n.func.value) \
                    and n.func.attr in ("setdefault", "get", "pop"):
                dflt = n.args[1] if len(n.args) > 1 else next((k.value for k in n.keywords if k.arg == "default"), None)
                classify(fn, dflt, n, f"the default of {store}.{n.func.attr}()")
            tgts: list[ast.AST] = []
            val: ast.AST | None = None
            if isinstance(n, ast.Assign):
                tgts, val = list(n.targets), n.value
            elif isinstance(n, ast.AnnAssign) and n.value is not None:
                tgts, val = [n.target], n.value
            for t in tgts:
                if isinstance(t, ast.Subscript) and is_store(t.value):
                    classify(fn, val, n, f"stored under a key of {store}")
                elif is_store_attr(t) and val is not None:
                    if isinstance(val, ast.Dict):
                        for v in val.values:
                            classify(fn, v, n, f"a value of the {store} display")
                    elif isinstance(val, ast.DictComp):
                        classify(fn, val.value, n, f"a value of the {store} comprehension")
                    elif isinstance(val, ast.Call) and val.args and ast.unparse(val.func).split(".")[-1] == "defaultdict":
                        classify_ctor(fn, val.args[0], val.args[0], n, f"the factory of the {store} defaultdict", 0)
    for fn, loop in loops:
        e: ast.AST = loop.iter
        while isinstance(e, ast.Call) and isinstance(e.func, ast.Name) and e.func.id in _ORDER_WRAPPERS and e.args:
            e = e.args[0]
        if isinstance(e, ast.Call) and not (isinstance(e.func, ast.Attribute) and e.func.attr in ("get", "setdefault", "pop", "values", "keys", "items")):
            classify(fn, e, loop.iter, "the collection the proposal loop iterates")
    return out


STOPPED = "_sweep_stopped"


def step_function(sw: Sweep, name: str, ret: list[str]) -> ast.FunctionDef:
    """One iteration of the sweep's loop (break / continue end the iteration), returning `ret`;
    the name STOPPED may be returned too: True iff the iteration left the loop with `break`."""
    once = ast.For(target=ast.Name(id="_once", ctx=ast.Store()),
                   iter=ast.List(elts=[ast.Constant(0)], ctx=ast.Load()), body=sw.loop.body,
                   orelse=[ast.Assign(targets=[ast.Name(id=STOPPED, ctx=ast.Store())], value=ast.Constant(False))])
    init = ast.Assign(targets=[ast.Name(id=STOPPED, ctx=ast.Store())], value=ast.Constant(True))
    return synth(name, [init, once], ret)


# ---------------------------------------------------------------------------------------------
# structural controls
# ---------------------------------------------------------------------------------------------
def splice(source: str, edits: list[tuple[ast.AST, str]]) -> str:
    """`source` with the span of each node replaced by the given text."""
    lines = source.splitlines(keepends=True)
    starts = [0]
    for ln in lines:
        starts.append(starts[-1] + len(ln))

    def off(lineno: int, col: int) -> int:
        return starts[lineno - 1] + len(lines[lineno - 1].encode("utf-8")[:col].decode("utf-8"))

    spans = sorted(((off(n.lineno, n.col_offset), off(n.end_lineno, n.end_col_offset), new)  # type: ignore[attr-defined]
                    for n, new in edits), reverse=True)
    for a, b, new in spans:
        source = source[:a] + new + source[b:]
    return source


def reach(prog: Program, fn: FuncInfo) -> list[FuncInfo]:
    """`fn` and the private helpers of its own class / module (same file) it calls, transitively."""
    out = [fn]
    todo = [fn]
    while todo:
        f = todo.pop()
        for c in walk_no_nested(f.node):
            if not isinstance(c, ast.Call):
                continue
            g: FuncInfo | None = None
            cf = c.func
            if isinstance(cf, ast.Attribute) and isinstance(cf.value, ast.Name) and fn.cls is not None \
                    and cf.value.id in ("self", "cls", fn.cls.name):
                g = prog.resolve_method(fn.cls, cf.attr)
            elif isinstance(cf, ast.Name) and cf.id in fn.module.functions:
                g = fn.module.functions[cf.id]
            if g is not None and g.module is fn.module and all(g is not x for x in out):
                out.append(g)
                todo.append(g)
    return out


_FLIP_STRICT = {ast.Lt: ast.LtE, ast.LtE: ast.Lt, ast.Gt: ast.GtE, ast.GtE: ast.Gt}
_MIRROR = {ast.Lt: ast.Gt, ast.Gt: ast.Lt, ast.LtE: ast.GtE, ast.GtE: ast.LtE}


def compare_pairs(node: ast.Compare) -> list[tuple[int, ast.AST, ast.cmpop, ast.AST]]:
    out = []
    left = node.left
    for i, (op, right) in enumerate(zip(node.ops, node.comparators)):
        out.append((i, left, op, right))
        left = right
    return out


def with_op(node: ast.Compare, index: int, table: dict[type, type]) -> str | None:
    """Source text of the comparison with its `index`-th operator replaced through `table`."""
    new_op = table.get(type(node.ops[index]))
    if new_op is None:
        return None
    n = copy.deepcopy(node)
    n.ops[index] = new_op()
    return "(" + ast.unparse(n) + ")"


def flip_strict(node: ast.Compare, index: int) -> str | None:
    return with_op(node, index, _FLIP_STRICT)


def mirror(node: ast.Compare, index: int) -> str | None:
    return with_op(node, index, _MIRROR)
