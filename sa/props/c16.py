"""C16  A battery is reported usable only while its data proves it healthy.

All rules are decided on *path summaries* (sa/props/_c16_util.py): code is walked symbolically path by
path; locals, parameters, comprehension variables and private helpers are eliminated (helpers are
executed in line, by value), conditions are split into canonical atoms (`a > b` == `b < a` ==
`not a <= b`, De Morgan, ternary / early return / if-else all alike), attribute writes and calls are
recorded in order.  A rule then quantifies over paths: "whenever <outcome> then <atoms decided so /
writes / calls present>".

The tracker is analysed as ONE unit: one iteration of its select loop with every private method of the
class executed in line — message handlers, validity predicates, timer handlers, status decision, change
detection, whatever they are called and however the code is cut into functions.  The method holding the
loop is found by its role (it contains the `select(...)` loop), everything else by being called from it;
the event sources are recognised by what produced the receiver, the message is `SELECTED.message`.  No
private name is matched, so renaming, inlining, extracting or merging helpers cannot change a verdict.

  C16.SAFE    on the paths that handle a data message of a stream, the stream's flag is written on every
              path, and written True only if every disqualifying fact of that stream (stale — exactly
              `max_data_age < now - message timestamp` —, invalid component state, invalid relay state,
              critical error, NaN capacity for the battery; stale, invalid state, critical error for the
              inverter) was tested *on that message* with the outcome "does not hold"; a status other
              than NOT_WORKING becomes the stored (= reported) status only on paths where both flags
              are known true at that moment.  The sets of operational states are a frozen table.
  C16.TIMER   a data message records its timestamp and resets its stream's timer on every path, and only
              an event of that stream can set that stream's timestamp or make its flag true; only a
              set-power result reaches block(); every path of a timer event decides freshness on *its
              own* stream's last timestamp (and on no other stream's); a stale outcome leaves that
              stream's flag false and the other untouched, a late event changes no flag; every path that
              changes a flag or the block re-evaluates the status afterwards; the select loop sits in a
              try absorbing Exception inside an endless loop that nothing leaves; every selected source stays
              armed: on no path (nor before the loop) is a source stopped / closed (select() drops an ended
              receiver for good), re-armed with arguments, or its stream / timer object replaced.
  C16.CHANGE  a path sends iff it stored a new status (once, store first); the payload is
              ComponentStatus(component_id=battery id, value=the stored status); a status is stored only
              after it was compared with `_last_status` and found different.
  C16.BLOCK   BlockingStatus.block: every path is one of not blocked -> duration := min_duration;
              still blocked (now < blocked_until) -> zero returned, no state write; expired ->
              duration := min(2 * last, max); blocked_until := now + the new duration (values compared
              in polynomial normal form after strong update of written attributes); unblock clears on
              every path; is_blocked is True exactly when blocked_until is set and in the future; on the
              paths handling a set-power result the tracker unblocks on every success and blocks exactly
              on failure when the last status was not NOT_WORKING; a blocked healthy battery becomes
              UNCERTAIN, and WORKING only when is_blocked() was false or the recovery from NOT_WORKING
              cleared the block; uncertain components are returned exactly when the working
              intersection is empty.
  C16.WIRE    construction sites of the trackers: every parameter gets the owner's value of the same role; the
              tracker uses the two durations for what they are; the set-power outcome channel is lossless:
              each tracker gets its own, unwrapped `new_receiver()` (made per construction, not shared) of the
              very Broadcast the owner publishes SetPowerResult on, with no `limit` below the default (50).
              The status channel is exactly-once: the Broadcast a tracker's `Sender[ComponentStatus]` comes from has
              exactly one `new_receiver()` in the owner, made as often as the channel itself (else the pool's loop sees
              each change once per receiver and publishes that many identical ComponentPoolStatus notifications).
  C16.OUTCOME the (succeeded, failed) sets that reach the per-battery trackers are the outcome of the power command itself:
              the pool tracker's publishing method (found by role: it builds a SetPowerResult and sends it) sends
              exactly one per call on every path, its `failed` field is the argument as given, no field reads the pool's
              own state, the two fields come from different arguments; at every call site of that method (followed out of
              the anchored files, e.g. BatteryManager._distribute_power; through private helpers from their callers)
              the succeeded set — after the pool's forwarding — is disjoint from the failed set by construction on every
              path (`x - failed`, `.difference`, `{.. if v not in failed}`, or `failed` decided empty on the path), and
              the failed set is the one the returned result names as failed.
              (Reads the reporting site outside the anchored files: .../_component_managers/_battery_manager.py.)
  C16.POOL    the pool tracker's status loop (found by role; what consumers see): for every status
              message and every path consistent with a status value (the enum is closed), the reported
              component ends in `working` only for WORKING, in `uncertain` only for UNCERTAIN and in
              neither set for NOT_WORKING (last add / discard / remove on each published set for that
              id), and the updated status is sent afterwards on every path.
"""
from __future__ import annotations

import ast
import copy
from typing import Any, Callable

from ..engine.normalize import positional
from ..engine.report import AnalysisError, Run
from ..engine.resolver import FuncInfo, Program, walk_no_nested
from ._c16_util import (Atom, Exec, PathSum, State, Unsupported, _is_pure_call, eq_key, in_key, is_key, lt_key, parse_expr,
                        poly, text, truthy_key, u)

MOD = "microgrid._power_distributing._component_status._battery_status_tracker"
TR = f"{MOD}:BatteryStatusTracker"
_BSMOD = "microgrid._power_distributing._component_status._blocking_status"
BS = f"{_BSMOD}:BlockingStatus"
CSMOD = "microgrid._power_distributing._component_status._component_status"
CS = f"{CSMOD}:ComponentPoolStatus"

NW = "ComponentStatusEnum.NOT_WORKING"
WORKING = "ComponentStatusEnum.WORKING"
UNCERTAIN = "ComponentStatusEnum.UNCERTAIN"
FLAG = "last_msg_correct"
DETECT = "self._get_new_status_if_changed()"
CURRENT = "self._get_current_status()"


# ------------------------------------------------------------------------------ disqualifying facts
# The message a handler works on is, after the executor has run the handlers in line, the expression
# `SELECTED.message` of the select loop.  A fact is bound to code by *what the atomic condition computes* on
# that message, never by the name of a local, a parameter or a helper: matcher(atom) -> the truth value of
# that atom under which the disqualifying fact holds, or None when the atom is not a test of this fact.
MSG = "SELECTED.message"


def _fact_nan(a: Atom) -> bool | None:
    if a.kind == "truthy" and text(a.ops[0]) in (f"math.isnan({MSG}.capacity)", f"isnan({MSG}.capacity)"):
        return True
    return None


def _is_critical_filter(gen: ast.AST) -> bool:
    """`(<v> for <v> in MSG.errors if <v>.level == ErrorLevel.CRITICAL)` (any variable name)."""
    if not isinstance(gen, (ast.GeneratorExp, ast.ListComp)) or len(gen.generators) != 1:
        return False
    g = gen.generators[0]
    if not isinstance(g.target, ast.Name) or text(g.iter) != f"{MSG}.errors" or len(g.ifs) != 1 or g.is_async:
        return False
    v = g.target.id
    return text(gen.elt) == v and _is_critical_test(g.ifs[0], v)


def _is_critical_test(c: ast.AST, v: str) -> bool:
    """`<v>.level == ErrorLevel.CRITICAL` in any spelling (`is`, operands swapped, `not ... != ...`)."""
    pol = True
    while isinstance(c, ast.UnaryOp) and isinstance(c.op, ast.Not):
        pol, c = not pol, c.operand
    if not (isinstance(c, ast.Compare) and len(c.ops) == 1 and isinstance(c.ops[0], (ast.Eq, ast.Is, ast.NotEq, ast.IsNot))):
        return False
    if isinstance(c.ops[0], (ast.NotEq, ast.IsNot)):
        pol = not pol
    return pol and {text(c.left), text(c.comparators[0])} == {f"{v}.level", "ErrorLevel.CRITICAL"}


def _fact_critical(a: Atom) -> bool | None:
    if a.kind == "is":  # next((e for e in MSG.errors if e.level == CRITICAL), None) is None
        ops = list(a.ops)
        none = [o for o in ops if isinstance(o, ast.Constant) and o.value is None]
        other = [o for o in ops if o not in none]
        if len(none) == 1 and len(other) == 1 and isinstance(other[0], ast.Call) and u(other[0].func) == "next" \
                and len(other[0].args) == 2 and not other[0].keywords and text(other[0].args[1]) == "None" \
                and _is_critical_filter(other[0].args[0]):
            return False  # the fact holds when `... is None` is false
    if a.kind == "truthy" and isinstance(a.ops[0], ast.Call) and u(a.ops[0].func) == "any" and len(a.ops[0].args) == 1:
        gen = a.ops[0].args[0]  # any(e.level == CRITICAL for e in MSG.errors)
        if isinstance(gen, (ast.GeneratorExp, ast.ListComp)) and len(gen.generators) == 1:
            g = gen.generators[0]
            if isinstance(g.target, ast.Name) and text(g.iter) == f"{MSG}.errors" and not g.ifs \
                    and _is_critical_test(gen.elt, g.target.id):
                return True
    if a.kind == "truthy":  # [e for e in MSG.errors if e.level == CRITICAL] / list(...) / tuple(...) of that filter
        x = a.ops[0]
        if isinstance(x, ast.Call) and u(x.func) in ("list", "tuple") and len(x.args) == 1 and not x.keywords:
            x = x.args[0]
        if _is_critical_filter(x):
            return True
    return None


def _fact_not_in(attr: str, table: str) -> Callable[[Atom], bool | None]:
    owners = ("BatteryStatusTracker", "self", "type(self)", "self.__class__", "cls")

    def match(a: Atom) -> bool | None:
        if a.kind == "in" and text(a.ops[0]) == f"{MSG}.{attr}" and text(a.ops[1]) in {f"{o}.{table}" for o in owners}:
            return False  # the fact holds when `state in valid` is false
        return None
    return match


def _fact_stale(a: Atom) -> bool | None:
    if a.key == lt_key("self._max_data_age", f"NOW - {MSG}.timestamp"):
        return True
    return None


# frozen instance table: stream -> the disqualifying facts a message of that stream must be cleared of before the
# stream's flag may become true (label, matcher, the message field the fact is about)
FACTS: dict[str, list[tuple[str, Callable[[Atom], bool | None], str]]] = {
    "self._battery": [
        ("stale message", _fact_stale, "timestamp"),
        ("invalid battery state", _fact_not_in("component_state", "_battery_valid_state"), "component_state"),
        ("invalid relay state", _fact_not_in("relay_state", "_battery_valid_relay"), "relay_state"),
        ("critical error", _fact_critical, "errors"),
        ("NaN capacity", _fact_nan, "capacity")],
    "self._inverter": [
        ("stale message", _fact_stale, "timestamp"),
        ("invalid inverter state", _fact_not_in("component_state", "_inverter_valid_state"), "component_state"),
        ("critical error", _fact_critical, "errors")],
}
STREAMS = ("self._battery", "self._inverter")
VALID_SETS = {
    "_battery_valid_relay": {"BatteryRelayState.CLOSED"},
    "_battery_valid_state": {"BatteryComponentState.IDLE", "BatteryComponentState.CHARGING",
                             "BatteryComponentState.DISCHARGING"},
    "_inverter_valid_state": {"InverterComponentState.STANDBY", "InverterComponentState.IDLE",
                              "InverterComponentState.CHARGING", "InverterComponentState.DISCHARGING"},
}


# ------------------------------------------------------------------------------ path summaries
def paths_of(prog: Program, fn: FuncInfo, params: list[str] | None = None, mode: str = "value",
             allow_opaque: bool = False) -> list[PathSum]:
    """Every path through `fn` (see _c16_util); what cannot be interpreted fails closed.  With `allow_opaque`
    a private call that cannot be executed in line is tolerated and listed in the path's `blind` attribute:
    the caller must then fail closed itself wherever such a call could hide what it is looking for."""
    try:
        ex = Exec(prog, fn, bool_attrs={FLAG}, inline_all=True, max_depth=6)
        ps = ex.run(params, mode)
    except Unsupported as exc:
        raise AnalysisError(f"{fn.qual}: cannot be interpreted path by path ({exc})") from exc
    ps = [p for p in ps if p.exit != "raise"]
    for p in ps:
        p.blind = ex.opaque_private_calls(p)  # type: ignore[attr-defined]
    blind = sorted({c for p in ps for c in p.blind})  # type: ignore[attr-defined]
    if blind and not allow_opaque:
        raise AnalysisError(f"{fn.qual}: cannot see through {blind} (not interpretable path by path)")
    if not ps:
        raise AnalysisError(f"{fn.qual}: no normal path")
    return ps


def ret_text(p: PathSum) -> str:
    return "None" if p.value is None else text(p.value)


def first(items: list[Any]) -> Any:
    return items[0] if items else None


def wit(p: PathSum | None) -> list[str]:
    return p.describe() if p is not None else []


# ------------------------------------------------------------------------------ the select loop
def _is_select_loop(n: ast.AST) -> bool:
    return isinstance(n, ast.AsyncFor) and isinstance(n.iter, ast.Call) and u(n.iter.func) == "select"


def iteration_paths(ex: Exec, fn: FuncInfo, st: State, is_loop: Callable[[ast.AST], bool], var: str, what: str
                    ) -> tuple[list[PathSum], ast.AsyncFor, list[ast.stmt], State]:
    """Paths through one iteration of the (single) loop of `fn` satisfying `is_loop`: the straight-line
    code leading to the loop is executed first (aliases), names assigned inside the body start each
    iteration unknown, the loop variable is bound to the canonical name `var`.  Also returned: the loop
    statement, the compound statements enclosing it (outermost first) and the state at loop entry."""
    def contains(x: ast.AST) -> bool:
        return any(is_loop(n) for n in ast.walk(x))
    suite = ex.prepared(fn).body
    chain: list[ast.stmt] = []
    try:
        while True:
            idx = [i for i, s in enumerate(suite) if contains(s)]
            if len(idx) != 1:
                raise AnalysisError(f"{fn.qual}: expected exactly one {what}")
            pre = ex.run_suite(suite[:idx[0]], st)
            if len(pre) != 1 or pre[0].exit != "fall":
                raise AnalysisError(f"{fn.qual}: the code leading to the {what} branches")
            st = pre[0].state
            s = suite[idx[0]]
            if is_loop(s):
                break
            if isinstance(s, (ast.While, ast.Try, ast.With, ast.AsyncWith)) and not contains(
                    ast.Module(body=getattr(s, "orelse", []) + getattr(s, "finalbody", []), type_ignores=[])):
                suite = s.body
                chain.append(s)
                continue
            raise AnalysisError(f"{fn.qual}: {what} inside an unexpected `{type(s).__name__}`")
        assert isinstance(s, ast.AsyncFor)
        if not isinstance(s.target, ast.Name) or s.orelse:
            raise AnalysisError(f"{fn.qual}: the variable of the {what} is not a plain name (or the loop has an else)")
        for n in ast.walk(ast.Module(body=s.body, type_ignores=[])):
            if isinstance(n, ast.Name) and isinstance(n.ctx, ast.Store):
                st.locals[n.id] = ast.Name(id=f"PREVIOUS<{n.id}>", ctx=ast.Load())
        entry = st.fork()
        st.locals[s.target.id] = ast.Name(id=var, ctx=ast.Load())
        st.events.clear()
        paths = ex.run_suite(s.body, st)
    except Unsupported as exc:
        raise AnalysisError(f"{fn.qual}: cannot be interpreted path by path ({exc})") from exc
    return [p for p in paths if p.exit != "raise"], s, chain, entry



class Loop:
    """One iteration of the tracker's select loop, with every private helper of the class executed in line
    (message handlers, validity predicates, timer handlers, status decision, change detection — whatever they
    are called and however the code is cut into functions): the function that contains the loop is found by
    its role, everything below it by being called."""

    def __init__(self, prog: Program) -> None:
        cls = prog.cls(TR)
        holders = [m for m in cls.methods.values() if any(_is_select_loop(n) for n in ast.walk(m.node))]
        if len(holders) != 1:
            raise AnalysisError(f"{cls.qual}: expected exactly one method with a `select(...)` loop, found "
                                f"{sorted(m.name for m in holders)}")
        self.fn = fn = holders[0]
        ex = Exec(prog, fn, bool_attrs={FLAG}, inline_all=True, max_depth=8)
        names = [a.arg for a in fn.node.args.posonlyargs + fn.node.args.args][1:]
        st: State = ex.initial(dict(zip(names, ["STATUS_SENDER", "SET_POWER_RESULT_RECEIVER"])))
        self.paths, loop, self.chain, entry = iteration_paths(ex, fn, st, _is_select_loop, "SELECTED", "select loop")
        try:
            self.sel_args = [ex._res(a, entry) for a in loop.iter.args]  # type: ignore[attr-defined]
        except Unsupported as exc:
            raise AnalysisError(f"{fn.qual}: cannot be interpreted path by path ({exc})") from exc
        if not self.paths:
            raise AnalysisError(f"{fn.qual}: the select loop has no normal path")
        self.entry_events = list(entry.events)  # what ran before the loop was entered (receivers fetched, aliases)
        blind = sorted({c for p in self.paths for c in ex.opaque_private_calls(p)})
        if blind:
            raise AnalysisError(f"{fn.qual}: cannot see through {blind} (not interpretable path by path)")
        self.atoms = self.paths[0].state.atoms
        self.functions = [fn] + list(ex.inlined.values())
        self.sources = [source_of(a) for a in self.sel_args]
        if None in self.sources or len(set(self.sources)) != len(self.sources):
            bad = text(self.sel_args[self.sources.index(None)]) if None in self.sources else "select"
            raise AnalysisError(f"{fn.qual}: cannot tell what `{bad}` selects from (expected the two data "
                                "streams, their timers and the set-power results)")
        for need in ("result",) + tuple(f"{k}:{s}" for k in ("data", "timer") for s in STREAMS):
            if need not in self.sources:
                raise AnalysisError(f"{fn.qual}: select() does not listen to {need}")

    def side(self, source: str) -> list[PathSum]:
        """The paths on which the event was found to come from `source`."""
        k = selected_key(self.atoms, source)
        return [p for p in self.paths if k is not None and p.fact(k) is True]


_LOOP: list[Any] = []  # [program, its Loop]: the program object is kept so that the cache entry cannot be
#                         mistaken for a later program allocated at the same address


def loop_of(prog: Program) -> Loop:
    if not _LOOP or _LOOP[0] is not prog:
        loop = Loop(prog)
        _LOOP[:] = [prog, loop]
    return _LOOP[1]


def source_of(x: ast.AST) -> str | None:
    """Which event source a (resolved) receiver expression is, by what produced it:
    'data:self._battery' / 'data:self._inverter' (the api client's data stream of that component),
    'timer:<stream>' (that stream's data-age timer), 'result' (the set-power result receiver)."""
    t = text(x)
    for stream in ("self._battery", "self._inverter"):
        if t == f"{stream}.data_recv_timer":
            return f"timer:{stream}"
    if t in ("SET_POWER_RESULT_RECEIVER", "self._set_power_result_receiver"):
        return "result"
    inner = x.value if isinstance(x, ast.Await) else x
    if isinstance(inner, ast.Call) and isinstance(inner.func, ast.Attribute) and len(inner.args) == 1 and not inner.keywords:
        ids = {"self._battery": ("self._battery.component_id", "self.battery_id"), "self._inverter": ("self._inverter.component_id",)}
        for stream, method in (("self._battery", "battery_data"), ("self._inverter", "inverter_data")):
            if inner.func.attr == method and text(inner.args[0]) in ids[stream]:
                return f"data:{stream}"
    return None


def selected_key(p_atoms: dict, source: str) -> tuple | None:
    """Key of the atom `selected_from(SELECTED, <receiver of source>)` as it occurs in the loop body."""
    for key, a in p_atoms.items():
        if a.kind == "truthy" and isinstance(a.ops[0], ast.Call) and u(a.ops[0].func) == "selected_from" \
                and len(a.ops[0].args) == 2 and text(a.ops[0].args[0]) == "SELECTED" and source_of(a.ops[0].args[1]) == source:
            return key
    return None


def _kept_alive(chain: list[ast.stmt]) -> bool:
    """`while <true constant>:` ... `try:` <select loop> `except Exception:` <no return/raise/break>, and no
    statement of the endless loop leaves it."""
    for i, w in enumerate(chain):
        if not (isinstance(w, ast.While) and isinstance(w.test, ast.Constant) and bool(w.test.value) and not w.orelse):
            continue
        for t in chain[i + 1:]:
            if not isinstance(t, ast.Try):
                continue
            absorbs = any(
                (h.type is None or any(isinstance(n, ast.Name) and n.id in ("Exception", "BaseException") for n in ast.walk(h.type)))
                and not any(isinstance(n, (ast.Return, ast.Raise, ast.Break)) for b in h.body for n in walk_no_nested(b))
                for h in t.handlers)
            if absorbs and not _leaves(w):
                return True
    return False


def _leaves(w: ast.While) -> bool:
    """A `return` anywhere in the loop, or a `break` that belongs to the loop itself."""
    def scan(stmts: list[ast.stmt], own: bool) -> bool:
        for s in stmts:
            if isinstance(s, (ast.FunctionDef, ast.AsyncFunctionDef, ast.ClassDef)):
                continue
            if isinstance(s, ast.Return) or (own and isinstance(s, ast.Break)):
                return True
            inner_own = own and not isinstance(s, (ast.For, ast.AsyncFor, ast.While))
            for field in ("body", "orelse", "finalbody"):
                if scan(getattr(s, field, []) or [], inner_own if field == "body" else own):
                    return True
            for h in getattr(s, "handlers", []):
                if scan(h.body, own):
                    return True
            for c in getattr(s, "cases", []):
                if scan(c.body, own):
                    return True
        return False
    return scan(w.body, True)



def _bool_const(v: ast.AST | None) -> bool | None:
    return v.value if isinstance(v, ast.Constant) and isinstance(v.value, bool) else None


def flag_at(p: PathSum, flag: str, idx: int | None = None) -> bool | None:
    """What is known about a health flag at event `idx` of the path (None: at its end): the constant last
    written before that point, else the outcome of testing the (unwritten) flag anywhere on the path."""
    w = [v for i, v in p.writes(flag) if idx is None or i < idx]
    if w:
        return _bool_const(w[-1])
    return p.fact(truthy_key(flag))


def _is_status_send(c: ast.Call) -> bool:
    return isinstance(c.func, ast.Attribute) and c.func.attr == "send" and text(c.func.value) in (
        "STATUS_SENDER", "self._status_sender")


def stores(p: PathSum) -> list[tuple[int, str]]:
    return [(i, text(v)) for i, v in p.writes("self._last_status")]


def status_events(p: PathSum) -> list[int]:
    """Positions at which the path (re-)evaluates the status: a comparison of `_last_status` with a status
    value, or a store of the status."""
    out = [i for i, _v in stores(p)]
    for i, e in enumerate(p.events):
        if e[0] == "cond" and e[1][0] in ("eq", "is"):
            ops = [text(o) for o in p.state.atoms[e[1]].ops]
            if "self._last_status" in ops and any(o in (NW, WORKING, UNCERTAIN) for o in ops):
                out.append(i)
    return sorted(out)


def check_safe(run: Run, prog: Program) -> None:  # noqa: C901
    cls = prog.cls(TR)
    # frozen sets of operational states
    for name, want in VALID_SETS.items():
        node = cls.class_assigns.get(name)
        got = {u(e) for e in node.elts} if isinstance(node, ast.Set) else None
        run.check(got == want, "C16.SAFE", cls.qual, f"{name} = {sorted(got) if got else got}",
                  f"the set of states counted as operational changed from the documented {sorted(want)} "
                  f"to {sorted(got) if got else got}", node=node or cls.node, file=cls.module.rel)
    lp = loop_of(prog)
    rn = lp.fn
    for f in lp.functions:
        run.analysed(f.qual)
    # a data message makes its stream's flag true only if every disqualifying fact was tested on that very
    # message with the outcome "does not hold"; the flag is (re)written on every path that handles the message
    for stream, facts in FACTS.items():
        side = lp.side(f"data:{stream}")
        flag = f"{stream}.{FLAG}"
        unwritten = first([p for p in side if p.last_write(flag) is None])
        can_hold = any(_bool_const(p.last_write(flag)) is True for p in side)
        run.check(bool(side) and unwritten is None and can_hold, "C16.SAFE", rn.qual,
                  f"{flag} := verdict on every {stream.split('._')[-1]} message",
                  f"a message from {stream} does not (always) renew that stream's health flag, or the flag can never "
                  "become true", node=rn.node, file=rn.file, path=wit(unwritten),
                  instance=f"{stream}: flag renewed by every message")
        for label, match, field in facts:
            def excluded(p: PathSum, match: Callable[[Atom], bool | None] = match) -> bool:
                got = [v == match(a) for a, v in p.atoms_where(lambda a: match(a) is not None)]
                return bool(got) and not any(got)
            healthy = [p for p in side if _bool_const(p.last_write(flag)) is not False and p.last_write(flag) is not None]
            bad = first([p for p in healthy if not excluded(p)])
            detail = ""
            if bad is not None:
                near = [a for a, _v in bad.atoms_where(lambda a, field=field: f"{MSG}.{field}" in " ".join(text(o) for o in a.ops))]
                detail = (f" (the condition on the message's {field} reads `{near[0].show()}`, which does not decide it)"
                          if near else f" (the message's {field} is not examined on that path)")
            run.check(bad is None, "C16.SAFE", rn.qual, f"{flag} true => no {label}",
                      f"with the disqualifying fact `{label}` true or untested, {flag} can still become true: the "
                      f"component is reported healthy on that path{detail}", node=rn.node, file=rn.file, path=wit(bad),
                      instance=f"{stream}: {label} => flag False on every path")
    # a status other than NOT_WORKING is stored (and hence reported) only while both flags are known true
    reported = [(p, i, v) for p in lp.paths for i, v in stores(p)]
    odd = first([v for _p, _i, v in reported if v not in (NW, WORKING, UNCERTAIN)])
    if odd is not None:
        raise AnalysisError(f"{rn.qual}: `{odd}` is stored as the last status, not a ComponentStatusEnum member")
    bad = first([p for p, i, v in reported if v != NW
                 and not (flag_at(p, f"self._battery.{FLAG}", i) is True and flag_at(p, f"self._inverter.{FLAG}", i) is True)])
    run.check(bad is None and {v for _p, _i, v in reported} == {NW, WORKING, UNCERTAIN}, "C16.SAFE", rn.qual,
              "WORKING/UNCERTAIN only if battery flag and inverter flag",
              "a status other than NOT_WORKING can become the battery's status although the battery's or the inverter's "
              "last message was not proven healthy", node=rn.node, file=rn.file, path=wit(bad))
    # a blocked healthy battery is UNCERTAIN; WORKING means "not blocked"
    k_blk = truthy_key("self._blocking_status.is_blocked()")
    k_was_nw = eq_key("self._last_status", NW)
    blocked = [(p, v) for p, _i, v in reported if p.fact(k_blk) is True]
    bad = first([p for p, v in blocked if v != UNCERTAIN])
    run.check(bool(blocked) and bad is None, "C16.BLOCK", rn.qual, "blocked -> UNCERTAIN",
              "a healthy but blocked battery is not reported as uncertain", node=rn.node, file=rn.file, path=wit(bad))
    bad = first([p for p, i, v in reported if v == WORKING and p.fact(k_blk) is not False and not (
        p.fact(k_was_nw) is True and any(j < i for j in p.call_texts("self._blocking_status.unblock()")))])
    run.check(bad is None, "C16.BLOCK", rn.qual, "WORKING only when not blocked (tested, or cleared on recovery)",
              "WORKING becomes the status while a block from an earlier failed command may still be pending: the recovery "
              "from NOT_WORKING does not clear it, so the next evaluation flips the battery to UNCERTAIN and a later "
              "failure doubles a stale back-off", node=rn.node, file=rn.file, path=wit(bad))


# operations on a frequenz.channels receiver / timer (library facts, frozen): these end it — its ready() returns
# False from then on, and select() never waits again on a receiver that reported so
_ENDS_A_RECEIVER = {"stop", "close", "aclose", "cancel"}
_REARMS = {"reset"}  # Timer.reset(): restart the period (plain form only: arguments change interval / delay)
_PURE_ON_RECEIVER = {"filter", "map", "triggered", "is_running", "interval", "missed_tick_policy"}


def check_timer(run: Run, prog: Program) -> None:  # noqa: C901
    lp = loop_of(prog)
    rn = lp.fn
    # a data message records its timestamp and restarts its stream's timer — on every path, and only there
    for stream in STREAMS:
        side = lp.side(f"data:{stream}")
        ts = f"{stream}.last_msg_timestamp"
        bad = first([p for p in side if not (
            p.last_write(ts) is not None and text(p.last_write(ts)) == f"{MSG}.timestamp"
            and p.call_texts(f"{stream}.data_recv_timer.reset()"))])
        run.check(bool(side) and bad is None, "C16.TIMER", rn.qual,
                  f"{stream}: record the message timestamp and reset the stream's timer",
                  f"a message from {stream} does not record its timestamp / restart the data-age timer",
                  node=rn.node, file=rn.file, path=wit(bad), instance=f"{stream}: timestamp recorded, timer reset")
        alien = first([p for p in lp.paths if p not in side and (
            p.writes(ts) or any(_bool_const(v) is not False for _i, v in p.writes(f"{stream}.{FLAG}")))])
        run.check(alien is None, "C16.TIMER", rn.qual, f"data:{stream} -> only that stream's message renews its flag / timestamp",
                  f"an event that was not selected from {stream}'s data stream sets that stream's timestamp or makes its "
                  "health flag true: the flag no longer reflects that stream's latest message",
                  node=rn.node, file=rn.file, path=wit(alien), instance=f"{rn.qual}: dispatch of data:{stream}")
    side = lp.side("result")
    alien = first([p for p in lp.paths if p not in side and p.call_texts("self._blocking_status.block()")])
    run.check(bool(side) and alien is None, "C16.TIMER", rn.qual, "result -> only a set-power result blocks",
              "block() is reached by an event that is not a set-power result", node=rn.node, file=rn.file, path=wit(alien),
              instance=f"{rn.qual}: dispatch of result")
    # timer events: freshness judged on the stream's own timestamp; stale => own flag false, other flag untouched;
    # late (fresh) event => nothing changes
    for stream in STREAMS:
        other = [s for s in STREAMS if s != stream][0]
        k_fresh = lt_key(f"NOW - {stream}.last_msg_timestamp", "self._max_data_age")
        side = lp.side(f"timer:{stream}")
        if not side:
            raise AnalysisError(f"{rn.qual}: no branch handles the data timer of {stream}")

        def foreign(p: PathSum, k: tuple = k_fresh) -> list[Atom]:
            return [a for a, _v in p.atoms_where(
                lambda a: a.key != k and a.kind == "lt0" and "last_msg_timestamp" in " ".join(text(o) for o in a.ops))]
        detail = "no freshness test on the timer branch"
        bad = first([p for p in side if p.fact(k_fresh) is None])
        wrong = first([p for p in side if foreign(p)])
        if wrong is not None:
            bad = wrong
            detail = (f"the freshness test of {stream}'s timer reads `{foreign(wrong)[0].show()}`: it must compare the age of "
                      f"*{stream}'s* last message with max_data_age (otherwise a silent {stream.split('_')[-1]} "
                      "is never marked stale while the other stream keeps sending)")
        run.check(bad is None, "C16.TIMER", rn.qual, f"timer branch of {stream}", detail, node=rn.node, file=rn.file,
                  path=wit(bad))
        stale = [p for p in side if p.fact(k_fresh) is False]
        bad = first([p for p in stale if flag_at(p, f"{stream}.{FLAG}") is not False or p.writes(f"{other}.{FLAG}")] +
                    [p for p in side if p.fact(k_fresh) is True and p.writes_where(lambda t: t.endswith("." + FLAG))])
        run.check(bool(stale) and bad is None, "C16.TIMER", rn.qual, f"{stream}.last_msg_correct = False",
                  f"the data-age timer of {stream} does not clear that stream's health flag when its data is stale (or "
                  "touches a flag otherwise)", node=rn.node, file=rn.file, path=wit(bad))
    # every path that changes the state re-evaluates the status afterwards
    def changes(p: PathSum) -> list[int]:
        out = [i for i, _t, _v in p.writes_where(lambda t: t.endswith("." + FLAG))]
        return out + [i for t in ("block", "unblock") for i in p.call_texts(f"self._blocking_status.{t}()")]
    for source in lp.sources:
        side = lp.side(source)
        bad = first([p for p in side if changes(p) and not any(j > max(changes(p)) for j in status_events(p))])
        run.check(bad is None, "C16.TIMER", rn.qual, f"{source}: state change -> status re-evaluated",
                  "a branch that may change the health flags or the block returns to the select loop without "
                  "re-evaluating the status", node=rn.node, file=rn.file, path=wit(bad),
                  instance=f"{rn.qual}: {source} reaches the status evaluation")
    # every source stays armed for the life of the tracker: select() drops a receiver whose ready() returned False
    # (a stopped timer, a closed receiver) and never waits on it again — a later reset() re-arms a timer nobody
    # listens to — and it keeps waiting on the *objects* it was started with, so replacing one detaches it as well
    for source, arg in zip(lp.sources, lp.sel_args):
        ended = rebound = odd = None
        for where, events, p in [("before the loop is entered", lp.entry_events, None)] + \
                [("on a path of the loop", p.events, p) for p in lp.paths]:
            for e in events:
                if e[0] == "call" and isinstance(e[2].func, ast.Attribute) and source_of(e[2].func.value) == source:
                    op = e[2].func.attr
                    if op in _ENDS_A_RECEIVER:
                        ended = ended or (e[1], where, p)
                    elif op in _REARMS and (e[2].args or e[2].keywords):
                        odd = odd or (e[1], where, p)
                    elif op not in _REARMS and op not in _PURE_ON_RECEIVER:
                        raise AnalysisError(f"{rn.qual}: cannot tell what `{e[1]}` does to a source the select loop waits on")
                elif e[0] == "write" and p is not None and (text(arg) == e[1] or text(arg).startswith(e[1] + ".")):
                    rebound = rebound or (f"{e[1]} = {text(e[2])}", where, p)
        hit = ended or rebound or odd
        what = {"data": "silence or a fault of that stream", "timer": "a later silence of that stream",
                "result": "a failed power command"}[source.split(":")[0]]
        detail = "" if hit is None else (
            f"`{hit[0]}` is executed {hit[1]}: " + (
                "that ends the receiver, and select() drops an ended receiver for good (a timer's reset() by the next "
                "message re-arms a timer the loop no longer waits on)" if hit is ended else
                "the loop keeps waiting on the object it was started with, the new one is never selected" if hit is rebound
                else "the timer is re-armed with arguments, i.e. not with the period it was built with (max_data_age)") +
            f" — from then on {what} is never noticed and the battery keeps its last status (WORKING).  The same holds "
            "for stop()/close() of any selected source on any path — in a handler, in the `already marked` branch of a "
            "timer handler, after a faulty message — and for replacing a stream / timer object while the loop runs")
        run.check(hit is None, "C16.TIMER", rn.qual, f"{source}: stays armed (never stopped, closed or replaced)",
                  detail, node=rn.node, file=rn.file, path=wit(hit[2]) if hit else [],
                  instance=f"{rn.qual}: {source} stays armed")
    # the tracker stays alive: the select loop sits in a `try` that absorbs Exception inside an endless loop
    # that nothing leaves
    run.check(_kept_alive(lp.chain), "C16.TIMER", rn.qual, "select loop restarted after an unexpected error",
              "status tracking can end: the select loop is not (re)entered by an endless loop whose body absorbs "
              "unexpected errors", node=rn.node, file=rn.file)


def check_change(run: Run, prog: Program) -> None:
    lp = loop_of(prog)
    rn = lp.fn
    paths = lp.paths
    has_send = any(p.calls(_is_status_send) for p in paths)

    def send_ok(p: PathSum) -> bool:
        sends, st = p.calls(_is_status_send), stores(p)
        if len(sends) > 1 or len(st) > 1:
            return False
        if bool(sends) != bool(st):
            return False  # sent without a stored change / a stored change that is not sent
        return not sends or st[0][0] < sends[0][0]
    bad = first([p for p in paths if not send_ok(p)])
    run.check(bad is None and has_send, "C16.CHANGE", rn.qual, "send iff the status changed",
              "a notification can be sent although the status did not change (or a detected change is not sent)",
              node=rn.node, file=rn.file, path=wit(bad))
    fields = [s.target.id for s in prog.cls(f"{CSMOD}:ComponentStatus").node.body
              if isinstance(s, ast.AnnAssign) and isinstance(s.target, ast.Name)]
    if fields[:2] != ["component_id", "value"]:
        raise AnalysisError(f"ComponentStatus fields changed: {fields}")

    def carries(p: PathSum, c: ast.Call) -> bool:
        if len(c.args) != 1 or c.keywords or not isinstance(c.args[0], ast.Call) or u(c.args[0].func) != "ComponentStatus":
            return False
        got = {k: text(v) for k, v in positional(c.args[0], fields).items()}
        return set(got) == {"component_id", "value"} and [v for _i, v in stores(p)] == [got["value"]] \
            and got["component_id"] in ("self.battery_id", "self._battery.component_id")
    bad = first([p for p in paths if not all(carries(p, c) for _i, c in p.calls(_is_status_send))])
    run.check(bad is None and has_send, "C16.CHANGE", rn.qual, "sends ComponentStatus(battery_id, <the stored new status>)",
              "the notification does not carry the status found by the change detection", node=rn.node, file=rn.file,
              path=wit(bad))

    def store_ok(p: PathSum) -> bool:
        for i, v in stores(p):
            k = eq_key("self._last_status", v)
            found = [j for j, e in enumerate(p.events) if e[0] == "cond" and e[1] == k]
            if p.fact(k) is not False or not found or min(found) > i:
                return False
        return True
    bad = first([p for p in paths if not store_ok(p)])
    unchanged = [p for p in paths if not stores(p) and status_events(p)]
    run.check(bad is None and bool(unchanged) and any(stores(p) for p in paths), "C16.CHANGE", rn.qual,
              "changed -> store; unchanged -> nothing",
              "the status is stored (and reported) without having been found different from the stored one",
              node=rn.node, file=rn.file, path=wit(bad))


def _is_zero_duration(e: ast.AST | None) -> bool:
    if e is None:
        return False
    if poly(e).is_zero() or text(e) == "self._timedelta_zero":
        return True
    return isinstance(e, ast.Call) and u(e.func) in ("timedelta", "datetime.timedelta") and all(
        isinstance(a, ast.Constant) and a.value == 0 for a in list(e.args) + [k.value for k in e.keywords])


def check_block(run: Run, prog: Program) -> None:  # noqa: C901
    fn = prog.func(f"{BS}.block")
    run.analysed(fn.qual)
    paths = paths_of(prog, fn)
    k_none = is_key("self.blocked_until", "None")
    k_still = lt_key("NOW", "self.blocked_until")
    groups: dict[str, list[PathSum]] = {"fresh": [], "still": [], "expired": [], "?": []}
    for p in paths:
        if p.fact(k_none) is True:
            groups["fresh"].append(p)
        elif p.fact(k_none) is False and p.fact(k_still) is not None:
            groups["still" if p.fact(k_still) else "expired"].append(p)
        else:
            groups["?"].append(p)
    ok = not groups["?"] and all(groups[g] for g in ("fresh", "still", "expired"))
    run.check(ok, "C16.BLOCK", fn.qual, "three cases: not blocked / still blocked / expired",
              "block() does not distinguish not-blocked, still-blocked and expired", node=fn.node, file=fn.file,
              path=wit(first(groups["?"])))
    if not ok:
        return
    dur, until = "self.last_blocking_duration", "self.blocked_until"

    def dur_is(p: PathSum, want: str) -> bool:
        w = p.last_write(dur)
        return w is not None and poly(w) == poly(parse_expr(want))
    bad = first([p for p in groups["fresh"] if not dur_is(p, "self.min_duration")])
    run.check(bad is None, "C16.BLOCK", fn.qual, "not blocked -> min_duration",
              "a first failure (or the first after a success) does not block for the minimum duration: "
              "the back-off is not reset by unblock()", node=fn.node, file=fn.file, path=wit(bad))
    bad = first([p for p in groups["still"] if p.writes(dur) or p.writes(until) or not _is_zero_duration(p.value)])
    run.check(bad is None, "C16.BLOCK", fn.qual, "still blocked -> zero, no state change",
              "a failure while still blocked extends or changes the block", node=fn.node, file=fn.file, path=wit(bad))
    bad = first([p for p in groups["expired"] if not dur_is(p, "min(2 * self.last_blocking_duration, self.max_duration)")])
    run.check(bad is None, "C16.BLOCK", fn.qual, "expired -> min(2 * last, max_duration)",
              "consecutive failures do not double the blocking period up to the maximum", node=fn.node, file=fn.file,
              path=wit(bad))
    for g, name in (("fresh", "not blocked"), ("expired", "expired")):
        bad = first([p for p in groups[g] if p.last_write(until) is None or p.last_write(dur) is None
                     or poly(p.last_write(until)) != poly(parse_expr("NOW")) + poly(p.last_write(dur))])  # type: ignore[arg-type]
        run.check(bad is None, "C16.BLOCK", fn.qual, f"{name}: blocked_until = now + duration",
                  "the block does not end after the computed duration", node=fn.node, file=fn.file, path=wit(bad))
    ub = prog.func(f"{BS}.unblock")
    run.analysed(ub.qual)
    paths = paths_of(prog, ub)
    bad = first([p for p in paths if not (isinstance(p.last_write(until), ast.Constant) and p.last_write(until).value is None)])  # type: ignore[union-attr]
    run.check(bad is None, "C16.BLOCK", ub.qual, "unblock clears blocked_until",
              "unblock() does not clear the block", node=ub.node, file=ub.file, path=wit(bad))
    ib = prog.func(f"{BS}.is_blocked")
    run.analysed(ib.qual)
    paths = paths_of(prog, ib, mode="bool")

    def blocked_ok(p: PathSum) -> bool:
        if p.writes_where(lambda t: True):
            return False
        if p.fact(k_none) is True:
            return p.const() is False
        return p.fact(k_none) is False and p.fact(k_still) is not None and p.const() is p.fact(k_still)
    bad = first([p for p in paths if not blocked_ok(p)])
    run.check(bad is None and {p.const() for p in paths} == {True, False}, "C16.BLOCK", ib.qual,
              "blocked iff blocked_until in the future", "is_blocked is not "
              "`blocked_until is set and in the future`", node=ib.node, file=ib.file, path=wit(bad))
    # tracker: a set-power result unblocks on every success and blocks on failure unless NOT_WORKING
    # (on the paths of the select loop that handle a set-power result; its message is SELECTED.message)
    lp = loop_of(prog)
    hr = lp.fn
    paths = lp.side("result")
    k_succ = in_key("self.battery_id", f"{MSG}.succeeded")
    k_fail = in_key("self.battery_id", f"{MSG}.failed")
    k_nw = eq_key("self._last_status", NW)

    def handled_before_status(p: PathSum, call: str) -> list[int]:
        se = status_events(p)
        # the comparison with NOT_WORKING that guards block() belongs to the handling, not to the re-evaluation
        se = [i for i in se if not (p.events[i][0] == "cond" and p.events[i][1] == k_nw and p.call_texts(call)
                                    and i < p.call_texts(call)[0])]
        return [i for i in p.call_texts(call) if not se or i < se[0]]
    succ = [p for p in paths if p.fact(k_succ) is True]
    bad = first([p for p in succ if not handled_before_status(p, "self._blocking_status.unblock()")])
    run.check(bool(succ) and bad is None, "C16.BLOCK", hr.qual, "succeeded -> unblock() unconditionally",
              "a successful power command does not always reset the back-off (e.g. only when the status "
              "is UNCERTAIN): after the block expired a later failure doubles instead of restarting at "
              "the minimum", node=hr.node, file=hr.file, path=wit(bad))
    blocks = [p for p in paths if p.call_texts("self._blocking_status.block()")]
    bad = first([p for p in blocks if not (p.fact(k_fail) is True and p.fact(k_nw) is False)
                 or len(p.call_texts("self._blocking_status.block()")) != 1
                 or [i for i, e in enumerate(p.events) if e[0] == "cond" and e[1] == k_nw][0] > p.call_texts("self._blocking_status.block()")[0]] +
                [p for p in paths if p.fact(k_fail) is True and p.fact(k_nw) is False and p.fact(k_succ) is not True
                 and p not in blocks])
    run.check(bool(blocks) and bad is None, "C16.BLOCK", hr.qual, "failed and not NOT_WORKING -> block()",
              "a failed power command does not block a (working/uncertain) battery, or blocks one that is "
              "not working", node=hr.node, file=hr.file, path=wit(bad))
    gw = prog.func(f"{CS}.get_working_components")
    run.analysed(gw.qual)
    paths = paths_of(prog, gw, ["COMPONENTS"])
    w_txt, u_txt = "self.working.intersection(COMPONENTS)", "self.uncertain.intersection(COMPONENTS)"

    def nonempty(p: PathSum) -> bool | None:
        """Whether the working subset is known to be non-empty on p (the accepted emptiness idioms)."""
        for key, pol in ((truthy_key(w_txt), True), (truthy_key(f"len({w_txt})"), True),
                         (lt_key("0", f"len({w_txt})"), True), (lt_key(f"len({w_txt})", "1"), False),
                         (eq_key(f"len({w_txt})", "0"), False)):
            if p.fact(key) is not None:
                return p.fact(key) == pol
        return None
    bad = first([p for p in paths if not ((ret_text(p) == w_txt and nonempty(p) is True)
                                          or (ret_text(p) == u_txt and nonempty(p) is False))])
    run.check(bad is None and {nonempty(p) for p in paths} == {True, False}, "C16.BLOCK", gw.qual,
              "uncertain only when no working component",
              "uncertain components are used although working ones are available (or never)", node=gw.node, file=gw.file,
              path=wit(bad))


# ------------------------------------------------------------------------------ the published pool status
POOLMOD = "microgrid._power_distributing._component_pool_status_tracker"
POOL = f"{POOLMOD}:ComponentPoolStatusTracker"
# what each reported status must leave behind in the two published sets, for the reported component
MEMBERSHIP = {"WORKING": {"working": "in", "uncertain": "out"},
              "UNCERTAIN": {"working": "out", "uncertain": "in"},
              "NOT_WORKING": {"working": "out", "uncertain": "out"}}


def check_pool(run: Run, prog: Program) -> None:
    """ComponentPoolStatusTracker._update_status: for every status message, on every path, the reported component
    ends up in `working` only for WORKING, in `uncertain` only for UNCERTAIN, in neither for NOT_WORKING, and the
    updated pool status is published."""
    members = [t.id for s in prog.cls(f"{CSMOD}:ComponentStatusEnum").node.body if isinstance(s, ast.Assign)
               for t in s.targets if isinstance(t, ast.Name)]
    if set(members) != set(MEMBERSHIP):
        raise AnalysisError(f"ComponentStatusEnum members changed: {members}")
    # the function is found by its role — the method of the pool tracker that loops (`async for`) over status
    # messages; its name only breaks a tie
    cands = [m for m in prog.cls(POOL).methods.values() if any(isinstance(n, ast.AsyncFor) for n in ast.walk(m.node))]
    if len(cands) > 1:
        cands = [m for m in cands if m.name == "_update_status"]
    if len(cands) != 1:
        raise AnalysisError(f"{POOL}: expected one method with an `async for` over the status messages")
    fn = cands[0]
    run.analysed(fn.qual)
    ex = Exec(prog, fn, inline_all=True, max_depth=6)
    paths, _loop, _chain, _entry = iteration_paths(
        ex, fn, ex.initial(), lambda n: isinstance(n, ast.AsyncFor), "STATUS", "status loop")
    blind = sorted({c for p in paths for c in ex.opaque_private_calls(p)})
    if blind:
        raise AnalysisError(f"{fn.qual}: cannot see through {blind} (not interpretable path by path)")
    ident = "STATUS.component_id"

    def possible(p: PathSum) -> set[str]:
        """Status values consistent with the conditions on STATUS.value decided on p (the enum is closed)."""
        out = set(members)
        for a, v in p.atoms_where(lambda a: any(text(o) == "STATUS.value" for o in a.ops)):
            others = [text(o) for o in a.ops if text(o) != "STATUS.value"]
            if a.kind in ("eq", "is") and len(others) == 1 and others[0].startswith("ComponentStatusEnum."):
                named = {others[0].split(".", 1)[1]}
            elif a.kind == "in" and text(a.ops[0]) == "STATUS.value" and isinstance(a.ops[1], (ast.Tuple, ast.Set, ast.List)) \
                    and all(text(e).startswith("ComponentStatusEnum.") for e in a.ops[1].elts):
                named = {text(e).split(".", 1)[1] for e in a.ops[1].elts}
            else:
                raise AnalysisError(f"{fn.qual}: cannot interpret the condition `{a.show()}` on the reported status")
            out &= named if v else set(members) - named
        return out

    def membership(p: PathSum, which: str) -> tuple[str, int]:
        """('in' | 'out' | 'unchanged', position of the deciding operation) for the reported id in one set."""
        tgt = f"self._current_status.{which}"
        state, at = "unchanged", -1
        for i, e in enumerate(p.events):
            if e[0] == "call" and isinstance(e[2].func, ast.Attribute) and text(e[2].func.value) == tgt:
                op, args = e[2].func.attr, [text(x) for x in e[2].args]
                if op in ("add", "discard", "remove") and args == [ident] and not e[2].keywords:
                    state, at = ("in" if op == "add" else "out"), i
                elif op not in ("__contains__", "copy", "intersection", "union", "difference", "issubset", "issuperset"):
                    raise AnalysisError(f"{fn.qual}: cannot interpret `{e[1]}` on a published set")
            elif e[0] == "write" and (e[1] == tgt or e[1].startswith(tgt + "[") or e[1] == "self._current_status"):
                v = e[2]
                if e[1] == tgt and isinstance(v, ast.BinOp) and isinstance(v.op, (ast.Sub, ast.BitOr)) \
                        and isinstance(v.right, ast.Set) and [text(x) for x in v.right.elts] == [ident]:
                    state, at = ("out" if isinstance(v.op, ast.Sub) else "in"), i
                else:
                    raise AnalysisError(f"{fn.qual}: cannot interpret the write `{e[1]} = {text(v)}` to a published set")
        return state, at

    def is_publish(c: ast.Call) -> bool:
        return isinstance(c.func, ast.Attribute) and c.func.attr == "send" and \
            text(c.func.value) == "self._component_status_sender" and [text(x) for x in c.args] == ["self._current_status"]

    seen: set[str] = set()
    all_ok = True
    for value, want in MEMBERSHIP.items():
        side = [p for p in paths if value in possible(p)]
        seen |= {value} if any(possible(p) == {value} for p in side) else set()
        bad = first([p for p in side if any(membership(p, w)[0] != how for w, how in want.items())])
        got = {w: membership(bad, w)[0] for w in want} if bad is not None else {}
        all_ok &= run.check(bool(side) and bad is None, "C16.POOL", fn.qual, f"{value}: " + ", ".join(f"{w} {h}" for w, h in want.items()),
                  f"after a {value} status the component is left {got} instead of {want}: a battery reported "
                  f"{'not working' if value == 'NOT_WORKING' else value.lower()} is still published in a set from which "
                  "get_working_components() hands it out", node=fn.node, file=fn.file, path=wit(bad),
                  instance=f"{fn.qual}: membership after {value}")
    if all_ok and seen != set(members):  # nothing wrong found, but some status value is never told apart
        raise AnalysisError(f"{fn.qual}: no path handles exactly {sorted(set(members) - seen)}")
    for f in ex.inlined.values():
        run.analysed(f.qual)
    bad = first([p for p in paths if p.exit not in ("fall", "continue") or not any(
        i > max(membership(p, "working")[1], membership(p, "uncertain")[1]) for i, _c in p.calls(is_publish))])
    run.check(bad is None, "C16.POOL", fn.qual, "every update is published",
              "a status change is applied to the pool status but not sent on the pool status channel (or the loop "
              "is left): consumers keep using the previous sets", node=fn.node, file=fn.file, path=wit(bad))


# ------------------------------------------------------------------------------ the outcome handed to the trackers
OUTCOME = "SetPowerResult"  # the message class of the outcome channel (CSMOD); its fields are what the trackers read
_SET_WRAPPERS = ("set", "frozenset", "list", "tuple", "sorted")
_OPAQUE_PREFIXES = ("ARG<", "LOOP", "HAVOC", "PREVIOUS<", "WITH")


def _arg(name: str) -> str:
    return f"ARG<{name}>"


def _show(e: ast.AST | str) -> str:
    """Source-like text of a resolved expression: the markers of parameters and stepped-over loops are dropped."""
    import re
    return re.sub(r"\b(?:ARG|PREVIOUS|LOOP\d+|HAVOC\d+|WITH\d+)<([^<>]+)>", r"\1", e if isinstance(e, str) else text(e))


def _strip_set(e: ast.AST) -> ast.AST:
    """The set an expression denotes, through what does not change its elements: `set(x)` / `frozenset(x)` / `x.copy()`
    / `{v for v in x}`, and `<Ctor>(..., f=x, ...).f` (a field read back from the object just built)."""
    while True:
        if isinstance(e, ast.Await):
            return e
        if isinstance(e, ast.Call) and u(e.func) in _SET_WRAPPERS and len(e.args) == 1 and not e.keywords \
                and not isinstance(e.args[0], ast.Starred):
            e = e.args[0]
        elif isinstance(e, ast.Call) and isinstance(e.func, ast.Attribute) and e.func.attr == "copy" and not e.args and not e.keywords:
            e = e.func.value
        elif isinstance(e, ast.Attribute) and isinstance(e.value, ast.Call) and [k for k in e.value.keywords if k.arg == e.attr]:
            e = [k.value for k in e.value.keywords if k.arg == e.attr][0]
        elif isinstance(e, (ast.SetComp, ast.ListComp, ast.GeneratorExp)) and len(e.generators) == 1 and not e.generators[0].ifs \
                and isinstance(e.elt, ast.Name) and isinstance(e.generators[0].target, ast.Name) \
                and e.elt.id == e.generators[0].target.id and not e.generators[0].is_async:
            e = e.generators[0].iter
        else:
            return e


def _is_empty_set(e: ast.AST) -> bool:
    return (isinstance(e, ast.Call) and u(e.func) in ("set", "frozenset") and not e.args and not e.keywords) or (
        isinstance(e, (ast.Set, ast.Tuple, ast.List)) and not e.elts)


def _is_opaque(e: ast.AST) -> bool:
    return isinstance(e, ast.Name) and e.id.startswith(_OPAQUE_PREFIXES)


def _kleene_any(vals: list[bool | None]) -> bool | None:
    return True if any(v is True for v in vals) else None if any(v is None for v in vals) else False


def _kleene_all(vals: list[bool | None]) -> bool | None:
    return False if any(v is False for v in vals) else None if any(v is None for v in vals) else True


def disjoint_by_construction(s: ast.AST, f: str) -> bool | None:
    """Is the set expression `s` disjoint from the set with canonical text `f` *by the way it is built*?
    True: `f` was subtracted (`x - f`, `x.difference(f)`, `{v for v in x if v not in f}`), possibly narrowed further
    (`&`, another `-`), or `s` is empty; False: `s` is built from sets of which `f` was never taken out (or is `f`);
    None: `s` is a value whose construction cannot be seen (a parameter, the result of a loop)."""
    s = _strip_set(s)
    if text(s) == f:
        return False
    if _is_empty_set(s):
        return True
    if _is_opaque(s):
        return None
    if isinstance(s, ast.BinOp) and isinstance(s.op, ast.Sub):
        return True if text(_strip_set(s.right)) == f else disjoint_by_construction(s.left, f)
    if isinstance(s, ast.BinOp) and isinstance(s.op, ast.BitAnd):
        return _kleene_any([disjoint_by_construction(s.left, f), disjoint_by_construction(s.right, f)])
    if isinstance(s, ast.BinOp) and isinstance(s.op, (ast.BitOr, ast.BitXor)):
        return _kleene_all([disjoint_by_construction(s.left, f), disjoint_by_construction(s.right, f)])
    if isinstance(s, ast.Call) and isinstance(s.func, ast.Attribute) and not s.keywords \
            and not any(isinstance(a, ast.Starred) for a in s.args):
        base, others = s.func.value, list(s.args)
        if s.func.attr == "difference":
            return True if any(text(_strip_set(o)) == f for o in others) else disjoint_by_construction(base, f)
        if s.func.attr == "intersection":
            return _kleene_any([disjoint_by_construction(x, f) for x in [base] + others])
        if s.func.attr in ("union", "symmetric_difference"):
            return _kleene_all([disjoint_by_construction(x, f) for x in [base] + others])
    if isinstance(s, (ast.SetComp, ast.ListComp, ast.GeneratorExp)) and len(s.generators) == 1 \
            and isinstance(s.elt, ast.Name) and not s.generators[0].is_async \
            and any(isinstance(n, ast.Name) and n.id == s.elt.id for n in ast.walk(s.generators[0].target)):  # type: ignore[attr-defined]
        v = s.elt.id
        for c in s.generators[0].ifs:
            conj = c.values if isinstance(c, ast.BoolOp) and isinstance(c.op, ast.And) else [c]
            for t in conj:
                neg = isinstance(t, ast.UnaryOp) and isinstance(t.op, ast.Not)
                t2 = t.operand if neg else t  # type: ignore[union-attr]
                if isinstance(t2, ast.Compare) and len(t2.ops) == 1 and isinstance(t2.left, ast.Name) and t2.left.id == v \
                        and isinstance(t2.ops[0], ast.In if neg else ast.NotIn) and text(_strip_set(t2.comparators[0])) == f:
                    return True
        return disjoint_by_construction(s.generators[0].iter, f) if isinstance(s.generators[0].target, ast.Name) else False
    if isinstance(s, ast.IfExp):
        return _kleene_all([disjoint_by_construction(s.body, f), disjoint_by_construction(s.orelse, f)])
    if isinstance(s, (ast.Call, ast.Await)) and not (isinstance(s, ast.Call) and _is_pure_call(s)):
        return None  # the result of a call that is not seen through: how it was built is not visible
    return False


def known_empty(p: PathSum, f: ast.AST) -> bool:
    """The path decided that the set `f` is empty (`not f`, `len(f) == 0`, `len(f) > 0` false, `f == set()`, ...)."""
    if _is_empty_set(f):
        return True
    ft = text(f)
    n = f"len({ft})"
    for a, val in p.atoms_where(lambda a: True):
        ops = [text(o) for o in a.ops]
        if a.kind == "truthy" and ops[0] in (ft, n) and val is False:
            return True
        if a.kind == "lt0" and ((ops == ["0", n] and val is False) or (ops == [n, "1"] and val is True)):
            return True
        if a.kind in ("eq", "is") and val is True and (
                (n in ops and "0" in ops) or (ft in ops and any(_is_empty_set(o) for o in a.ops))):
            return True
    return False


class _Subst(ast.NodeTransformer):
    def __init__(self, env: dict[str, ast.AST]) -> None:
        self.env = env

    def visit_Name(self, node: ast.Name) -> ast.AST:  # noqa: N802
        return copy.deepcopy(self.env[node.id]) if node.id in self.env else node


def _reads_self(e: ast.AST) -> list[str]:
    return sorted({u(n) for n in ast.walk(e) if isinstance(n, ast.Attribute) and isinstance(n.value, ast.Name) and n.value.id == "self"})


def _args_in(e: ast.AST) -> list[str]:
    return sorted({n.id[4:-1] for n in ast.walk(e) if isinstance(n, ast.Name) and n.id.startswith("ARG<")})


def _lenient_paths(prog: Program, fn: FuncInfo, strict: bool = True) -> list[PathSum]:
    """Every normal path through `fn`, parameters standing for `ARG<name>`; loops that only prepare data are stepped
    over (their results are unknown values).  What cannot be read fails closed; with `strict` off a private helper
    that cannot be executed in line stays an opaque call (its result is then a value of unknown construction)."""
    try:
        ex = Exec(prog, fn, inline_all=True, max_depth=6, lenient=True)
        st = ex.initial({p: _arg(p) for p in fn.params if p not in ("self", "cls")})
        ps = [p for p in ex.run_suite(fn.node.body, st) if p.exit != "raise"]
    except Unsupported as exc:
        raise AnalysisError(f"{fn.qual}: cannot be interpreted path by path ({exc})") from exc
    blind = sorted({c for p in ps for c in ex.opaque_private_calls(p)})
    if blind and strict:
        raise AnalysisError(f"{fn.qual}: cannot see through {blind} (not interpretable path by path)")
    return ps


def _outcome_publisher(prog: Program) -> tuple[FuncInfo, list[PathSum], list[str]]:
    """The method of the pool tracker through which set-power outcomes come in — found by its role: it sends a
    `SetPowerResult` it has built — with its paths and the fields of the message class."""
    pool = prog.cls(POOL)
    msg = prog.resolve_name(pool.module, OUTCOME)
    fields = _ctor_params(prog, msg) if msg is not None and hasattr(msg, "methods") else None
    if not fields or not {"succeeded", "failed"} <= set(fields):
        raise AnalysisError(f"{pool.qual}: the outcome message class {OUTCOME} (fields succeeded / failed) is not found")
    found = []
    for m in pool.methods.values():
        if m.name.startswith("__") or not any(isinstance(n, ast.Attribute) and n.attr == "send" for n in ast.walk(m.node)):
            continue
        try:
            ps = _lenient_paths(prog, m)
        except AnalysisError:
            if any(isinstance(n, ast.Name) and n.id == OUTCOME for n in ast.walk(m.node)):
                raise
            continue
        if any(_outcome_sends(p) for p in ps):
            found.append((m, ps))
    if len(found) != 1:
        raise AnalysisError(f"{pool.qual}: expected exactly one method that builds a {OUTCOME} and sends it, found "
                            f"{sorted(m.name for m, _ps in found)}")
    return found[0][0], found[0][1], fields


def _outcome_sends(p: PathSum) -> list[tuple[int, ast.Call]]:
    """The `<sender>.send(SetPowerResult(...))` calls of a path (the payload as resolved: built in place or before)."""
    return [(i, c.args[0]) for i, c in p.calls(lambda c: isinstance(c.func, ast.Attribute) and c.func.attr == "send"
                                             and len(c.args) == 1 and not c.keywords)
            if isinstance(c.args[0], ast.Call) and u(c.args[0].func).split(".")[-1] == OUTCOME]


def _publisher_sites(prog: Program, pub: FuncInfo) -> list[tuple[FuncInfo, ast.Call]]:
    sites = []
    for fn, call in prog.attr_call_sites(pub.name):
        if fn.cls is pub.cls and u(call.func.value) in ("self", "super()"):  # type: ignore[attr-defined]
            continue
        tg = [t for t in prog.resolve_call(fn, call) if isinstance(t, FuncInfo)]
        if tg and not any(t is pub or t.qual == pub.qual for t in tg):
            continue  # resolved to another class's method of the same name
        sites.append((fn, call))
    return sites


def check_outcome(run: Run, prog: Program) -> None:  # noqa: C901
    """What the per-battery trackers are told about a power command is the outcome itself: (1) the pool tracker
    forwards the sets it is given — every outcome, the failed set as given, nothing filtered by its own view of the
    statuses; (2) at every place that reports an outcome, the succeeded set that finally reaches the trackers is
    disjoint from the failed set by construction on every path (or the failed set is known empty there)."""
    pub, ppaths, fields = _outcome_publisher(prog)
    run.analysed(pub.qual)
    here = dict(node=pub.node, file=pub.file)
    # (1a) every outcome is forwarded, once
    bad = first([p for p in ppaths if len(_outcome_sends(p)) != 1])
    run.check(bad is None, "C16.OUTCOME", pub.qual, f"every path sends exactly one {OUTCOME}",
              f"{pub.name}() does not forward every outcome exactly once (a path sends "
              f"{len(_outcome_sends(bad)) if bad is not None else '?'} {OUTCOME}): an outcome that is dropped — e.g. forwarded "
              "only when something failed, or only while a component is uncertain — never unblocks / never blocks the "
              "battery; one sent twice is counted as two consecutive failures", path=wit(bad), **here)
    if bad is not None:
        return
    variants: dict[str, tuple[ast.AST, ast.AST]] = {}
    for p in ppaths:
        bound = _bind_site(_outcome_sends(p)[0][1], fields)
        if bound is None or "succeeded" not in bound or "failed" not in bound:
            raise AnalysisError(f"{pub.qual}: cannot bind the arguments of `{first_line_of(_outcome_sends(p)[0][1])}`")
        variants.setdefault(text(bound["succeeded"]) + " / " + text(bound["failed"]), (bound["succeeded"], bound["failed"]))
    # (1b) neither field looks at the pool tracker's own state
    state = [(fld, e, _reads_self(e)) for sv, fv in variants.values() for fld, e in (("succeeded", sv), ("failed", fv)) if _reads_self(e)]
    run.check(not state, "C16.OUTCOME", pub.qual, f"{OUTCOME}(succeeded=, failed=) do not depend on the pool's own state",
              (f"{pub.name}() sends `{state[0][0]}={_show(state[0][1])}`: the outcome is filtered by the pool tracker's own "
               f"state ({', '.join(state[0][2])}) before it reaches the per-battery trackers.  That view lags behind the "
               "trackers (and lists a blocked battery as uncertain, not working): a failure reported for a battery whose "
               "block has expired but which has not been re-published as working — or which is used as uncertain fall-back "
               "— is dropped, the tracker re-evaluates, finds the block over and reports WORKING; the back-off does not "
               "double.  Likewise a success dropped for a battery 'not uncertain' never resets the back-off.  Only the "
               "tracker itself may decide whether an outcome matters (`_last_status`, block()/unblock())") if state else "",
              **here)
    if state:
        return
    # (1c) the failed set is forwarded as given; each field has its own argument
    roles: set[tuple[str, str]] = set()
    s_fields: list[ast.AST] = []
    ok_f, why_f = True, ""
    for sv, fv in variants.values():
        f0 = _strip_set(fv)
        if not (isinstance(f0, ast.Name) and f0.id.startswith("ARG<")):
            ok_f = False
            why_f = why_f or (f"`failed={_show(fv)}` is not the failed set {pub.name}() was given (narrowed, widened or "
                              "replaced): failures that are taken out never block their battery, components that are put in "
                              "are blocked without having failed")
            continue
        pf = f0.id[4:-1]
        ps_ = [a for a in _args_in(sv) if a != pf]
        if len(ps_) != 1:
            ok_f = False
            why_f = why_f or (f"`succeeded={_show(sv)}` is not built from an argument of its own (both fields are fed from "
                              f"`{pf}`, or from nothing the caller reported)")
            continue
        roles.add((ps_[0], pf))
        s_fields.append(sv)
    run.check(ok_f, "C16.OUTCOME", pub.qual, f"{OUTCOME}(failed=<the failed set as given>, succeeded=<from its own argument>)",
              f"{pub.name}(): {why_f}", **here)
    if not ok_f:
        return
    if len(roles) != 1:
        raise AnalysisError(f"{pub.qual}: the paths disagree on which argument is the succeeded / the failed set: {sorted(roles)}")
    p_succ, p_fail = next(iter(roles))
    crossed = "fail" in p_succ.lower() or "succ" in p_fail.lower()
    run.check(not crossed, "C16.OUTCOME", pub.qual, f"{OUTCOME}: succeeded <- {p_succ}, failed <- {p_fail}",
              f"{pub.name}() forwards its argument `{p_succ}` as the succeeded set and `{p_fail}` as the failed set: the two "
              "roles are swapped — every failed command unblocks, every successful one blocks", **here)
    # (2) the reporting sites
    sites = _publisher_sites(prog, pub)
    if not sites:
        loose = [f.qual for f in prog.all_functions() if f.cls is not pub.cls for n in ast.walk(f.node)
                 if isinstance(n, ast.Attribute) and n.attr == pub.name]
        if loose:
            raise AnalysisError(f"{loose[0]}: {pub.name} is used but not called on the spot; cannot tell which outcome is reported")
    run.check(bool(sites), "C16.OUTCOME", pub.qual, f"{pub.name}() is called where power commands are issued",
              f"nothing calls {pub.qual}: the outcome of a power command never reaches the trackers, a failed command never "
              "makes a battery uncertain", **here)
    pub_params = [p for p in pub.params if p not in ("self", "cls")]

    def judge(root: FuncInfo, depth: int) -> tuple[bool | None, PathSum | None, str, ast.Call | None]:
        """(verdict, witness path, explanation, the reporting call) over every path of `root` that reports an outcome."""
        paths = _lenient_paths(prog, root, strict=False)
        worst: tuple[bool | None, PathSum | None, str, ast.Call | None] = (True, None, "", None)
        seen = False
        for p in paths:
            for _i, c in p.calls(lambda c: isinstance(c.func, ast.Attribute) and c.func.attr == pub.name
                                 and text(c.func.value) not in ("self", "super()")):
                seen = True
                b = _bind_site(c, pub_params)
                if b is None or p_succ not in b or p_fail not in b:
                    raise AnalysisError(f"{root.qual}: cannot bind the arguments of `{first_line_of(c)}` to {pub.qual}")
                f = _strip_set(b[p_fail])
                ft = text(f)
                # the set the requester is told has failed (a result built on this path with a `failed_components` field)
                told = [text(t) for t in (_strip_set(k.value) for _j, rc in p.calls(lambda rc: True) for k in rc.keywords
                                          if k.arg == "failed_components") if text(t) != ft and not known_empty(p, t)]
                if told and worst[0] is True:
                    worst = (False, p, f"`{_show(u(c))[:90]}` reports `{_show(ft)}` to the trackers as the failed set, while the "
                             f"result returned to the requester names `{_show(told[0])}` as failed: the trackers are not told the outcome of "
                             "this command (sets swapped, or the failures withheld)", c)
                    continue
                if known_empty(p, f):
                    continue
                for sv in s_fields:
                    s_final = _Subst({_arg(p_succ): b[p_succ], _arg(p_fail): b[p_fail]}).visit(copy.deepcopy(sv))
                    v = disjoint_by_construction(s_final, ft)
                    if v is True:
                        continue
                    if v is None and worst[0] is True:
                        worst = (None, p, f"cannot tell how the succeeded set `{_show(_strip_set(s_final))}` is built", c)
                    if v is False and worst[0] is not False:
                        worst = (False, p, f"`{_show(u(c))[:90]}`: on a path where the failed set `{_show(ft)}` may be non-empty the "
                                 f"succeeded set that reaches the trackers is `{_show(s_final)}` — the failed set was "
                                 "never taken out of it", c)
        if not seen:
            raise AnalysisError(f"{root.qual}: the call of {pub.name}() is not on any path that can be read")
        if worst[0] is not True and depth < 3 and root.cls is not None and root.name.startswith("_") and worst[1] is not None \
                and worst[3] is not None and any(_args_in(a) for a in list(worst[3].args) + [k.value for k in worst[3].keywords]):
            # the sets come in through parameters of a private helper: judge from its callers instead
            ups = [m for m in root.cls.methods.values() if m is not root and any(
                isinstance(n, ast.Call) and isinstance(n.func, ast.Attribute) and u(n.func.value) == "self" and n.func.attr == root.name
                for n in ast.walk(m.node))]
            if ups:
                res = [judge(m, depth + 1) for m in ups]
                for r in res:
                    if r[0] is not True:
                        return r
                return res[0]
        return worst

    for fn, call in sites:
        if fn.outer is not None or _loops_around(fn.node, call):
            raise AnalysisError(f"{fn.qual}: `{first_line_of(call)}` sits in a loop / nested function; cannot follow the sets it reports")
        run.analysed(fn.qual)
        verdict, p, why, c = judge(fn, 0)
        if verdict is None:
            raise AnalysisError(f"{fn.qual}: {why} (`{_show(u(c))[:90] if c is not None else pub.name}`)")
        run.check(verdict, "C16.OUTCOME", fn.qual, f"{pub.name}(<succeeded> disjoint from <failed> by construction)",
                  (f"{why}.  Siblings: the two sets swapped at the call, `set()` passed although commands failed, another "
                   "set than the one named in the PartialFailure" if "returned to the requester" in why else "") or
                  f"{why}.  A battery named in both sets is treated by its tracker as succeeded (`in succeeded` is tested "
                  "first): its failed command unblocks it instead of blocking it — it is never reported uncertain, keeps being "
                  "chosen, and the back-off never starts.  On every path that reports an outcome the succeeded set must be "
                  "`<commanded> - <failed>` (or the failed set known empty); the same holds when the subtraction is kept only "
                  "for the result object, hoisted above a branch that needs it, or the failed set is merged back in",
                  node=call, file=fn.file, path=wit(p), instance=f"{fn.qual} -> {pub.name}: succeeded and failed disjoint")


CONTROLS = [
    ("or instead of and in the battery conjunction", MOD,
     "            and self._is_battery_state_correct(bat_data)\n", "            or self._is_battery_state_correct(bat_data)\n", "C16.SAFE"),
    ("a faulty state accepted", MOD, "        BatteryComponentState.DISCHARGING,\n    }",
     "        BatteryComponentState.DISCHARGING,\n        BatteryComponentState.ERROR,\n    }", "C16.SAFE"),
    ("WORKING returned before the validity test", MOD,
     "        if not is_msg_correct:\n            return ComponentStatusEnum.NOT_WORKING\n        if self._last_status == ComponentStatusEnum.NOT_WORKING:",
     "        if self._last_status == ComponentStatusEnum.NOT_WORKING and self._battery.last_msg_correct:\n            return ComponentStatusEnum.WORKING\n        if not is_msg_correct:\n            return ComponentStatusEnum.NOT_WORKING\n        if self._last_status == ComponentStatusEnum.NOT_WORKING:",
     "C16.SAFE"),
    ("back-off triples", _BSMOD,
     "2 * self.last_blocking_duration", "3 * self.last_blocking_duration", "C16.BLOCK"),
    ("sending unconditionally", MOD, "                    if new_status is not None:\n", "                    if True:\n", "C16.CHANGE"),
    ("stale accepted unless WORKING", MOD,
     "        return not is_outdated\n", "            return False\n        return True\n", "C16.SAFE"),
    ("inverter timer looks at the battery timestamp", MOD,
     "                            - self._inverter.last_msg_timestamp\n", "                            - self._battery.last_msg_timestamp\n", "C16.TIMER"),
    ("inverter timer clears the battery flag", MOD,
     "            self._inverter.last_msg_correct = False\n", "            self._battery.last_msg_correct = False\n", "C16.TIMER"),
    ("success does not unblock", MOD,
     "            self._blocking_status.unblock()\n\n        elif", "            pass\n\n        elif", "C16.BLOCK"),
    ("is_blocked inverted", _BSMOD,
     "return self.blocked_until > datetime.now(tz=timezone.utc)", "return self.blocked_until < datetime.now(tz=timezone.utc)", "C16.BLOCK"),
    ("uncertain used although one component works", CSMOD,
     "if len(working) > 0:", "if len(working) > 1:", "C16.BLOCK"),
    ("inverter state check dropped from the conjunction", MOD,
     "            and self._is_inverter_state_correct(", "            and self._is_message_reliable(", "C16.SAFE"),
    ("recovery from NOT_WORKING does not clear the block", MOD,
     "            self._blocking_status.unblock()\n            return ComponentStatusEnum.WORKING",
     "            return ComponentStatusEnum.WORKING", "C16.BLOCK"),
    ("battery handler runs for every event but battery data", MOD,
     "                    if selected_from(selected, battery):\n", "                    if not selected_from(selected, battery):\n", "C16.TIMER"),
    ("inverter data not processed", MOD,
     "                        self._handle_status_inverter(selected.message)\n", "                        pass\n", "C16.TIMER"),
    ("select loop never entered", MOD, "        while True:\n            try:", "        while False:\n            try:", "C16.TIMER"),
    ("critical-error filter selects the non-critical errors", MOD,
     "if err.level == critical)", "if err.level != critical)", "C16.SAFE"),
    ("back-off capped by the data-age limit", MOD, "max_duration=max_blocking_duration", "max_duration=max_data_age", "C16.WIRE"),
    ("NOT_WORKING leaves the component published as uncertain", POOLMOD,
     "                self._current_status.working.discard(component_id)\n                self._current_status.uncertain.discard(component_id)\n",
     "                self._current_status.working.discard(component_id)\n", "C16.POOL"),
    ("UNCERTAIN component stays in the working set", POOLMOD,
     "                self._current_status.working.discard(component_id)\n                self._current_status.uncertain.add(component_id)\n",
     "                self._current_status.uncertain.add(component_id)\n", "C16.POOL"),
    ("pool status update not published", POOLMOD,
     "            await self._component_status_sender.send(self._current_status)\n", "            pass\n", "C16.POOL"),
    ("one status channel for the pool, still one receiver per component", POOLMOD,
     "        for component_id in self._component_ids:\n            channel: Broadcast[ComponentStatus] = Broadcast(\n"
     "                name=f\"component_{component_id}_status\"\n            )\n",
     "        channel: Broadcast[ComponentStatus] = Broadcast(name=\"component_status\")\n"
     "        for component_id in self._component_ids:\n", "C16.WIRE"),
]


# ------------------------------------------------------------------------------ configuration wiring
TRACKER_BASE = f"{CSMOD}:ComponentStatusTracker"


def _ctor_params(prog: Program, cls: Any) -> list[str] | None:
    """Constructor parameter names (without self): `__init__`, else the annotated fields of a dataclass."""
    init = prog.resolve_method(cls, "__init__")
    if init is not None:
        a = init.node.args
        return [x.arg for x in a.posonlyargs + a.args + a.kwonlyargs][1:]
    fields = [s.target.id for s in cls.node.body if isinstance(s, ast.AnnAssign) and isinstance(s.target, ast.Name)]
    return fields or None


def _bind_site(call: ast.Call, params: list[str]) -> dict[str, ast.AST] | None:
    if any(isinstance(a, ast.Starred) for a in call.args) or any(k.arg is None for k in call.keywords) \
            or len(call.args) > len(params):
        return None
    out: dict[str, ast.AST] = dict(zip(params, call.args))
    for k in call.keywords:
        out[k.arg] = k.value  # type: ignore[index]
    return out


class Provenance:
    """Which constructor parameter of the owning class a value is — followed through single-assignment locals,
    `self.<attr>` set (once, in `__init__` only) from a constructor parameter, and parameters of private methods
    whose every call site in the class passes the same thing."""

    def __init__(self, prog: Program) -> None:
        self.prog = prog

    def of(self, e: ast.AST, fn: FuncInfo, depth: int = 0) -> str | None:
        from ..engine.terms import single_defs
        cls = fn.cls
        if cls is None or depth > 4:
            return None
        if isinstance(e, ast.Name):
            if e.id in fn.params[1:]:
                if fn.name == "__init__":
                    return e.id
                sites = [(m, c) for m in cls.methods.values() for c in ast.walk(m.node)
                         if isinstance(c, ast.Call) and isinstance(c.func, ast.Attribute) and u(c.func.value) == "self"
                         and c.func.attr == fn.name]
                got = set()
                for m, c in sites:
                    b = _bind_site(c, fn.params[1:])
                    got.add(self.of(b[e.id], m, depth + 1) if b is not None and e.id in b else None)
                return got.pop() if len(got) == 1 else None
            d = single_defs(fn.node, [e.id])
            return self.of(d[e.id], fn, depth + 1) if e.id in d else None
        if isinstance(e, ast.Attribute) and u(e.value) == "self":
            init = cls.methods.get("__init__")
            writes = [(m, n) for m in cls.methods.values() for n in ast.walk(m.node)
                      if isinstance(n, (ast.Assign, ast.AnnAssign, ast.AugAssign))
                      for t in (n.targets if isinstance(n, ast.Assign) else [n.target]) if u(t) == u(e)]
            if init is None or len(writes) != 1 or writes[0][0] is not init or isinstance(writes[0][1], ast.AugAssign) \
                    or writes[0][1].value is None:
                return None
            return self.of(writes[0][1].value, init, depth + 1)
        return None


# ------------------------------------------------------------------------------ the set-power outcome channel
BROADCAST_DEFAULT_LIMIT = 50  # frequenz.channels.Broadcast.new_receiver(limit=50): library fact, frozen
_LOOPS = (ast.For, ast.AsyncFor, ast.While, ast.ListComp, ast.SetComp, ast.DictComp, ast.GeneratorExp)


def _loops_around(root: ast.AST, target: ast.AST) -> list[int] | None:
    """The loops / comprehensions of `root` that enclose `target` (outermost first); None if it is not in there."""
    def walk(n: ast.AST, acc: list[int]) -> list[int] | None:
        if n is target:
            return acc
        nxt = acc + [id(n)] if isinstance(n, _LOOPS) else acc
        for c in ast.iter_child_nodes(n):
            got = walk(c, nxt)
            if got is not None:
                return got
        return None
    return walk(root, [])


class Origin:
    """Where a value handed to a constructor comes from, and whether it is made anew for each construction:
    followed through single-assignment locals, parameters of private methods (every call site must pass the same
    thing) and argument-less private helpers that only bind locals and return an expression; `self.<attr>` is looked up in the
    constructor (written once, there).  `shared` becomes true when a hop is evaluated outside a loop that encloses
    its use (one value for all iterations)."""

    def __init__(self, prog: Program, cls: Any) -> None:
        self.prog, self.cls = prog, cls

    def follow(self, e: ast.AST, fn: FuncInfo, anchor: ast.AST, depth: int = 0) -> tuple[ast.AST, FuncInfo, bool] | None:
        from ..engine.terms import single_defs
        shared = False
        while True:
            depth += 1
            if depth > 8:
                return None
            if isinstance(e, ast.Name):
                if e.id in fn.params[1:] and fn.name != "__init__":
                    sites = [(m, c) for m in self.cls.methods.values() for c in ast.walk(m.node)
                             if isinstance(c, ast.Call) and isinstance(c.func, ast.Attribute) and u(c.func.value) == "self"
                             and c.func.attr == fn.name]
                    got = []
                    for m, c in sites:
                        b = _bind_site(c, fn.params[1:])
                        r = self.follow(b[e.id], m, c, depth) if b is not None and e.id in b else None
                        if r is None:
                            return None
                        got.append(r)
                    if not got or len({u(r[0]) for r in got}) != 1:
                        return None
                    return got[0][0], got[0][1], shared or any(r[2] for r in got)
                d = single_defs(fn.node, [e.id])
                if e.id not in d:
                    return None
                la, ld = _loops_around(fn.node, anchor), _loops_around(fn.node, d[e.id])
                if la is None or ld is None or ld != la[:len(ld)]:
                    return None
                shared = shared or len(ld) < len(la)
                e = anchor = d[e.id]
                continue
            if isinstance(e, ast.Call) and isinstance(e.func, ast.Attribute) and u(e.func.value) == "self" \
                    and e.func.attr.startswith("_") and not e.args and not e.keywords:
                target = self.prog.resolve_method(self.cls, e.func.attr)
                body = [b for b in target.node.body if not (isinstance(b, ast.Expr) and isinstance(b.value, ast.Constant))] \
                    if target is not None and not target.is_async else []
                if body and isinstance(body[-1], ast.Return) and body[-1].value is not None and all(
                        isinstance(b, (ast.Assign, ast.AnnAssign)) and all(
                            isinstance(t, ast.Name) for t in (b.targets if isinstance(b, ast.Assign) else [b.target]))
                        for b in body[:-1]):
                    fn, e = target, body[-1].value
                    anchor = e
                    continue
            return e, fn, shared

    def attr_def(self, e: ast.AST) -> tuple[ast.AST, FuncInfo] | None:
        """The value `self.<attr>` gets in the constructor, if that is its only write in the class."""
        init = self.cls.methods.get("__init__")
        if not (isinstance(e, ast.Attribute) and u(e.value) == "self") or init is None:
            return None
        writes = [(m, n) for m in self.cls.methods.values() for n in ast.walk(m.node)
                  if isinstance(n, (ast.Assign, ast.AnnAssign, ast.AugAssign))
                  for t in (n.targets if isinstance(n, ast.Assign) else [n.target]) if u(t) == u(e)]
        if len(writes) != 1 or writes[0][0] is not init or isinstance(writes[0][1], ast.AugAssign) or writes[0][1].value is None:
            return None
        return writes[0][1].value, init

    def channel_of(self, e: ast.AST, fn: FuncInfo, anchor: ast.AST, maker: str) -> tuple[str, ast.Call, bool] | None:
        """For a value that is `<channel>.<maker>(...)` (maker: new_receiver / new_sender), possibly kept in a local or
        in an attribute set in the constructor: (the channel as written — `self.<attr>` —, the making call, shared)."""
        got = self.follow(e, fn, anchor)
        if got is None:
            return None
        e, fn, shared = got
        if isinstance(e, ast.Attribute) and u(e.value) == "self":
            d = self.attr_def(e)
            got = self.follow(d[0], d[1], d[0]) if d is not None else None
            if got is None:
                return None
            e, fn, shared = got[0], got[1], True  # made once, in the constructor
        if not (isinstance(e, ast.Call) and isinstance(e.func, ast.Attribute) and e.func.attr == maker):
            return None
        ch = self.follow(e.func.value, fn, e)
        if ch is None or not (isinstance(ch[0], ast.Attribute) and u(ch[0].value) == "self"):
            return None
        return u(ch[0]), e, shared


def _outcome_param(prog: Program, callee: Any) -> str | None:
    """The constructor parameter through which a tracker receives the set-power outcomes: annotated
    `Receiver[SetPowerResult]` (found by its type, not its name)."""
    init = prog.resolve_method(callee, "__init__")
    if init is None:
        return None
    a = init.node.args
    hits = [x.arg for x in a.posonlyargs + a.args + a.kwonlyargs
            if x.annotation is not None and "SetPowerResult" in u(x.annotation) and "Receiver" in u(x.annotation)]
    return hits[0] if len(hits) == 1 else None


def _check_outcome_channel(run: Run, prog: Program, owner: Any, fn: FuncInfo, call: ast.Call, callee: Any,  # noqa: C901
                           bound: dict[str, ast.AST]) -> None:
    """"After a failed power command ..." holds for every schedule of outcomes only if every outcome the owner
    publishes reaches every tracker: each tracker gets its *own* receiver, made by `new_receiver()` of the very
    Broadcast channel the owner sends the SetPowerResult on, with at least the channel's default buffer, and not
    wrapped in anything that drops or rewrites outcomes."""
    rp = _outcome_param(prog, callee)
    if rp is None:
        return
    site = f"{fn.qual} -> {callee.name}"
    if rp not in bound:
        raise AnalysisError(f"{fn.qual}: `{first_line_of(call)}` gives the tracker no set-power result receiver")
    org = Origin(prog, owner)
    arg = bound[rp]
    # the outcomes' way in: the method of the owner that builds a SetPowerResult and sends it
    senders = []
    for m in owner.methods.values():
        for c in [n for n in ast.walk(m.node) if isinstance(n, ast.Call) and isinstance(n.func, ast.Attribute) and n.func.attr == "send"
                  and len(n.args) == 1 and not n.keywords]:
            payload = org.follow(c.args[0], m, c)
            if payload is not None and isinstance(payload[0], ast.Call) and u(payload[0].func).split(".")[-1] == "SetPowerResult":
                senders.append(org.channel_of(c.func.value, m, c, "new_sender"))
    if not senders or None in senders or len({s_[0] for s_ in senders}) != 1:  # type: ignore[index]
        raise AnalysisError(f"{owner.qual}: cannot tell on which channel the set-power results are published")
    out_channel = senders[0][0]  # type: ignore[index]
    made = org.channel_of(arg, fn, call, "new_receiver")
    plain = org.follow(arg, fn, call)
    wrapped = plain is not None and isinstance(plain[0], ast.Call) and isinstance(plain[0].func, ast.Attribute) \
        and plain[0].func.attr != "new_receiver" and any(
            isinstance(n, ast.Call) and isinstance(n.func, ast.Attribute) and n.func.attr == "new_receiver" for n in ast.walk(plain[0]))
    if made is None and not wrapped:
        raise AnalysisError(f"{fn.qual}: cannot tell where the set-power result receiver `{u(arg)}` of {callee.name} comes from")
    shown = u(plain[0]) if plain is not None else u(arg)
    ok = made is not None and made[0] == out_channel and not made[2]
    why = (f"`{shown}` is not a plain receiver of the outcome channel: whatever wraps it (filter / map / ...) decides which "
           "outcomes the tracker sees" if made is None else
           f"`{shown}` listens to {made[0]}, the outcomes are published on {out_channel}: no outcome ever arrives"
           if made[0] != out_channel else
           f"`{shown}` is made once and handed to every tracker: each outcome is consumed by only one of them")
    run.check(ok, "C16.WIRE", fn.qual, f"{callee.name}({rp}=<own new_receiver() of the outcome channel>)",
              f"constructing {callee.name}: {why} — a failed power command is then not seen by the battery's tracker, the "
              "battery stays WORKING, is never reported uncertain and the back-off never starts (a lost success never "
              "unblocks).  Every tracker needs its own, unfiltered receiver of the channel update_status() sends on",
              node=call, file=fn.file, instance=f"{site}: own receiver of the outcome channel")
    if made is None:
        return
    d = org.attr_def(parse_expr(made[0]))
    ctor = d[0] if d is not None else None
    is_bc = isinstance(ctor, ast.Call) and u(ctor.func.value if isinstance(ctor.func, ast.Subscript) else ctor.func).split(".")[-1] == "Broadcast"
    if not is_bc:
        raise AnalysisError(f"{owner.qual}: {made[0]} is not (visibly) a Broadcast channel made in the constructor")
    mk = made[1]
    if mk.args or any(k.arg is None for k in mk.keywords):
        raise AnalysisError(f"{fn.qual}: cannot read the arguments of `{u(mk)}`")
    limit = first([k.value for k in mk.keywords if k.arg == "limit"])
    if limit is not None and not (isinstance(limit, ast.Constant) and isinstance(limit.value, int)):
        raise AnalysisError(f"{fn.qual}: the buffer size in `{u(mk)}` is not a literal")
    run.check(limit is None or limit.value >= BROADCAST_DEFAULT_LIMIT, "C16.WIRE", fn.qual,
              f"{callee.name}({rp}=...): the receiver keeps (at least) the channel's default buffer",
              f"constructing {callee.name}: `{u(mk)}` shrinks the tracker's buffer of set-power results to "
              f"{u(limit) if limit is not None else '?'} (default {BROADCAST_DEFAULT_LIMIT}); a full Broadcast receiver drops "
              "its OLDEST message and Broadcast.send() does not yield to the tracker task, so of outcomes published "
              "back-to-back the earlier ones are lost: a failure followed by an outcome that does not mention the battery "
              "leaves it WORKING (never uncertain, no back-off), a lost success never unblocks.  Any `limit` below the "
              "default — 'only the latest outcome matters' — is the same defect", node=mk, file=fn.file,
              instance=f"{site}: outcome receiver buffer")


# ------------------------------------------------------------------------------ the per-component status channel
def _status_param(prog: Program, callee: Any) -> str | None:
    """The constructor parameter through which a per-component tracker reports: annotated `Sender[ComponentStatus]`
    (found by its type, not its name; `Sender[ComponentPoolStatus]` of the pool tracker is another channel)."""
    import re
    init = prog.resolve_method(callee, "__init__")
    if init is None:
        return None
    a = init.node.args
    hits = [x.arg for x in a.posonlyargs + a.args + a.kwonlyargs
            if x.annotation is not None and re.search(r"\bSender\[\s*([\w.]*\.)?ComponentStatus\s*\]", u(x.annotation))]
    return hits[0] if len(hits) == 1 else None


def _runs_once(owner: Any, fn: FuncInfo, node: ast.AST, depth: int = 0) -> bool:
    """`node` of `fn` is evaluated once per instance of `owner`: it sits in no loop / comprehension, and `fn` is the
    constructor or a private method with a single call site in the class that itself runs once."""
    if depth > 6 or _loops_around(fn.node, node):
        return False
    if fn.name == "__init__":
        return True
    sites = [(m, c) for m in owner.methods.values() for c in ast.walk(m.node)
             if isinstance(c, ast.Call) and isinstance(c.func, ast.Attribute) and u(c.func.value) == "self"
             and c.func.attr == fn.name]
    return fn.name.startswith("_") and len(sites) == 1 and _runs_once(owner, sites[0][0], sites[0][1], depth + 1)


def _channel_made(org: Origin, owner: Any, e: ast.AST, fn: FuncInfo, anchor: ast.AST) -> tuple[ast.Call, bool] | None:
    """The `Broadcast(...)` expression a channel value (a local, a parameter of a private helper, an attribute set in
    the constructor) was made by, and whether the use at `anchor` is evaluated more often than that creation (a hop of
    the value leaves a loop that encloses its use; for a channel kept in an attribute: the use does not run once)."""
    got = org.follow(e, fn, anchor)
    if got is None:
        return None
    made, _fn, many = got
    if isinstance(made, ast.Attribute) and u(made.value) == "self":
        d = org.attr_def(made)
        got = org.follow(d[0], d[1], d[0]) if d is not None else None
        if got is None:
            return None
        made, many = got[0], not _runs_once(owner, fn, anchor)
    if not (isinstance(made, ast.Call) and u(made.func.value if isinstance(made.func, ast.Subscript) else made.func
                                             ).split(".")[-1] == "Broadcast"):
        return None
    return made, many


def _check_status_channel(run: Run, prog: Program, owner: Any, fn: FuncInfo, call: ast.Call, callee: Any,
                          bound: dict[str, ast.AST]) -> None:
    """"Notifications are sent only on change" holds at the pool's observation point only if every ComponentStatus a
    tracker sends (C16.CHANGE: one per change) reaches the pool's status loop exactly once — the loop publishes once
    per message received (C16.POOL).  A Broadcast channel hands every message to *each* of its receivers, so the
    channel a tracker reports on must have exactly one receiver: one `new_receiver()` site in the owner, evaluated as
    often as the channel itself is created (the channel may be per component or one for the whole pool)."""
    sp = _status_param(prog, callee)
    if sp is None:
        return
    site = f"{fn.qual} -> {callee.name}"
    if sp not in bound:
        raise AnalysisError(f"{fn.qual}: `{first_line_of(call)}` gives the tracker no status sender")
    org = Origin(prog, owner)
    snd = org.follow(bound[sp], fn, call)
    if snd is None or not (isinstance(snd[0], ast.Call) and isinstance(snd[0].func, ast.Attribute)
                           and snd[0].func.attr == "new_sender"):
        raise AnalysisError(f"{fn.qual}: cannot tell on which channel the tracker built by `{first_line_of(call)}` reports "
                            f"(`{u(bound[sp])}` is not visibly `<channel>.new_sender()`)")
    ch = _channel_made(org, owner, snd[0].func.value, snd[1], snd[0])
    if ch is None:
        raise AnalysisError(f"{fn.qual}: cannot tell where the status channel `{u(snd[0].func.value)}` of {callee.name} is made")
    chan = ch[0]
    taps: list[tuple[ast.Call, FuncInfo, bool]] = []  # the receivers made of that channel: (site, in, made more often than it)
    unknown: list[str] = []
    for m in owner.methods.values():
        for c in ast.walk(m.node):
            if isinstance(c, ast.Call) and isinstance(c.func, ast.Attribute) and c.func.attr == "new_receiver":
                got = _channel_made(org, owner, c.func.value, m, c)
                if got is None:
                    unknown.append(f"{m.qual}: `{u(c)}`")
                elif got[0] is chan:
                    taps.append((c, m, got[1]))
    per_channel = [t for t in taps if t[2]]
    ok = len(taps) == 1 and not per_channel
    if ok and unknown:
        raise AnalysisError(f"{fn.qual}: cannot tell of which channel {unknown[0]} is a receiver (it could be a second "
                            "receiver of the trackers' status channel)")
    shown = f"`{first_line_of(chan)}`"
    if ok:
        why = ""
    elif not taps:
        why = (f"no receiver is made of the channel {shown} the tracker reports on: its status changes never reach the pool's "
               "status loop, the battery is never published as working / is never taken out again")
    else:
        t = per_channel[0] if per_channel else taps[1]
        how = (f"`{u(t[0])}` ({t[1].qual}, line {t[0].lineno}) is evaluated once per component while the channel {shown} is "
               "made once for all of them: the merged status receiver holds N receivers of that one channel"
               if per_channel else
               f"{len(taps)} receivers are made of each channel {shown} (lines {', '.join(str(x[0].lineno) for x in taps)})")
        why = (f"{how}.  A Broadcast channel delivers every message to each of its receivers, so one status change of one "
               "battery reaches the pool's status loop once per receiver and is published as that many identical "
               "ComponentPoolStatus notifications: all but the first repeat the state already notified ('notifications are "
               "sent only on change' is broken on the pool status channel; every consumer is re-triggered N times)")
    run.check(ok, "C16.WIRE", fn.qual, f"{callee.name}({sp}=<sender of a channel with exactly one receiver>)",
              f"constructing {callee.name}: {why}.  Each status channel needs exactly one `new_receiver()`, made where "
              "(as often as) the channel is made — the same holds for a channel hoisted out of the per-component loop or "
              "kept in an attribute while its receivers are still made per component, for a second receiver of the same "
              "channel collected into the merge, and for a channel nobody listens to", node=call, file=fn.file,
              instance=f"{site}: one receiver per status channel")


def check_wiring(run: Run, prog: Program) -> None:  # noqa: C901
    """Every construction site of a component status tracker (per-component or pool) hands each constructor
    parameter the owner's value of the same role, keyword or positional; the battery tracker uses the two
    durations for what they are."""
    base = prog.cls(TRACKER_BASE)
    pool_cls = prog.cls(POOL)
    prov = Provenance(prog)

    def family(c: Any) -> bool:
        return c is pool_cls or any(b is base for b in prog.mro(c))
    n_sites = 0
    for owner in list(prog.all_classes()):
        if not owner.module.name.startswith("microgrid._power_distributing"):
            continue
        # classes this owner receives as constructor parameters annotated `type[<family class>]`
        typed: dict[str, Any] = {}
        o_init = owner.methods.get("__init__")
        for a in (o_init.node.args.args + o_init.node.args.kwonlyargs) if o_init is not None else []:
            if isinstance(a.annotation, ast.Subscript) and u(a.annotation.value) in ("type", "Type", "typing.Type"):
                t2 = prog.resolve_name(owner.module, u(a.annotation.slice))
                if t2 is not None and hasattr(t2, "methods") and family(t2):
                    typed[a.arg] = t2
        for fn in owner.methods.values():
            for call in [n for n in ast.walk(fn.node) if isinstance(n, ast.Call)]:
                callee = None
                f = call.func
                if isinstance(f, ast.Name) or (isinstance(f, ast.Attribute) and not u(f).startswith("self.")):
                    head = u(f).split(".")[0]
                    if head in owner.module.classes or head in owner.module.imports:
                        tgt = prog.resolve_name(owner.module, u(f)) if u(f).replace(".", "").replace("_", "").isalnum() else None
                        if tgt is not None and hasattr(tgt, "methods") and family(tgt):
                            callee = tgt
                if callee is None and typed and isinstance(f, (ast.Name, ast.Attribute)):
                    callee = typed.get(prov.of(f, fn) or "")
                if callee is None:
                    continue
                params = _ctor_params(prog, callee)
                bound = _bind_site(call, params) if params is not None else None
                if bound is None:
                    raise AnalysisError(f"{fn.qual}: cannot bind the arguments of `{first_line_of(call)}` to {callee.qual}'s constructor")
                n_sites += 1
                if family(owner):
                    run.analysed(fn.qual)
                _check_outcome_channel(run, prog, owner, fn, call, callee, bound)
                _check_status_channel(run, prog, owner, fn, call, callee, bound)
                own = _ctor_params(prog, owner) or []
                shared = [p for p in params if p in own]  # type: ignore[union-attr]
                crossed = [(p, prov.of(a, fn)) for p, a in bound.items()
                           if prov.of(a, fn) is not None and prov.of(a, fn) != p and prov.of(a, fn) in params]  # type: ignore[operator]
                run.check(not crossed, "C16.WIRE", fn.qual, f"{callee.name}(...): no parameter receives another parameter's value",
                          f"constructing {callee.name}: " + "; ".join(
                              f"`{p}` receives the value the owner got as `{q}`" for p, q in crossed) +
                          " — the two roles are swapped (e.g. the data-age limit used as blocking cap and vice versa), "
                          "whether written positionally or by keyword", node=call, file=fn.file,
                          instance=f"{fn.qual} -> {callee.name}: arguments not crossed")
                for p in shared:
                    q = prov.of(bound[p], fn) if p in bound else None
                    if p in bound and q is None and not isinstance(bound[p], (ast.Name, ast.Attribute)):
                        continue  # a computed value: not a forwarded configuration
                    run.check(q == p, "C16.WIRE", fn.qual, f"{callee.name}({p}=<owner's {p}>)",
                              f"constructing {callee.name}: `{p}` does not receive the value {owner.name} was configured "
                              f"with as `{p}` (it gets `{u(bound[p]) if p in bound else '<default>'}`)", node=call, file=fn.file,
                              instance=f"{fn.qual} -> {callee.name}: {p} forwarded")
    if n_sites < 2:
        raise AnalysisError(f"expected construction sites of the status trackers, found {n_sites}")
    # the battery tracker consumes the two durations for what they are: its constructor is walked path by path
    # (helpers in line), every parameter p standing for the symbol CTOR_p
    tr = prog.cls(TR)
    init = tr.methods.get("__init__")
    if init is None:
        raise AnalysisError(f"{tr.qual}: no constructor")
    run.analysed(init.qual)
    names = [a.arg for a in init.node.args.posonlyargs + init.node.args.args][1:]
    paths = paths_of(prog, init, [f"CTOR_{n}" for n in names], allow_opaque=True)

    def decided(bad: PathSum | None) -> PathSum | None:
        """A path that lacks what is looked for while it calls a helper that could not be followed: no verdict."""
        if bad is not None and bad.blind:  # type: ignore[attr-defined]
            raise AnalysisError(f"{init.qual}: cannot see through {bad.blind} (not interpretable path by path)")  # type: ignore[attr-defined]
        return bad

    def calls_in(v: ast.AST | None, name: str) -> list[ast.Call]:
        return [c for c in ast.walk(v) if isinstance(c, ast.Call) and u(c.func).split(".")[-1] == name] if v is not None else []
    bad = first([p for p in paths if p.last_write("self._max_data_age") is None
                 or text(p.last_write("self._max_data_age")) != "CTOR_max_data_age"])
    run.check(decided(bad) is None, "C16.WIRE", init.qual, "self._max_data_age is the constructor's max_data_age",
              "the limit the tracker compares message ages with is not the configured max_data_age (e.g. the blocking "
              "cap)", node=init.node, file=init.file, path=wit(bad))
    bad = None
    for p in paths:
        for stream in STREAMS:
            timers = calls_in(p.last_write(stream), "Timer")
            if not timers or any(not c.args or text(c.args[0]) != "CTOR_max_data_age" for c in timers):
                bad = bad or p
    run.check(decided(bad) is None, "C16.WIRE", init.qual, "data timers run with max_data_age",
              "a stream's data-age timer is not started with the configured max_data_age (silence would be "
              "noticed too late, or a live stream declared dead)", node=init.node, file=init.file, path=wit(bad))
    fields = _ctor_params(prog, prog.cls(BS)) or []
    bad = None
    for p in paths:
        made = calls_in(p.last_write("self._blocking_status"), "BlockingStatus")
        if len(made) != 1 or text((_bind_site(made[0], fields) or {}).get("max_duration")) != "CTOR_max_blocking_duration":
            bad = bad or p
    run.check(decided(bad) is None, "C16.WIRE", init.qual, "BlockingStatus(max_duration=<max_blocking_duration>)",
              "the back-off is not capped by the configured max_blocking_duration", node=init.node, file=init.file,
              path=wit(bad))


def first_line_of(node: ast.AST) -> str:
    return u(node)[:80]


# ------------------------------------------------------------------------------ structurally located controls
def _control_at(name: str, mod: Any, node: ast.AST, repl: str, rule: str) -> tuple[str, str, str, str, str] | None:
    """A control that replaces the source of `node` by `repl`, expressed as the (old, new) text pair the control
    engine wants: the replaced span is widened line by line until it occurs exactly once in the module."""
    src = mod.source
    lines = src.splitlines(keepends=True)
    if not all(line.isascii() for line in lines[node.lineno - 1:node.end_lineno]):  # type: ignore[attr-defined]
        return None
    starts = [0]
    for line in lines:
        starts.append(starts[-1] + len(line))
    a = starts[node.lineno - 1] + node.col_offset  # type: ignore[attr-defined]
    b = starts[node.end_lineno - 1] + node.end_col_offset  # type: ignore[attr-defined]
    lo, hi = node.lineno - 1, node.end_lineno  # type: ignore[attr-defined]
    while src.count(src[starts[lo]:starts[hi]]) != 1 and lo > 0:
        lo -= 1
    a0, b1 = starts[lo], starts[hi]
    if src.count(src[a0:b1]) != 1:
        return None
    return (name, mod.name, src[a0:b1], src[a0:a] + repl + src[b:b1], rule)


def located_controls(prog: Program) -> list[tuple[str, str, str, str, str]]:
    """Seeded defects placed by *what the statement does*, not by its text, so that the both-ways test of the
    rules survives renamed variables, moved code and re-cut functions."""
    out: list[tuple[str, str, str, str, str] | None] = []
    tr, bs, pool = prog.cls(TR), prog.cls(BS), prog.cls(POOL)

    def stmts(cls: Any) -> list[ast.stmt]:
        return [n for n in ast.walk(cls.node) if isinstance(n, ast.stmt)]

    def call_of(s: ast.stmt) -> ast.Call | None:
        v = s.value if isinstance(s, ast.Expr) else None
        v = v.value if isinstance(v, ast.Await) else v
        return v if isinstance(v, ast.Call) else None
    hit = first([s_ for s_ in stmts(tr) if call_of(s_) is not None and u(call_of(s_).func).endswith(".data_recv_timer.reset")])  # type: ignore[union-attr]
    if hit is not None:
        out.append(_control_at("a data message does not restart its stream's timer", tr.module, hit, "pass", "C16.TIMER"))
    hit = first([s_ for s_ in stmts(tr) if isinstance(s_, ast.Assign) and isinstance(s_.targets[0], ast.Attribute)
                 and s_.targets[0].attr == FLAG and _bool_const(s_.value) is False])
    if hit is not None:
        out.append(_control_at("the data timer does not clear the flag", tr.module, hit, "pass", "C16.TIMER"))
    hit = first([s_ for s_ in stmts(bs) if isinstance(s_, ast.Assign) and isinstance(s_.targets[0], ast.Attribute)
                 and s_.targets[0].attr == "blocked_until" and isinstance(s_.value, ast.Constant) and s_.value.value is None])
    if hit is not None:
        out.append(_control_at("unblock() does not clear the block", bs.module, hit, "pass", "C16.BLOCK"))
    hit = first([s_ for s_ in stmts(tr) if call_of(s_) is not None and isinstance(call_of(s_).func, ast.Attribute)  # type: ignore[union-attr]
                 and call_of(s_).func.attr == "send" and "ComponentStatus" in u(s_)])  # type: ignore[union-attr]
    if hit is not None:
        out.append(_control_at("a detected change is not sent", tr.module, hit, "pass", "C16.CHANGE"))
    cmp_ = first([n for n in ast.walk(tr.node) if isinstance(n, ast.Compare) and len(n.ops) == 1
                  and isinstance(n.ops[0], (ast.In, ast.NotIn)) and u(n.comparators[0]).endswith("._battery_valid_relay")])
    if cmp_ is not None:
        flipped = f"{u(cmp_.left)} {'in' if isinstance(cmp_.ops[0], ast.NotIn) else 'not in'} {u(cmp_.comparators[0])}"
        out.append(_control_at("an invalid relay state is accepted", tr.module, cmp_, flipped, "C16.SAFE"))
    hit = first([s_ for s_ in stmts(pool) if call_of(s_) is not None and u(call_of(s_).func).endswith("uncertain.discard")])  # type: ignore[union-attr]
    if hit is not None:
        out.append(_control_at("a component is not removed from the uncertain set", pool.module, hit, "pass", "C16.POOL"))
    # wiring: at the construction site of the per-component trackers the data-age argument gets the blocking cap
    prov = Provenance(prog)
    for fn in pool.methods.values():
        for call in [n for n in ast.walk(fn.node) if isinstance(n, ast.Call)]:
            args = list(call.args) + [k.value for k in call.keywords]
            age = [a for a in args if prov.of(a, fn) == "max_data_age"]
            cap = [a for a in args if prov.of(a, fn) == "max_blocking_duration"]
            if len(age) == 1 and len(cap) == 1:
                out.append(_control_at("the trackers get the blocking cap as data-age limit", pool.module, age[0], u(cap[0]), "C16.WIRE"))
    # a timer handler that also stops the timer once the stream is marked (placed at the statement that clears a flag)
    hit = first([s_ for s_ in stmts(tr) if isinstance(s_, ast.Assign) and isinstance(s_.targets[0], ast.Attribute)
                 and s_.targets[0].attr == FLAG and _bool_const(s_.value) is False])
    if hit is not None:
        owner_ = u(hit.targets[0].value)  # type: ignore[attr-defined]
        out.append(_control_at("the data timer is stopped once its stream is marked", tr.module, hit,
                               f"{u(hit)}; {owner_}.data_recv_timer.stop()", "C16.TIMER"))
    # the outcome channel: the receiver a tracker is given (the `new_receiver()` of a channel kept in an attribute)
    rxs = [n for n in ast.walk(pool.node) if isinstance(n, ast.Call) and isinstance(n.func, ast.Attribute)
           and n.func.attr == "new_receiver" and u(n.func.value).startswith("self.") and not n.args and not n.keywords]
    org = Origin(prog, pool)
    typed_rx = [n for n in rxs if (org.attr_def(n.func.value) or [None])[0] is not None  # type: ignore[union-attr]
                and "SetPowerResult" in u(org.attr_def(n.func.value)[0])]  # type: ignore[index]
    rx = first(typed_rx or rxs)  # of the channel declared to carry SetPowerResult, when that can be told
    if rx is not None:
        out.append(_control_at("each tracker buffers a single set-power result", pool.module, rx,
                               f"{u(rx.func)}(limit=1)", "C16.WIRE"))
        out.append(_control_at("the trackers only see outcomes with failures", pool.module, rx,
                               f"{u(rx)}.filter(lambda r: bool(r.failed))", "C16.WIRE"))
    # the status channel: the receiver made of a channel that is not kept in an attribute (the per-component status
    # channel) is made twice and both are merged
    rx2 = first([n for n in ast.walk(pool.node) if isinstance(n, ast.Call) and isinstance(n.func, ast.Attribute)
                 and n.func.attr == "new_receiver" and isinstance(n.func.value, ast.Name) and not n.args and not n.keywords])
    if rx2 is not None:
        out.append(_control_at("two receivers of each tracker's status channel are merged", pool.module, rx2,
                               f"merge({u(rx2)}, {u(rx2)})", "C16.WIRE"))
    # the outcome handed to the trackers: the fields of the SetPowerResult the pool tracker builds, and the sets the
    # reporting site passes (all placed by role: the message constructor, the call of the publishing method)
    msg = prog.resolve_name(pool.module, OUTCOME)
    fields = (_ctor_params(prog, msg) if msg is not None and hasattr(msg, "methods") else None) or []
    built = first([n for n in ast.walk(pool.node) if isinstance(n, ast.Call) and u(n.func).split(".")[-1] == OUTCOME])
    bound = _bind_site(built, fields) if built is not None else None
    if bound is not None and {"succeeded", "failed"} <= set(bound):
        out.append(_control_at("only failures of components the pool lists as working are forwarded", pool.module,
                               bound["failed"], f"{u(bound['failed'])} & self._current_status.working", "C16.OUTCOME"))
        out.append(_control_at("the failed components are also forwarded as succeeded", pool.module,
                               bound["succeeded"], f"{u(bound['succeeded'])} | {u(bound['failed'])}", "C16.OUTCOME"))
    try:
        pub = _outcome_publisher(prog)[0]
        sites = _publisher_sites(prog, pub)
    except AnalysisError:
        pub, sites = None, []
    for fn, call in sites[:1]:
        b = _bind_site(call, [p for p in pub.params if p not in ("self", "cls")])  # type: ignore[union-attr]
        if b is not None and len(b) == 2:
            a0, a1 = list(b.values())
            out.append(_control_at("the trackers are told that the failed batteries succeeded as well", fn.module, a0,
                                   f"{u(a0)} | {u(a1)}", "C16.OUTCOME"))
            sub = first([n for n in ast.walk(fn.node) if isinstance(n, ast.Assign) and len(n.targets) == 1
                         and u(n.targets[0]) in (u(a0), u(a1)) and isinstance(n.value, ast.BinOp) and isinstance(n.value.op, ast.Sub)
                         and u(n.value.right) in (u(a0), u(a1))])
            if sub is not None:
                out.append(_control_at("the failed batteries are not taken out of the succeeded set", fn.module, sub.value,
                                       u(sub.value.left), "C16.OUTCOME"))  # type: ignore[attr-defined]
    init = tr.methods.get("__init__")
    hit = first([s_ for s_ in stmts(tr) if isinstance(s_, (ast.Assign, ast.AnnAssign)) and s_.value is not None
                 and u(s_.targets[0] if isinstance(s_, ast.Assign) else s_.target) == "self._max_data_age"]) if init else None
    if hit is not None and init is not None and "max_blocking_duration" in init.params:
        out.append(_control_at("the tracker keeps the blocking cap as its data-age limit", tr.module, hit.value,
                               "max_blocking_duration", "C16.WIRE"))
    return [c for c in out if c is not None]


def run_rules(run: Run, prog: Program) -> None:
    check_safe(run, prog)
    check_timer(run, prog)
    check_change(run, prog)
    check_block(run, prog)
    check_pool(run, prog)
    check_outcome(run, prog)
    check_wiring(run, prog)


def check(run: Run, prog: Program, tier: str) -> str:
    run.rule("C16.SAFE", "a stream's flag becomes true only if every disqualifying fact was tested on that message and "
             "excluded; the flag is renewed by every message; WORKING/UNCERTAIN stored only with both flags; "
             "operational-state sets frozen")
    run.rule("C16.TIMER", "messages record timestamp + reset their timer; events are dispatched to their own stream; each "
             "timer branch judges and clears its own stream; every state change is followed by a status evaluation; "
             "the loop is kept alive; no selected source is ever stopped, closed or replaced")
    run.rule("C16.CHANGE", "a notification is sent iff a new status was stored, carries it, and it was found different first")
    run.rule("C16.BLOCK", "back-off: min on first, unchanged while blocked, min(2*last, max) when expired; "
             "unblock on every success; block on failure unless NOT_WORKING; uncertain only as fallback")
    run.rule("C16.POOL", "the published pool status: after a status message the component is in `working` only for "
             "WORKING, in `uncertain` only for UNCERTAIN, in neither for NOT_WORKING, on every path; every update is sent")
    run.rule("C16.WIRE", "every construction site of a status tracker gives each constructor parameter the owner's value "
             "of the same role (keyword or positional); the battery tracker uses max_data_age for staleness and its "
             "timers and max_blocking_duration as the back-off cap; each tracker gets its own unwrapped receiver of the "
             "channel the set-power results are published on, with at least the default buffer; the channel a tracker "
             "reports its ComponentStatus on has exactly one receiver (made as often as the channel), so the pool's "
             "status loop sees — and publishes — every change once")
    run.rule("C16.OUTCOME", "what the per-battery trackers are told about a power command is its outcome: the pool tracker "
             "forwards every (succeeded, failed) pair once, the failed set as given and nothing filtered by its own view "
             "of the statuses; at every site that reports an outcome the succeeded set that reaches the trackers is "
             "disjoint from the failed set by construction on every path (failed subtracted, or known empty)")
    run_rules(run, prog)
    run.floor("C16.OUTCOME", 6)
    run.floor("C16.POOL", 4)
    run.floor("C16.WIRE", 12)
    run.floor("C16.SAFE", 14)
    run.floor("C16.TIMER", 20)
    run.floor("C16.CHANGE", 3)
    run.floor("C16.BLOCK", 13)
    from ..engine.controls import run_controls

    run_controls(run, CONTROLS + located_controls(prog), run_rules, tier, base_prog=prog)
    run.assume("the frozen fact table in sa/props/c16.py binds each disqualifying fact to the atomic condition "
               "that tests it (matched on what it computes on the message, not on local names); the "
               "operational-state sets are the documented ones")
    run.assume("operands of <, <=, >, >= in the anchored functions are totally ordered (datetimes, timedeltas, "
               "lengths), so `not a <= b` is `b < a`; all reads of the utc wall clock on one path are one atom NOW; "
               "an attribute not written on the path denotes the same value at every read")
    run.undecided("races between the wall clock and the timers (strict `<` at exactly max_data_age); "
                  "message delivery timing")
    return ("Symbolic path summaries (locals, parameters, private helpers and comprehension variables eliminated; "
            "conditions split into canonical atoms; writes and calls in order).  The tracker is one unit: one "
            "iteration of its select loop with all private methods executed in line, located by role; per-path "
            "implication rules on the health flags (true => every disqualifying fact tested on that message and "
            "excluded), the stored/reported status, the timer branches, dispatch, change notification and the "
            "set-power handling; polynomial-normal-form rules on the exponential back-off; membership rules on the "
            "published pool status.")
