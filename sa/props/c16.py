"""C16  A battery is reported usable only while its data proves it healthy.

  C16.SAFE    for every disqualifying fact (stale / invalid component state / invalid relay state /
              critical error / NaN capacity for the battery; stale / invalid state / critical error
              for the inverter) the validity predicate returns False on every path on which that fact
              holds (partial evaluation with the fact set to true, everything else unknown), the
              stream's flag is the conjunction of all its predicates, and WORKING/UNCERTAIN is only
              returned when both flags hold.  The sets of operational states are a frozen table.
  C16.TIMER   message handlers record the message timestamp and reset that stream's timer; each
              timer branch judges freshness on *its own* stream's last timestamp and clears *its
              own* stream's flag; every state-changing select branch reaches the change detection.
  C16.CHANGE  a notification is sent only for a status returned by the change detector, which
              returns one only after storing it as the last status.
  C16.BLOCK   BlockingStatus.block: not blocked -> min duration; still blocked -> zero, no state
              write; expired -> min(2 * last, max); unblock clears; the tracker unblocks on every
              success and blocks on failure only when the last status was not NOT_WORKING;
              uncertain components are used only when no working one is available.
"""
from __future__ import annotations

import ast
from typing import Any

from ..engine.cfg import CFG
from ..engine.report import AnalysisError, Run
from ..engine.resolver import FuncInfo, Program, body_walk
from ..engine.terms import Poly, TermEval
from ..engine.util import canon, canon_total, find_calls, method_call, node_writes, nodes_with_call, u

MOD = "microgrid._power_distributing._component_status._battery_status_tracker"
TR = f"{MOD}:BatteryStatusTracker"
BS = "microgrid._power_distributing._component_status._blocking_status:BlockingStatus"
CS = "microgrid._power_distributing._component_status._component_status:ComponentPoolStatus"

# frozen instance table: predicate -> disqualifying facts (text of the condition as it appears in the
# predicate, after resolving the single-assignment locals listed) — a vanished atom is exit 2
ATOMS: dict[str, list[tuple[str, str]]] = {
    "_is_capacity_present": [("NaN capacity", "math.isnan(msg.capacity)")],
    "_no_critical_error": [("critical error", "critical_err is not None")],
    "_is_inverter_state_correct": [("invalid inverter state",
                                    "state not in BatteryStatusTracker._inverter_valid_state")],
    "_is_battery_state_correct": [
        ("invalid battery state", "state not in BatteryStatusTracker._battery_valid_state"),
        ("invalid relay state", "relay_state not in BatteryStatusTracker._battery_valid_relay")],
    "_is_message_reliable": [("stale message", "is_outdated")],
}
LOCAL_DEFS = {
    "_no_critical_error": {"critical": "ErrorLevel.CRITICAL",
                           "critical_err": "next((err for err in msg.errors if err.level == critical), None)"},
    "_is_inverter_state_correct": {"state": "msg.component_state"},
    "_is_battery_state_correct": {"state": "msg.component_state", "relay_state": "msg.relay_state"},
    "_is_message_reliable": {"is_outdated": "self._is_timestamp_outdated(message.timestamp)"},
}
REQUIRED = {
    "_handle_status_battery": ("self._battery", {"_is_message_reliable", "_is_battery_state_correct",
                                                 "_no_critical_error", "_is_capacity_present"}),
    "_handle_status_inverter": ("self._inverter", {"_is_message_reliable", "_is_inverter_state_correct",
                                                   "_no_critical_error"}),
}
VALID_SETS = {
    "_battery_valid_relay": {"BatteryRelayState.CLOSED"},
    "_battery_valid_state": {"BatteryComponentState.IDLE", "BatteryComponentState.CHARGING",
                             "BatteryComponentState.DISCHARGING"},
    "_inverter_valid_state": {"InverterComponentState.STANDBY", "InverterComponentState.IDLE",
                              "InverterComponentState.CHARGING", "InverterComponentState.DISCHARGING"},
}


def tri(e: ast.AST, true_texts: set[str]) -> bool | None:
    """Three-valued evaluation: sub-expressions whose text is in `true_texts` are True, the rest unknown."""
    t = u(e)
    if t in true_texts:
        return True
    if isinstance(e, ast.Constant) and isinstance(e.value, bool):
        return e.value
    if isinstance(e, ast.UnaryOp) and isinstance(e.op, ast.Not):
        v = tri(e.operand, true_texts)
        return None if v is None else not v
    if isinstance(e, ast.BoolOp):
        vals = [tri(v, true_texts) for v in e.values]
        if isinstance(e.op, ast.And):
            if any(v is False for v in vals):
                return False
            return True if all(v is True for v in vals) else None
        if any(v is True for v in vals):
            return True
        return False if all(v is False for v in vals) else None
    return None


def may_return_true(cfg: CFG, true_texts: set[str]) -> list[tuple[int, str]] | None:
    """A path to a `return` whose value is not definitely False, given the facts; None if none."""
    start = (cfg.entry,)
    seen = {cfg.entry}
    prev: dict[int, tuple[int, str]] = {}
    queue = [cfg.entry]
    while queue:
        n = queue.pop(0)
        node = cfg.nodes[n]
        if isinstance(node.ast, ast.Return):
            v = node.ast.value
            val = tri(v, true_texts) if v is not None else False
            if val is not False:
                out = [(n, "")]
                cur = n
                while cur in prev:
                    p, lab = prev[cur]
                    out[-1] = (out[-1][0], lab)
                    out.append((p, ""))
                    cur = p
                return list(reversed(out))
            continue
        decided = None
        if node.kind == "test" and node.ast is not None:
            decided = tri(node.ast, true_texts)
        for m, lab in cfg.succ[n]:
            if lab.startswith("exc:"):
                continue
            if decided is True and lab == "false":
                continue
            if decided is False and lab == "true":
                continue
            if m not in seen:
                seen.add(m)
                prev[m] = (n, lab)
                queue.append(m)
    return None


def check_safe(run: Run, prog: Program) -> None:
    cls = prog.cls(TR)
    # frozen sets of operational states
    for name, want in VALID_SETS.items():
        node = cls.class_assigns.get(name)
        got = {u(e) for e in node.elts} if isinstance(node, ast.Set) else None
        run.check(got == want, "C16.SAFE", cls.qual, f"{name} = {sorted(got) if got else got}",
                  f"the set of states counted as operational changed from the documented {sorted(want)} "
                  f"to {sorted(got) if got else got}", node=node or cls.node, file=cls.module.rel)
    for pname, atoms in ATOMS.items():
        fn = prog.func(f"{TR}.{pname}")
        run.analysed(fn.qual)
        msgp = fn.params[1]
        cfg = CFG(fn.node, fn.file)
        # the locals the atom texts rely on are still defined as frozen
        for local, want in LOCAL_DEFS.get(pname, {}).items():
            defs = [s for s in body_walk(fn.node) if isinstance(s, ast.Assign) and u(s.targets[0]) == local]
            want_t = want.replace("msg.", f"{msgp}.").replace("message.", f"{msgp}.")
            if len(defs) != 1 or u(defs[0].value) != want_t:
                raise AnalysisError(f"{fn.qual}: local `{local}` is no longer `{want_t}` — the frozen atom "
                                    "table of C16.SAFE must be re-confirmed")
        for label, text in atoms:
            text = text.replace("msg.", f"{msgp}.")
            present = any(u(n) == text for n in ast.walk(fn.node))
            if not present:
                raise AnalysisError(f"{fn.qual}: disqualifying atom `{text}` ({label}) vanished")
            wit = may_return_true(cfg, {text})
            run.check(wit is None, "C16.SAFE", fn.qual, f"{label}: `{text}` -> False",
                      f"with the disqualifying fact `{label}` true, `{pname}` can still return a value "
                      "that is not False: the component is reported healthy on that path",
                      node=fn.node, file=fn.file, path=cfg.describe_path(wit),
                      instance=f"{fn.qual}: {label} => False on every path")
        # and the predicate can succeed at all (not constantly False)
        rets = [n for n in body_walk(fn.node) if isinstance(n, ast.Return)]
        run.check(any(tri(r.value, set()) is not False for r in rets if r.value is not None), "C16.SAFE", fn.qual,
                  "predicate can hold", "the predicate can never hold", node=fn.node, file=fn.file)
    # staleness predicate
    so = prog.func(f"{TR}._is_timestamp_outdated")
    run.analysed(so.qual)
    txt = u(so.node).replace(" ", "")
    ok = "now=datetime.now(tz=timezone.utc)" in txt and f"diff=now-{so.params[1]}" in txt and "returndiff>self._max_data_age" in txt
    run.check(ok, "C16.SAFE", so.qual, "outdated == now - timestamp > max_data_age",
              "staleness is not `now - message timestamp > max_data_age`", node=so.node, file=so.file)
    # flags are the conjunction of all predicates of the stream
    for hname, (stream, need) in REQUIRED.items():
        fn = prog.func(f"{TR}.{hname}")
        run.analysed(fn.qual)
        msgp = fn.params[1]
        assigns = [s for s in body_walk(fn.node) if isinstance(s, ast.Assign) and u(s.targets[0]) == f"{stream}.last_msg_correct"]
        ok = len(assigns) == 1 and isinstance(assigns[0].value, ast.BoolOp) and isinstance(assigns[0].value.op, ast.And)
        have = set()
        if ok:
            for v in assigns[0].value.values:  # type: ignore[union-attr]
                if isinstance(v, ast.Call) and isinstance(v.func, ast.Attribute) and u(v.func.value) == "self" \
                        and [u(a) for a in v.args] == [msgp]:
                    have.add(v.func.attr)
                else:
                    ok = False
        missing = need - have
        run.check(ok and not missing, "C16.SAFE", fn.qual, f"{stream}.last_msg_correct = and(all predicates)",
                  f"the health flag of {stream} is not the conjunction of all required checks on the "
                  f"received message (missing: {sorted(missing)})", node=fn.node, file=fn.file)
    # status decision
    gs = prog.func(f"{TR}._get_current_status")
    run.analysed(gs.qual)
    cfg = CFG(gs.node, gs.file)
    defs = [s for s in body_walk(gs.node) if isinstance(s, ast.Assign) and isinstance(s.targets[0], ast.Name)]
    flag = None
    for s in defs:
        if canon(s.value) == ("and", frozenset({("truthy", "self._battery.last_msg_correct"),
                                                ("truthy", "self._inverter.last_msg_correct")})):
            flag = u(s.targets[0])
    ok = flag is not None
    wit = None
    if ok:
        tests = [t for t in cfg.nodes if t.kind == "test" and t.ast is not None and canon(t.ast) == ("not", ("truthy", flag))]
        ok = len(tests) == 1
        if ok:
            t = tests[0]
            t_true = [m for m, lab in cfg.succ[t.id] if lab == "true"]
            ok = bool(t_true) and u(cfg.nodes[t_true[0]].ast) == "return ComponentStatusEnum.NOT_WORKING"
            good_rets = [n.id for n in cfg.nodes if isinstance(n.ast, ast.Return)
                         and u(n.ast.value) != "ComponentStatusEnum.NOT_WORKING"]
            wit = cfg.path(cfg.entry, good_rets, avoid=[t.id])
            ok = ok and wit is None and bool(good_rets)
    run.check(ok, "C16.SAFE", gs.qual, "WORKING/UNCERTAIN only if battery flag and inverter flag",
              "a status other than NOT_WORKING can be returned although the battery's or the inverter's "
              "last message was not proven healthy", node=gs.node, file=gs.file, path=cfg.describe_path(wit))
    blk = [t for t in cfg.nodes if t.kind == "test" and "is_blocked()" in t.label]
    ok = len(blk) == 1 and any(u(cfg.nodes[m].ast) == "return ComponentStatusEnum.UNCERTAIN"
                               for m, lab in cfg.succ[blk[0].id] if lab == "true")
    run.check(ok, "C16.BLOCK", gs.qual, "blocked -> UNCERTAIN",
              "a healthy but blocked battery is not reported as uncertain", node=gs.node, file=gs.file)


def check_timer(run: Run, prog: Program) -> None:
    for hname, (stream, _need) in REQUIRED.items():
        fn = prog.func(f"{TR}.{hname}")
        txt = u(fn.node).replace(" ", "")
        ok = f"{stream}.last_msg_timestamp={fn.params[1]}.timestamp" in txt and f"{stream}.data_recv_timer.reset()" in txt
        run.check(ok, "C16.TIMER", fn.qual, "record the message timestamp and reset the stream's timer",
                  f"a message from {stream} does not record its timestamp / restart the data-age timer",
                  node=fn.node, file=fn.file)
    for hname, stream in (("_handle_status_battery_timer", "self._battery"), ("_handle_status_inverter_timer", "self._inverter")):
        fn = prog.func(f"{TR}.{hname}")
        run.analysed(fn.qual)
        clears = [s for s in body_walk(fn.node) if isinstance(s, ast.Assign) and u(s.targets[0]) == f"{stream}.last_msg_correct"
                  and u(s.value) == "False"]
        others = [s for s in body_walk(fn.node) if isinstance(s, ast.Assign) and u(s.targets[0]).endswith(".last_msg_correct")
                  and not u(s.targets[0]).startswith(stream)]
        run.check(len(clears) == 1 and not others, "C16.TIMER", fn.qual, f"{stream}.last_msg_correct = False",
                  f"the data-age timer of {stream} does not clear that stream's health flag", node=fn.node, file=fn.file)
    rn = prog.func(f"{TR}._run")
    run.analysed(rn.qual)
    cfg = CFG(rn.node, rn.file)
    alias = {u(s.targets[0]): u(s.value) for s in body_walk(rn.node) if isinstance(s, ast.Assign) and isinstance(s.targets[0], ast.Name)}
    n_branch = 0
    for t in cfg.nodes:
        if t.kind != "test" or t.ast is None or not isinstance(t.ast, ast.Call) or u(t.ast.func) != "selected_from":
            continue
        src = u(t.ast.args[1])
        origin = alias.get(src, src)
        if not origin.endswith(".data_recv_timer"):
            continue
        n_branch += 1
        stream = origin[: -len(".data_recv_timer")]
        side = cfg.reachable([m for m, lab in cfg.succ[t.id] if lab == "true"],
                             avoid=[x.id for x in cfg.nodes if x.kind == "for"])
        fresh = [x for x in side if cfg.nodes[x].kind == "test" and "last_msg_timestamp" in cfg.nodes[x].label
                 and x != t.id and cfg.path(t.id, [x], edge_ok=lambda a, b, lab, tid=t.id: not (a == tid and lab == "false")) is not None]
        fresh = [x for x in fresh if not any(
            cfg.nodes[y].kind == "test" and isinstance(cfg.nodes[y].ast, ast.Call) and y != t.id
            and cfg.path(y, [x], edge_ok=lambda a, b, lab, yy=y: not (a == yy and lab == "false")) is not None
            and y in side for y in side if u(getattr(cfg.nodes[y].ast, "func", ast.Name(id=""))) == "selected_from")]
        ok = len(fresh) == 1
        detail = "no freshness test on the timer branch"
        if ok:
            f = cfg.nodes[fresh[0]]
            want = canon_total(ast.parse(
                f"(datetime.now(tz=timezone.utc) - {stream}.last_msg_timestamp) < self._max_data_age", mode="eval").body)
            ok = canon_total(f.ast) == want  # type: ignore[arg-type]
            detail = (f"the freshness test of {stream}'s timer reads `{f.label}`: it must compare the age of "
                      f"*{stream}'s* last message with max_data_age (otherwise a silent {stream.split('_')[-1]} "
                      "is never marked stale while the other stream keeps sending)")
            if ok:
                stale_side = cfg.reachable([m for m, lab in cfg.succ[f.id] if lab == "false"],
                                           avoid=[x.id for x in cfg.nodes if x.kind == "for"])
                want_handler = f"_handle_status_{stream.split('._')[-1]}_timer"
                calls = [x for x in stale_side if cfg.nodes[x].kind == "stmt" and u(cfg.nodes[x].ast).replace(" ", "") == f"self.{want_handler}()"]
                ok = bool(calls)
                detail = f"a stale {stream} does not lead to {want_handler}()"
        run.check(ok, "C16.TIMER", rn.qual, f"timer branch of {stream}", detail, node=t.ast, file=rn.file)
    if n_branch != 2:
        raise AnalysisError(f"{rn.qual}: expected two data-timer branches, found {n_branch}")
    # every state-changing branch reaches the change detection
    det = nodes_with_call(cfg, lambda c: method_call(c, "self", "_get_new_status_if_changed"))
    loops = [h for h in cfg.nodes if h.kind == "for"]
    normal = lambda a, b, lab: not lab.startswith("exc:")  # noqa: E731
    for x in nodes_with_call(cfg, lambda c: isinstance(c.func, ast.Attribute) and c.func.attr.startswith("_handle_status_")):
        wit = cfg.path(x, [h.id for h in loops], avoid=det, edge_ok=normal, include_src=False)
        run.check(bool(det) and wit is None, "C16.TIMER", rn.qual, cfg.nodes[x].ast,
                  "a branch that may change the health flags returns to the select loop without "
                  "re-evaluating the status", node=cfg.nodes[x].ast, file=rn.file, path=cfg.describe_path(wit))
    # the crash handler keeps the tracker alive
    run.check(any(n.kind == "handler" and "Exception" in n.label for n in cfg.nodes) and any(n.kind == "while" for n in cfg.nodes),
              "C16.TIMER", rn.qual, "select loop restarted after an unexpected error",
              "an unexpected error ends status tracking", node=rn.node, file=rn.file)


def check_change(run: Run, prog: Program) -> None:
    rn = prog.func(f"{TR}._run")
    cfg = CFG(rn.node, rn.file)
    sends = nodes_with_call(cfg, lambda c: method_call(c, "status_sender", "send"))
    if len(sends) != 1:
        raise AnalysisError(f"{rn.qual}: expected one status send")
    tests = [t for t in cfg.nodes if t.kind == "test" and t.ast is not None and canon(t.ast) == ("isnot", frozenset({"new_status", "None"}))]
    ok = len(tests) == 1 and [m for m, lab in cfg.succ[tests[0].id] if lab == "true"] == sends
    run.check(ok, "C16.CHANGE", rn.qual, "send iff new_status is not None",
              "a notification can be sent although the status did not change", node=rn.node, file=rn.file)
    c = find_calls(cfg.nodes[sends[0]].ast, lambda c: method_call(c, "status_sender", "send"))[0]  # type: ignore[arg-type]
    ok = u(c.args[0]).replace(" ", "") == "ComponentStatus(self.battery_id,new_status)"
    defs = [s for s in body_walk(rn.node) if isinstance(s, ast.Assign) and u(s.targets[0]) == "new_status"]
    ok = ok and {u(s.value) for s in defs} == {"None", "self._get_new_status_if_changed()"}
    run.check(ok, "C16.CHANGE", rn.qual, "sends ComponentStatus(battery_id, <detected change>)",
              "the notification does not carry the status found by the change detection", node=rn.node, file=rn.file)
    gn = prog.func(f"{TR}._get_new_status_if_changed")
    run.analysed(gn.qual)
    cfg = CFG(gn.node, gn.file)
    tests = [t for t in cfg.nodes if t.kind == "test" and t.ast is not None and canon(t.ast) == ("!=", frozenset({"self._last_status", "current_status"}))]
    ok = len(tests) == 1
    if ok:
        t = tests[0]
        rets = [n.id for n in cfg.nodes if isinstance(n.ast, ast.Return) and u(n.ast.value) == "current_status"]
        stores = [n.id for n in cfg.nodes if isinstance(n.ast, ast.Assign) and u(n.ast.targets[0]) == "self._last_status"
                  and u(n.ast.value) == "current_status"]
        ok = bool(rets) and bool(stores) and cfg.path(cfg.entry, rets, avoid=[t.id]) is None and \
            cfg.path(t.id, rets, avoid=stores) is None and \
            not any(r in cfg.reachable([m for m, lab in cfg.succ[t.id] if lab == "false"]) for r in rets)
        cur = [s for s in body_walk(gn.node) if isinstance(s, ast.Assign) and u(s.targets[0]) == "current_status"]
        ok = ok and len(cur) == 1 and u(cur[0].value) == "self._get_current_status()"
    run.check(ok, "C16.CHANGE", gn.qual, "changed -> store and return; unchanged -> None",
              "the change detector does not return a status exactly when it differs from the stored one "
              "(after storing it)", node=gn.node, file=gn.file)


def check_block(run: Run, prog: Program) -> None:
    fn = prog.func(f"{BS}.block")
    run.analysed(fn.qual)
    cfg = CFG(fn.node, fn.file)
    te = TermEval()
    t_none = [t for t in cfg.nodes if t.kind == "test" and t.ast is not None and canon(t.ast) == ("is", frozenset({"self.blocked_until", "None"}))]
    t_still = [t for t in cfg.nodes if t.kind == "test" and t.ast is not None and canon_total(t.ast) == ("<", "now", "self.blocked_until")]
    ok = len(t_none) == 1 and len(t_still) == 1
    run.check(ok, "C16.BLOCK", fn.qual, "three cases: not blocked / still blocked / expired",
              "block() does not distinguish not-blocked, still-blocked and expired", node=fn.node, file=fn.file)
    if not ok:
        return

    def branch(test, label):
        return cfg.reachable([m for m, lab in cfg.succ[test.id] if lab == label],
                             avoid=[t.id for t in t_none + t_still if t.id != test.id])

    def writes(region, attr):
        return [cfg.nodes[x].ast for x in region if isinstance(cfg.nodes[x].ast, ast.Assign)
                and u(cfg.nodes[x].ast.targets[0]) == f"self.{attr}"]

    fresh = branch(t_none[0], "true")
    w = writes(fresh, "last_blocking_duration")
    ok = len(w) == 1 and u(w[0].value) == "self.min_duration"
    run.check(ok, "C16.BLOCK", fn.qual, "not blocked -> min_duration",
              "a first failure (or the first after a success) does not block for the minimum duration: "
              "the back-off is not reset by unblock()", node=fn.node, file=fn.file)
    still = branch(t_still[0], "true")
    ok = not writes(still, "last_blocking_duration") and not writes(still, "blocked_until") and any(
        isinstance(cfg.nodes[x].ast, ast.Return) and te.ev(cfg.nodes[x].ast.value) in (Poly(), Poly.atom("self._timedelta_zero"))
        for x in still)
    run.check(ok, "C16.BLOCK", fn.qual, "still blocked -> zero, no state change",
              "a failure while still blocked extends or changes the block", node=fn.node, file=fn.file)
    expired = branch(t_still[0], "false")
    w = writes(expired, "last_blocking_duration")
    ok = len(w) == 1 and isinstance(w[0].value, ast.Call) and u(w[0].value.func) == "min" and len(w[0].value.args) == 2
    if ok:
        polys = [te.ev(a) for a in w[0].value.args]
        ok = Poly.atom("self.last_blocking_duration").scale(2) in polys and Poly.atom("self.max_duration") in polys
    run.check(ok, "C16.BLOCK", fn.qual, "expired -> min(2 * last, max_duration)",
              "consecutive failures do not double the blocking period up to the maximum", node=fn.node, file=fn.file)
    for region, name in ((fresh, "not blocked"), (expired, "expired")):
        w = writes(region, "blocked_until")
        ok = len(w) == 1 and te.ev(w[0].value) == Poly.atom("now") + Poly.atom("self.last_blocking_duration")
        run.check(ok, "C16.BLOCK", fn.qual, f"{name}: blocked_until = now + duration",
                  "the block does not end after the computed duration", node=fn.node, file=fn.file)
    ub = prog.func(f"{BS}.unblock")
    run.check(u(ub.node.body[-1]) == "self.blocked_until = None", "C16.BLOCK", ub.qual, "unblock clears blocked_until",
              "unblock() does not clear the block", node=ub.node, file=ub.file)
    ib = prog.func(f"{BS}.is_blocked")
    txt = u(ib.node).replace(" ", "").replace("\n", "")
    ok = "ifself.blocked_untilisNone:returnFalse" in txt and "returnself.blocked_until>datetime.now(tz=timezone.utc)" in txt
    run.check(ok, "C16.BLOCK", ib.qual, "blocked iff blocked_until in the future", "is_blocked is not "
              "`blocked_until is set and in the future`", node=ib.node, file=ib.file)
    # tracker: unblock on every success, block on failure unless NOT_WORKING
    hr = prog.func(f"{TR}._handle_status_set_power_result")
    run.analysed(hr.qual)
    cfg = CFG(hr.node, hr.file)
    res = hr.params[1]
    succ_t = [t for t in cfg.nodes if t.kind == "test" and t.ast is not None and canon(t.ast) == ("in", "self.battery_id", f"{res}.succeeded")]
    ok = len(succ_t) == 1
    if ok:
        t_true = [m for m, lab in cfg.succ[succ_t[0].id] if lab == "true"]
        ok = bool(t_true) and u(cfg.nodes[t_true[0]].ast).replace(" ", "") == "self._blocking_status.unblock()"
    run.check(ok, "C16.BLOCK", hr.qual, "succeeded -> unblock() unconditionally",
              "a successful power command does not always reset the back-off (e.g. only when the status "
              "is UNCERTAIN): after the block expired a later failure doubles instead of restarting at "
              "the minimum", node=hr.node, file=hr.file)
    fail_t = [t for t in cfg.nodes if t.kind == "test" and t.ast is not None and canon(t.ast) == (
        "and", frozenset({("in", "self.battery_id", f"{res}.failed"),
                          ("!=", frozenset({"self._last_status", "ComponentStatusEnum.NOT_WORKING"}))}))]
    blocks = nodes_with_call(cfg, lambda c: method_call(c, "self._blocking_status", "block"))
    ok = len(fail_t) == 1 and len(blocks) == 1 and [m for m, lab in cfg.succ[fail_t[0].id] if lab == "true"] == blocks \
        and cfg.path(cfg.entry, blocks, avoid=[fail_t[0].id]) is None
    run.check(ok, "C16.BLOCK", hr.qual, "failed and not NOT_WORKING -> block()",
              "a failed power command does not block a (working/uncertain) battery, or blocks one that is "
              "not working", node=hr.node, file=hr.file)
    gw = prog.func(f"{CS}.get_working_components")
    run.analysed(gw.qual)
    txt = u(gw.node).replace(" ", "").replace("\n", "")
    p = gw.params[1]
    ok = f"working=self.working.intersection({p})" in txt and "iflen(working)>0:returnworking" in txt and \
        f"returnself.uncertain.intersection({p})" in txt
    run.check(ok, "C16.BLOCK", gw.qual, "uncertain only when no working component",
              "uncertain components are used although working ones are available (or never)", node=gw.node, file=gw.file)


CONTROLS = [
    ("or instead of and in the battery conjunction", MOD,
     "            and self._is_battery_state_correct(bat_data)\n", "            or self._is_battery_state_correct(bat_data)\n", "C16.SAFE"),
    ("a faulty state accepted", MOD, "        BatteryComponentState.DISCHARGING,\n    }",
     "        BatteryComponentState.DISCHARGING,\n        BatteryComponentState.ERROR,\n    }", "C16.SAFE"),
    ("WORKING returned before the validity test", MOD,
     "        if not is_msg_correct:\n            return ComponentStatusEnum.NOT_WORKING\n        if self._last_status == ComponentStatusEnum.NOT_WORKING:",
     "        if self._last_status == ComponentStatusEnum.NOT_WORKING and self._battery.last_msg_correct:\n            return ComponentStatusEnum.WORKING\n        if not is_msg_correct:\n            return ComponentStatusEnum.NOT_WORKING\n        if self._last_status == ComponentStatusEnum.NOT_WORKING:",
     "C16.SAFE"),
    ("back-off triples", "microgrid._power_distributing._component_status._blocking_status",
     "2 * self.last_blocking_duration", "3 * self.last_blocking_duration", "C16.BLOCK"),
    ("sending unconditionally", MOD, "                    if new_status is not None:\n", "                    if True:\n", "C16.CHANGE"),
    ("stale accepted unless WORKING", MOD,
     "        return not is_outdated\n", "            return False\n        return True\n", "C16.SAFE"),
    ("inverter timer looks at the battery timestamp", MOD,
     "                            - self._inverter.last_msg_timestamp\n", "                            - self._battery.last_msg_timestamp\n", "C16.TIMER"),
]


def run_rules(run: Run, prog: Program) -> None:
    check_safe(run, prog)
    check_timer(run, prog)
    check_change(run, prog)
    check_block(run, prog)


def check(run: Run, prog: Program, tier: str) -> str:
    run.rule("C16.SAFE", "each disqualifying fact forces its predicate to False on every path; flags are the "
             "conjunction of all predicates; WORKING/UNCERTAIN only with both flags; operational-state sets frozen")
    run.rule("C16.TIMER", "handlers record timestamp + reset their timer; each timer branch judges and clears its "
             "own stream; every state-changing branch reaches the change detection")
    run.rule("C16.CHANGE", "notifications only for detected changes; detector stores before returning")
    run.rule("C16.BLOCK", "back-off: min on first, unchanged while blocked, min(2*last, max) when expired; "
             "unblock on every success; block on failure unless NOT_WORKING; uncertain only as fallback")
    run_rules(run, prog)
    run.floor("C16.SAFE", 16)
    run.floor("C16.TIMER", 10)
    run.floor("C16.CHANGE", 3)
    run.floor("C16.BLOCK", 10)
    from ..engine.controls import run_controls

    run_controls(run, CONTROLS, run_rules, tier)
    run.assume("the frozen atom table in sa/props/c16.py binds each disqualifying fact to the condition "
               "testing it; the operational-state sets are the documented ones")
    run.undecided("races between the wall clock and the timers (strict `<` at exactly max_data_age); "
                  "message delivery timing")
    return ("Three-valued partial evaluation of the validity predicates on their CFGs (one disqualifying "
            "fact true, everything else unknown), conjunction/guard-shape rules on the health flags and "
            "the status decision, sibling rules on the two timer branches, path rules on change "
            "notification, and term rules on the exponential back-off.")
